"""Driver: vcheck <Cxx> [--tier quick|thorough] [--replay PATH]"""
from __future__ import annotations

import argparse
import importlib
import json
import os
import sys
import time
import traceback

from . import common


def main(argv=None) -> int:
    ap = argparse.ArgumentParser()
    ap.add_argument('property')
    ap.add_argument('--tier', default=None)
    ap.add_argument('--replay', default=None)
    ap.add_argument('--only', default=None, help='substring filter on obligation ids (debugging)')
    a = ap.parse_args(argv)
    tier = a.tier or common.tier_from_env()
    os.environ['VERIF_TIER'] = tier
    t0 = time.time()
    try:
        mod = importlib.import_module(f'checks.{a.property}')
    except ModuleNotFoundError:
        print(f'no check for {a.property}', file=sys.stderr)
        return 3
    if a.replay:
        return mod.replay(a.replay) if hasattr(mod, 'replay') else generic_replay(mod, a.replay)
    try:
        results, meta = mod.run(tier, common.seed(), only=a.only)
    except Exception:
        print('CHECKER-ERROR: ' + traceback.format_exc(), file=sys.stderr)
        return 3
    return common.finish(a.property, tier, results, t0, **meta)


def generic_replay(mod, path: str) -> int:
    doc = json.load(open(path, encoding='utf8'))
    ob_id = doc['obligation']
    fn = getattr(mod, 'replay_obligation', None)
    if fn is None:
        print('this check has no replay entry point', file=sys.stderr)
        return 3
    r = fn(ob_id, doc)
    if r is None:
        print(f'replay: {ob_id} passes on the current tree')
        return 0
    tail = '' if doc.get('native_failing_input', True) in (True, 'True') else ' no-failing-input-found'
    print(f'VIOLATION property={doc["property"]} replay={path} obligation={ob_id} key={r[0]}{tail}')
    print('  ' + r[1][:600])
    return 1


if __name__ == '__main__':
    sys.exit(main())
