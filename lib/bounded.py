"""Bounded back end: run a run-time contract on the REAL code over an enumerated domain.

A bounded obligation is a subclass of `BObl`:

    class MyObl(BObl):
        id = 'C03.B.ddl'            # unique
        property = 'C03'
        rule = 'how cases are generated and what makes one non-trivial'
        bound = 'the stated bound (sizes, alphabets, counts)'
        def cases(self, tier, seed):      # generator of JSON-serialisable recipes
            ...
        def check(self, recipe):          # runs the real code; returns None or (key, message)
            ...
        def exhaustive(self, tier):       # True iff cases() enumerates a finite domain completely
            return False
        def nontrivial(self, recipe):     # False for cases that exercise nothing (e.g. empty doc)
            return True

`check` is executed in worker processes (fork), so it must depend only on the recipe and
on /repo's working tree.  A returned `key` is the *narrow class* of the failure: it is
matched against known_findings.txt, so it must name the mechanism (site, character class,
call shape), not the whole input, and different defects must get different keys.
A bounded obligation is never counted as proved.
"""
from __future__ import annotations

import json
import multiprocessing as mp
import os
import sys
import time
import traceback
from typing import Any, Iterable, List, Optional, Tuple

from .common import OblResult, Failure, DISCHARGED, REFUTED, ERROR, REPO

if REPO not in sys.path:
    sys.path.insert(0, REPO)


class BObl:
    id = ''
    property = ''
    rule = ''
    bound = ''
    chunk = 64
    # wall-clock budget for the sampled (non-exhaustive) part, seconds
    budget = {'quick': 20.0, 'thorough': 240.0}

    def cases(self, tier: str, seed: int) -> Iterable[Any]:
        raise NotImplementedError

    def check(self, recipe: Any) -> Optional[Tuple[str, str]]:
        raise NotImplementedError

    def exhaustive(self, tier: str) -> bool:
        return False

    def nontrivial(self, recipe: Any) -> bool:
        return True


_CURRENT: Optional[BObl] = None


def _work(chunk: List[Any]):
    out = []
    ob = _CURRENT
    for recipe in chunk:
        try:
            r = ob.check(recipe)
        except Exception:  # a crash of the harness itself, not of the code under test
            r = ('__harness_error__', traceback.format_exc()[-1500:])
        nt = True
        try:
            nt = bool(ob.nontrivial(recipe))
        except Exception:
            pass
        out.append((recipe, r, nt))
    return out


def _chunks(it: Iterable[Any], n: int):
    buf = []
    for x in it:
        buf.append(x)
        if len(buf) >= n:
            yield buf
            buf = []
    if buf:
        yield buf


def run_bounded(ob: BObl, tier: str, seed: int, workers: int = 0) -> OblResult:
    """Run one bounded obligation over its domain on `workers` processes."""
    global _CURRENT
    t0 = time.time()
    workers = workers or min(16, os.cpu_count() or 1)
    _CURRENT = ob
    res = OblResult(id=ob.id, kind='B', verdict=DISCHARGED, backend='bounded',
                    rule=ob.rule, bound=ob.bound)
    seen = set()
    failures = {}
    budget = ob.budget.get(tier, 20.0)
    exhaustive = ob.exhaustive(tier)
    harness_errors = []
    stopped_early = False
    ctx = mp.get_context('fork')
    gen = _chunks(ob.cases(tier, seed), ob.chunk)
    try:
        with ctx.Pool(workers) as pool:
            for out in pool.imap_unordered(_work, gen):
                for recipe, r, nt in out:
                    res.evaluations += 1
                    if nt:
                        try:
                            sig = json.dumps(recipe, sort_keys=True, default=repr)
                        except Exception:
                            sig = repr(recipe)
                        h = hash(sig)
                        if h not in seen:
                            seen.add(h)
                    if len(res.samples) < 3 and nt:
                        res.samples.append(recipe)
                    if r is not None:
                        key, msg = r
                        if key == '__harness_error__':
                            harness_errors.append(msg)
                            continue
                        old = failures.get(key)
                        size = len(json.dumps(recipe, default=repr))
                        if old is None or size < old[0]:
                            failures[key] = (size, recipe, msg)
                if not exhaustive and time.time() - t0 > budget:
                    stopped_early = True
                    pool.terminate()
                    break
    except Exception:
        res.verdict = ERROR
        res.detail = 'bounded runner crashed: ' + traceback.format_exc()[-1500:]
        res.seconds = time.time() - t0
        return res
    res.distinct_nontrivial = len(seen)
    res.exhaustive = bool(exhaustive and not stopped_early)
    res.seconds = time.time() - t0
    if harness_errors:
        res.verdict = ERROR
        res.detail = f'{len(harness_errors)} harness errors; first: {harness_errors[0]}'
        return res
    if res.evaluations == 0:
        res.verdict = ERROR
        res.detail = 'bounded obligation generated zero cases'
        return res
    for key, (size, recipe, msg) in sorted(failures.items()):
        res.failures.append(Failure(obligation=ob.id, key=key, message=msg, recipe=recipe, native=True))
    if failures:
        res.verdict = REFUTED
        res.detail = f'{len(failures)} failing classes: ' + ', '.join(sorted(failures)[:12])
    return res


def replay_bounded(ob: BObl, recipe: Any) -> Optional[Tuple[str, str]]:
    return ob.check(recipe)
