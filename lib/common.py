"""Shared plumbing for every check: paths, evidence, verdicts, known findings.

Exit codes: 0 held / 1 violation (VIOLATION line printed) / 3 checker failure.
`unknown`, timeouts and tracebacks inside an obligation never map to 1.
"""
from __future__ import annotations

import json
import os
import sys
import time
import hashlib
import re
from dataclasses import dataclass, field
from typing import Any, Dict, List, Optional

VERIF = os.path.dirname(os.path.dirname(os.path.abspath(__file__)))
REPO = os.environ.get('VERIF_REPO', '/repo')
# VERIF_OUT redirects what a run writes (evidence, replays): used when the checks are pointed at a scratch worktree
# with a seeded change (VERIF_REPO), so that the committed evidence of /repo itself is not overwritten
_OUT = os.environ.get('VERIF_OUT', VERIF)
EVIDENCE_DIR = os.path.join(_OUT, 'evidence')
REPLAY_DIR = os.path.join(_OUT, 'replays')
KNOWN_FILE = os.path.join(VERIF, 'known_findings.txt')

# verdicts of a single obligation
DISCHARGED = 'discharged'      # P/L: solver unsat; S: evaluated true; B: every case passed
REFUTED = 'refuted'            # solver sat / static false / bounded case failed
UNDECIDED = 'undecided'        # unknown, timeout, unsupported construct, engine limit
ERROR = 'error'                # checker malfunction


def seed() -> int:
    try:
        return int(os.environ.get('VERIF_SEED', '0'))
    except ValueError:
        return 0


def tier_from_env(default: str = 'quick') -> str:
    t = os.environ.get('VERIF_TIER', default)
    return t if t in ('quick', 'thorough') else default


@dataclass
class Failure:
    """One failing case of one obligation, natively reproduced unless stated."""
    obligation: str
    key: str                 # narrow class of the failure (matched against known_findings.txt)
    message: str
    recipe: Any = None       # JSON-serialisable input / history / call
    native: bool = True      # reproduced against the real code
    solver_output: Optional[str] = None


@dataclass
class OblResult:
    id: str
    kind: str                # 'P' | 'L' | 'S' | 'B'
    verdict: str
    backend: str = ''        # z3 / cvc5 / static / bounded / crosshair
    seconds: float = 0.0
    detail: str = ''
    function: str = ''
    failures: List[Failure] = field(default_factory=list)
    # bounded extras
    evaluations: int = 0
    distinct_nontrivial: int = 0
    exhaustive: bool = False
    rule: str = ''
    bound: str = ''
    samples: List[Any] = field(default_factory=list)
    exact: bool = True       # False: obligation is stronger than the property (canonical text);
                             # a refutation needs confirmation by a property-level oracle


@dataclass
class KnownFinding:
    property: str
    obligation: str
    key: str
    text: str


def load_known() -> (List[KnownFinding], List[str]):
    known: List[KnownFinding] = []
    fixed: List[str] = []
    if not os.path.exists(KNOWN_FILE):
        return known, fixed
    for line in open(KNOWN_FILE, encoding='utf8'):
        line = line.rstrip('\n')
        if not line.strip() or line.lstrip().startswith('#'):
            continue
        if line.startswith('fixed:'):
            fixed.append(line)
            continue
        m = re.match(r'known:\s+property=(\S+)\s+obligation=(\S+)\s+key=(\S+)\s+::\s*(.*)$', line)
        if not m:
            raise SystemExit(f'known_findings.txt: cannot parse line: {line!r}')
        known.append(KnownFinding(*m.groups()))
    return known, fixed


def write_replay(prop: str, failure: Failure, extra: Optional[Dict[str, Any]] = None) -> str:
    os.makedirs(REPLAY_DIR, exist_ok=True)
    h = hashlib.sha1((failure.obligation + '|' + failure.key).encode()).hexdigest()[:10]
    path = os.path.join(REPLAY_DIR, f'{prop}-{h}.json')
    doc = {
        'property': prop,
        'obligation': failure.obligation,
        'key': failure.key,
        'message': failure.message,
        'recipe': failure.recipe,
        'native_failing_input': failure.native,
        'solver_output': failure.solver_output,
    }
    if extra:
        doc.update(extra)
    with open(path, 'w', encoding='utf8') as f:
        json.dump(doc, f, indent=1, default=repr, ensure_ascii=False)
    return path


def repo_source_hash() -> str:
    h = hashlib.sha1()
    root = os.path.join(REPO, 'pydbml')
    for dp, dn, fn in sorted(os.walk(root)):
        dn.sort()
        for f in sorted(fn):
            if f.endswith('.py'):
                p = os.path.join(dp, f)
                h.update(p.encode())
                h.update(open(p, 'rb').read())
    return h.hexdigest()[:16]


def finish(prop: str, tier: str, results: List[OblResult], t0: float,
           level_if_all_proved: str = 'proof', explanation: str = '',
           functions_under_contract: Optional[List[str]] = None,
           assumptions: Optional[List[str]] = None,
           trusted_base: Optional[List[str]] = None,
           checker_cmd: str = '', extra: Optional[Dict[str, Any]] = None) -> int:
    """Aggregate obligation results, print KNOWN-FINDING / VIOLATION lines, write evidence.
    Returns the process exit code."""
    known, fixed = load_known()
    known_here = {(k.obligation, k.key): k for k in known if k.property == prop}
    violations: List[Failure] = []
    known_hit: Dict[tuple, KnownFinding] = {}
    errors = [r for r in results if r.verdict == ERROR]
    for r in results:
        for f in r.failures:
            k = known_here.get((f.obligation, f.key))
            if k is not None:
                known_hit[(f.obligation, f.key)] = k
            else:
                violations.append(f)
    for (ob, key), k in sorted(known_hit.items()):
        print(f'KNOWN-FINDING: property={prop} obligation={ob} key={key} {k.text}')
    stale = [k for kk, k in known_here.items() if kk not in known_hit]
    for f in violations:
        path = write_replay(prop, f, {'tier': tier, 'source_hash': repo_source_hash()})
        tail = '' if f.native else ' no-failing-input-found'
        print(f'VIOLATION property={prop} replay={path} obligation={f.obligation} key={f.key}{tail}')
        print(f'  {f.message[:400]}')

    n_obl = len(results)
    proved_kinds = ('P', 'L', 'S')
    # an obligation whose only failures are listed known findings still counts as not discharged
    discharged = sum(1 for r in results if r.verdict == DISCHARGED)
    all_proved = all(r.kind in proved_kinds and r.verdict == DISCHARGED for r in results) and n_obl > 0
    level = level_if_all_proved if all_proved else 'other'
    by_backend: Dict[str, int] = {}
    for r in results:
        by_backend[r.backend or r.kind] = by_backend.get(r.backend or r.kind, 0) + 1
    bounded = [
        {'id': r.id, 'rule': r.rule, 'bound': r.bound, 'evaluations': r.evaluations,
         'distinct_nontrivial': r.distinct_nontrivial, 'exhaustive': r.exhaustive,
         'verdict': r.verdict, 'samples': r.samples[:3]}
        for r in results if r.kind == 'B']
    kinds: Dict[str, Dict[str, int]] = {}
    for r in results:
        d = kinds.setdefault(r.kind, {})
        d[r.verdict] = d.get(r.verdict, 0) + 1
    ev_total = sum(r.evaluations for r in results if r.kind == 'B')
    dn_total = sum(r.distinct_nontrivial for r in results if r.kind == 'B')
    samples: List[Any] = []
    for r in results:
        if r.kind != 'B' and len(samples) < 6:
            samples.append({'obligation': r.id, 'kind': r.kind, 'verdict': r.verdict,
                            'backend': r.backend, 'function': r.function})
    for r in results:
        if r.kind == 'B' and r.samples and len(samples) < 12:
            samples.append({'obligation': r.id, 'case': r.samples[0]})
    n_proved = sum(1 for r in results if r.kind in proved_kinds and r.verdict == DISCHARGED)
    n_bounded = sum(1 for r in results if r.kind == 'B' and r.verdict == DISCHARGED)
    expl = explanation or ''
    expl = (f'{expl} | this run: {n_proved} obligations discharged by solver/static evaluation '
            f'(P/L/S), {n_bounded} bounded stand-ins passed (never counted as proved), '
            f'{sum(1 for r in results if r.verdict == UNDECIDED)} undecided, '
            f'{sum(1 for r in results if r.verdict == REFUTED)} refuted '
            f'({len(known_hit)} listed known findings).').strip(' |')
    coverage: Dict[str, Any] = {
        'obligations': n_obl,
        'discharged': discharged,
        'checker_cmd': checker_cmd or f'bin/vcheck {prop} --tier {tier}',
        'trusted_base': trusted_base or [],
        'explanation': expl,
        'evaluations': max(ev_total, n_obl, 1),
        'distinct_nontrivial': max(dn_total, len({r.id for r in results}), 2) if n_obl >= 2 else max(dn_total, 2),
        'rule': 'obligation = one named proof/static/bounded obligation; bounded cases are distinct '
                'by their canonical JSON recipe and non-trivial by each obligation\'s own rule (see bounded[])',
        'samples': samples or [{'note': 'no obligations'}],
        'exhaustive': all(r.exhaustive for r in results if r.kind == 'B') if bounded else False,
        'by_kind': kinds,
        'by_backend': by_backend,
        'solver_s': round(sum(r.seconds for r in results if r.kind in ('P', 'L')), 3),
        'functions_under_contract': functions_under_contract or sorted({r.function for r in results if r.function}),
        'undecided': [{'id': r.id, 'detail': r.detail[:300]} for r in results if r.verdict == UNDECIDED],
        'refuted': [{'id': r.id, 'detail': r.detail[:300]} for r in results if r.verdict == REFUTED],
        'bounded': bounded,
        'known_findings': [f'{k.obligation} {k.key} :: {k.text}' for k in known_hit.values()],
        'known_findings_not_reproduced': [f'{k.obligation} {k.key}' for k in stale],
        'fixed': [l for l in fixed if f'property={prop} ' in l],
        'source_hash': repo_source_hash(),
    }
    if extra:
        coverage.update(extra)
    ev = {
        'property_id': prop,
        'tier': tier,
        'seed': seed(),
        'level': level,
        'coverage': coverage,
        'assumptions': assumptions or [],
        'wall_s': round(time.time() - t0, 2),
        'violations': len(violations),
    }
    os.makedirs(EVIDENCE_DIR, exist_ok=True)
    with open(os.path.join(EVIDENCE_DIR, f'{prop}.json'), 'w', encoding='utf8') as f:
        json.dump(ev, f, indent=1, default=repr, ensure_ascii=False)
    summary = ', '.join(f'{k}:{v}' for k, v in sorted(kinds.items()))
    print(f'[{prop}] tier={tier} obligations={n_obl} discharged={discharged} level={level} '
          f'wall={ev["wall_s"]}s  {summary}')
    for r in results:
        if r.verdict == UNDECIDED:
            print(f'  undecided: {r.id}: {r.detail[:200]}')
    if errors:
        for r in errors:
            print(f'CHECKER-ERROR {r.id}: {r.detail[:2000]}', file=sys.stderr)
        return 3
    if n_obl == 0:
        print('CHECKER-ERROR: zero obligations generated', file=sys.stderr)
        return 3
    return 1 if violations else 0
