"""Property C12: contract obligations (PyVC, contracts/props/C12.py) + bounded stand-ins (bounded/c12.py)."""
from checks._generic import make

run, replay_obligation = make('C12')
