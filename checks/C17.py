"""Property C17: contract obligations (PyVC, contracts/props/C17.py) + bounded stand-ins (bounded/c17.py)."""
from checks._generic import make

run, replay_obligation = make('C17')
