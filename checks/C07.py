"""Property C07: contract obligations (PyVC, contracts/props/C07.py) + bounded stand-ins (bounded/c07.py)."""
from checks._generic import make

run, replay_obligation = make('C07')
