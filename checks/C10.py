"""Property C10: contract obligations (PyVC, contracts/props/C10.py) + bounded stand-ins (bounded/c10.py)."""
from checks._generic import make

run, replay_obligation = make('C10')
