"""Property C14: contract obligations (PyVC, contracts/props/C14.py) + bounded stand-ins (bounded/c14.py)."""
from checks._generic import make

run, replay_obligation = make('C14')
