"""Property C03: contract obligations (PyVC, contracts/props/C03.py) + bounded stand-ins (bounded/c03.py)."""
from checks._generic import make

run, replay_obligation = make('C03')
