"""Property C11: contract obligations (PyVC, contracts/props/C11.py) + bounded stand-ins (bounded/c11.py)."""
from checks._generic import make

run, replay_obligation = make('C11')
