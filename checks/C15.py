"""Property C15: contract obligations (PyVC, contracts/props/C15.py) + bounded stand-ins (bounded/c15.py)."""
from checks._generic import make

run, replay_obligation = make('C15')
