"""Property C18: contract obligations (PyVC, contracts/props/C18.py) + bounded stand-ins (bounded/c18.py)."""
from checks._generic import make

run, replay_obligation = make('C18')
