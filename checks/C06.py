"""Property C06: contract obligations (PyVC, contracts/props/C06.py) + bounded stand-ins (bounded/c06.py)."""
from checks._generic import make

run, replay_obligation = make('C06')
