"""Property C09: contract obligations (PyVC, contracts/props/C09.py) + bounded stand-ins (bounded/c09.py)."""
from checks._generic import make

run, replay_obligation = make('C09')
