"""Property C05: contract obligations (PyVC, contracts/props/C05.py) + bounded stand-ins (bounded/c05.py)."""
from checks._generic import make

run, replay_obligation = make('C05')
