"""Property C13: contract obligations (PyVC, contracts/props/C13.py) + bounded stand-ins (bounded/c13.py)."""
from checks._generic import make

run, replay_obligation = make('C13')
