"""Property C02: contract obligations (PyVC, contracts/props/C02.py) + bounded stand-ins (bounded/c02.py)."""
from checks._generic import make

run, replay_obligation = make('C02')
