"""Property C04: contract obligations (PyVC, contracts/props/C04.py) + bounded stand-ins (bounded/c04.py)."""
from checks._generic import make

run, replay_obligation = make('C04')
