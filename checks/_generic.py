"""Generic property check: P/L/S obligations from contracts (PyVC) + bounded stand-ins.

checks/Cxx.py is a three-line module that calls `make(...)`.
"""
from __future__ import annotations

import importlib
import os
import time
from typing import Any, Dict, List, Optional

from lib import common
from lib.common import OblResult
from lib.bounded import run_bounded


def run_property(prop: str, tier: str, seed: int, only: Optional[str] = None,
                 meta: Optional[Dict[str, Any]] = None):
    results: List[OblResult] = []
    meta = dict(meta or {})
    # 1. proved side: contracts discharged by the solver / static evaluation
    try:
        pv = importlib.import_module(f'contracts.props.{prop}')
    except ModuleNotFoundError as e:
        if f'contracts.props.{prop}' not in str(e) and 'contracts.props' not in str(e):
            raise
        pv = None
    if pv is not None:
        rs, m2 = pv.run(tier, seed, only)
        results.extend(rs)
        for k, v in m2.items():
            if k in ('assumptions', 'trusted_base', 'functions_under_contract') and k in meta:
                meta[k] = list(meta[k]) + [x for x in v if x not in meta[k]]
            else:
                meta[k] = v
    # 1b. static obligations (exact evaluation of extracted program data)
    from pyvc.static import run_static
    for r in run_static(prop):
        if only and only not in r.id:
            continue
        results.append(r)
    # 1c. lemmas over spec functions (explicit induction), with their definitions checked against the real routines
    from pyvc.lemmas import run_lemmas
    for r in run_lemmas(prop):
        if only and only not in r.id:
            continue
        results.append(r)
    # 2. bounded side
    try:
        bm = importlib.import_module(f'bounded.{prop.lower()}')
    except ModuleNotFoundError as e:
        if f'bounded.{prop.lower()}' not in str(e):
            raise
        bm = None
    obs = list(bm.OBLIGATIONS) if bm is not None else []
    try:
        xm = importlib.import_module(f'bounded.extra_{prop.lower()}')
        obs.extend(xm.OBLIGATIONS)
    except ModuleNotFoundError as e:
        if f'bounded.extra_{prop.lower()}' not in str(e):
            raise
    if os.environ.get('VERIF_NO_BOUNDED') != '1':
        for ob in obs:
            if only and only not in ob.id:
                continue
            results.append(run_bounded(ob, tier, seed))
    return results, meta


def make(prop: str, **meta):
    def run(tier, seed, only=None):
        return run_property(prop, tier, seed, only, meta)

    def replay_obligation(ob_id, doc):
        if '.B.contract-twin.' in ob_id:
            from pyvc.replay import replay_obligation as rp
            return rp(ob_id, doc)
        if '.L.' in ob_id and '.B.' not in ob_id:
            from pyvc.lemmas import run_lemmas
            for r in run_lemmas(prop):
                if r.id == ob_id and r.failures:
                    return (r.failures[0].key, r.failures[0].message)
            return None
        if '.B.lemma-defs.' in ob_id:
            from pyvc.lemmas import DEFS
            fn, _ = DEFS[ob_id.split('.B.lemma-defs.')[1]]
            msg = fn(doc['recipe']['word'])
            return ('definition', msg) if msg else None
        if '.S.' in ob_id:
            from pyvc.static import replay_static
            return replay_static(ob_id)
        if '.B.' in ob_id:
            mods = []
            for name in (f'bounded.{prop.lower()}', f'bounded.extra_{prop.lower()}'):
                try:
                    mods.append(importlib.import_module(name))
                except ModuleNotFoundError:
                    pass
            for bm in mods:
                for ob in bm.OBLIGATIONS:
                    if ob.id == ob_id:
                        return ob.check(doc['recipe'])
            raise SystemExit(f'no bounded obligation {ob_id}')
        pv = importlib.import_module(f'contracts.props.{prop}')
        return pv.replay(ob_id, doc)
    return run, replay_obligation
