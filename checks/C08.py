"""Property C08: contract obligations (PyVC, contracts/props/C08.py) + bounded stand-ins (bounded/c08.py)."""
from checks._generic import make

run, replay_obligation = make('C08')
