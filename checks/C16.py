"""Property C16: contract obligations (PyVC, contracts/props/C16.py) + bounded stand-ins (bounded/c16.py)."""
from checks._generic import make

run, replay_obligation = make('C16')
