"""Property C01: contract obligations (PyVC, contracts/props/C01.py) + bounded stand-ins (bounded/c01.py)."""
from checks._generic import make

run, replay_obligation = make('C01')
