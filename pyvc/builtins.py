"""Trusted contracts of Python builtins / stdlib functions used by pydbml, as symbolic models.

Every model here is an *assumption* (listed in evidence under trusted_base) and is sample-checked
against CPython by pyvc/selfcheck.py.
"""
from __future__ import annotations

import builtins as _bi
import inspect
import io
import itertools
import pathlib
import re
import textwrap
import types

import z3

from . import engine as E
from .engine import (SV, NONE, mk_bool, mk_int, mk_str, const, PyList, PyRaise, Unsupported, Interp,
                     type_alternatives, comp_cnt)
from .sorts import (Val, cls_of, I, S, B, sv as SVAL, tw_indent, str_upper, str_lower, str_strip, str_rstrip,
                    str_lstrip, str_isspace, replace_all, re_sub, float_of_str, ElArr)

H = {}       # id(obj) -> handler
OBJS = {}    # id(obj) -> obj   (keeps the object alive so that ids stay unique)


def builtin(*objs):
    def deco(fn):
        for o in objs:
            H[id(o)] = fn
            OBJS[id(o)] = o
        return fn
    return deco


# ------------------------------------------------------------------------------------------ len etc.
@builtin(len)
def _len(ip: Interp, args, kw, fr):
    v = args[0]
    if v.k == 'val' and v.T is not None:
        alts = [a for a in type_alternatives(v.T) if a[0] != 'none']
        if any(a[0] == 'none' for a in type_alternatives(v.T)) and ip.decide(v.e == Val.none):
            raise PyRaise(TypeError, (), 'len(None)')
        if len(alts) == 1:
            v = ip.unbox(v.e, alts[0])
        else:
            for a in alts:
                if a[0] in ('list', 'dict') and ip.decide(z3.And(Val.is_r(v.e), cls_of(Val.rv(v.e)) == ip.reg.cid(a[0]))):
                    v = ip.unbox(v.e, a)
                    break
                if a[0] == 'str' and ip.decide(Val.is_s(v.e)):
                    v = mk_str(Val.sv(v.e))
                    break
            else:
                raise PyRaise(TypeError, (), 'object has no len()')
    if v.k == 'gen':
        raise PyRaise(TypeError, (), 'len of generator')
    if v.k in ('presults', 'pgroup'):
        return ip.presults_len(v)
    return mk_int(ip.seq_len(v))


def class_test(ip: Interp, v: SV, klass) -> 'z3.BoolRef':
    """isinstance(v, klass) for a single class object."""
    reg = ip.reg
    k = v.k
    if klass is object:
        return z3.BoolVal(True)
    prim = {str: 'str', int: 'int', bool: 'bool', float: 'float', type(None): 'none',
            list: 'pylist', tuple: 'tuple', dict: 'dict'}
    if k in ('str', 'int', 'bool', 'float', 'none'):
        if klass in prim:
            if prim[klass] == k:
                return z3.BoolVal(True)
            if klass is int and k == 'bool':
                return z3.BoolVal(True)
        return z3.BoolVal(False)
    if k == 'tuple':
        return z3.BoolVal(klass is tuple)
    if k == 'pylist':
        return z3.BoolVal(klass is list)
    if k == 'ref':
        if v.cls == 'list':
            return z3.BoolVal(klass is list)
        if v.cls == 'dict':
            return z3.BoolVal(klass is dict)
        if v.cls == 'tuple':
            return z3.BoolVal(klass is tuple)
        pc = reg.pyclass(v.cls)
        if pc is None:
            raise Unsupported(f'isinstance on unknown class {v.cls}')
        return z3.BoolVal(issubclass(pc, klass))
    if k in ('const', 'closure', 'bound'):
        if k == 'const':
            return z3.BoolVal(isinstance(v.py, klass))
        return z3.BoolVal(False)
    if k == 'exc':
        return z3.BoolVal(issubclass(v.py[0], klass))
    if k in ('presults', 'pgroup'):
        return z3.BoolVal(klass.__name__ == 'ParseResults')
    if k == 'val':
        e = v.e
        if klass is str:
            return Val.is_s(e)
        if klass is bool:
            return Val.is_b(e)
        if klass is int:
            return z3.Or(Val.is_i(e), Val.is_b(e))
        if klass is float:
            return Val.is_f(e)
        if klass is type(None):
            return e == Val.none
        if klass is list:
            return z3.And(Val.is_r(e), cls_of(Val.rv(e)) == reg.cid('list'))
        if klass is dict:
            return z3.And(Val.is_r(e), cls_of(Val.rv(e)) == reg.cid('dict'))
        if klass is tuple:
            return z3.And(Val.is_r(e), cls_of(Val.rv(e)) == reg.cid('tuple'))
        names = reg.subclass_names(klass)
        if not names:
            return z3.BoolVal(False)
        return z3.And(Val.is_r(e), z3.Or(*[cls_of(Val.rv(e)) == reg.cid(n) for n in names]))
    raise Unsupported(f'isinstance on {k}')


@builtin(isinstance)
def _isinstance(ip, args, kw, fr):
    v, c = args
    if c.k == 'tuple':
        classes = [x.py for x in c.py]
    elif c.k == 'const':
        classes = [c.py]
    else:
        raise Unsupported('isinstance with a symbolic class')
    tests = [class_test(ip, v, k) for k in classes]
    return mk_bool(z3.simplify(z3.Or(*tests)))


@builtin(type)
def _type(ip, args, kw, fr):
    v = args[0]
    if v.k == 'ref' and v.cls not in ('list', 'dict', 'tuple'):
        pc = ip.reg.pyclass(v.cls)
        if pc is not None:
            return const(pc)
    prim = {'str': str, 'int': int, 'bool': bool, 'none': type(None), 'pylist': list, 'tuple': tuple}
    if v.k in prim:
        return const(prim[v.k])
    if v.k == 'ref':
        return const({'list': list, 'dict': dict, 'tuple': tuple}[v.cls])
    if v.k == 'val':
        return SV('typeof', v.e, T=v.T)
    raise Unsupported(f'type() of {v.k}')


@builtin(hasattr)
def _hasattr(ip, args, kw, fr):
    v, n = args
    name = _const_str(n)
    if v.k == 'ref':
        pc = ip.reg.pyclass(v.cls)
        if name in ip.reg.fields.get(v.cls, {}):
            return mk_bool(True)
        if pc is not None and inspect.getattr_static(pc, name, E._MISSING) is not E._MISSING:
            return mk_bool(True)
        return mk_bool(False)
    if v.k == 'val' and v.T is not None and v.T[0] != 'any':
        # a value of a union of model classes: decide the class on this path (forks), then answer for that class
        alts = type_alternatives(v.T)
        if all(a[0] == 'obj' for a in alts):
            for i, a in enumerate(alts):
                c = z3.And(Val.is_r(v.e), cls_of(Val.rv(v.e)) == ip.reg.cid(a[1]))
                last = i == len(alts) - 1
                if (last and ip._assume_last(c)) or (not last and ip.decide(c)):
                    return _hasattr(ip, [SV('ref', Val.rv(v.e), cls=a[1]), n], kw, fr)
    raise Unsupported(f'hasattr on {v.k}')


@builtin(getattr)
def _getattr(ip, args, kw, fr):
    v, n = args[0], args[1]
    name = _const_str(n)
    try:
        return ip.getattr_sv(v, name)
    except PyRaise as e:
        if len(args) > 2 and e.exc_cls is AttributeError:
            return args[2]
        raise


def _const_str(n: SV) -> str:
    if n.k != 'str':
        raise Unsupported('attribute name is not a string')
    s = z3.simplify(n.e)
    if not z3.is_string_value(s):
        raise Unsupported('symbolic attribute name')
    return s.as_string()


@builtin(str)
def _str(ip, args, kw, fr):
    if not args:
        return mk_str('')
    return ip.to_str(args[0])


@builtin(repr)
def _repr(ip, args, kw, fr):
    return mk_str(E.py_repr(ip.box(args[0])))


@builtin(bool)
def _bool(ip, args, kw, fr):
    return mk_bool(ip.truthy(args[0])) if args else mk_bool(False)


@builtin(int)
def _int(ip, args, kw, fr):
    v = args[0]
    if v.k == 'str':
        s = v.e
        ok = z3.And(z3.Length(s) > 0, z3.StrToInt(s) >= 0)
        if not ip.decide(ok):
            raise PyRaise(ValueError, (), 'int() of a non-digit string')
        return mk_int(z3.StrToInt(s))
    return mk_int(ip.as_int(v))


@builtin(float)
def _float(ip, args, kw, fr):
    v = args[0]
    if v.k == 'str':
        # the grammar only passes digits '.' digits here; float() of other text raises ValueError
        ip.st.notes.append('float(str): assumed to succeed on the matched number literal')
        return SV('float', float_of_str(v.e))
    raise Unsupported('float() of non-string')


@builtin(list)
def _list(ip, args, kw, fr):
    if not args:
        return SV('pylist', py=PyList([]))
    return SV('pylist', py=PyList(ip.segments(args[0]), T=getattr(args[0], 'T', None)))


@builtin(tuple)
def _tuple(ip, args, kw, fr):
    if not args:
        return SV('tuple', py=[])
    segs = ip.segments(args[0])
    if all(s[0] == 'item' for s in segs):
        return SV('tuple', py=[s[1] for s in segs])
    return SV('pylist', py=PyList(segs))


@builtin(dict)
def _dict(ip, args, kw, fr):
    if not args and not kw:
        return ip.new_dict()
    if len(args) == 1 and not kw:
        src = args[0]
        if src.k == 'objdict':
            return SV('objdict_copy', py={'obj': src.py, 'removed': set()})
        if src.k == 'val' and src.T is not None:
            alts = [a for a in type_alternatives(src.T) if a[0] != 'none']
            if len(alts) == 1 and alts[0][0] == 'dict':
                if ip.decide(src.e == Val.none):
                    raise PyRaise(TypeError, (), 'dict(None)')
                src = ip.unbox(src.e, alts[0])
        if src.k == 'ref' and src.cls == 'dict':
            st = ip.st
            d = ip.new_dict(T=src.T)
            r, r0 = d.e, src.e
            st.set_arr('D_has', z3.Store(st.D_has, r, st.D_has[r0]), r)
            st.set_arr('D_val', z3.Store(st.D_val, r, st.D_val[r0]), r)
            st.set_arr('D_key', z3.Store(st.D_key, r, st.D_key[r0]), r)
            st.set_arr('D_n', z3.Store(st.D_n, r, st.D_n[r0]), r)
            return d
    raise Unsupported('dict() call form')


@builtin(sum)
def _sum(ip, args, kw, fr):
    return ip.sum_seq(args[0])


@builtin(any)
def _any(ip, args, kw, fr):
    return mk_bool(ip.quantify(args[0], False))


@builtin(all)
def _all(ip, args, kw, fr):
    return mk_bool(ip.quantify(args[0], True))


@builtin(min)
def _min(ip, args, kw, fr):
    if len(args) != 1:
        raise Unsupported('min of several arguments')
    v = args[0]
    n = ip.seq_len(v)
    if ip.decide(n == 0):
        raise PyRaise(ValueError, (), 'min() arg is an empty sequence')
    st = ip.st
    m = st.fresh('min', I)
    segs = ip.segments(v)
    j = z3.Int('j!n')
    for s in segs:
        if s[0] == 'item':
            st.fact(m <= ip.as_int(s[1]))
        elif s[0] == 'comp':
            c = s[1]
            vj = z3.substitute(ip.as_int(c.val), (c.K, j))
            cj = z3.substitute(c.cond, (c.K, j))
            st.fact(z3.ForAll([j], z3.Implies(z3.And(0 <= j, j < c.length, cj), m <= vj)))
        elif s[0] == 'heap':
            st.fact(z3.ForAll([j], z3.Implies(z3.And(0 <= j, j < s[4]), m <= Val.iv(s[3][j]))))
        else:
            raise Unsupported('min over segment')
    return mk_int(m)


@builtin(iter)
def _iter(ip, args, kw, fr):
    return SV('iter', py=ip.segments(args[0]))


@builtin(itertools.chain)
def _chain(ip, args, kw, fr):
    segs = []
    for a in args:
        segs.extend(ip.segments(a))
    return SV('iter', py=segs)


@builtin(textwrap.indent)
def _indent(ip, args, kw, fr):
    if len(args) != 2 or kw:
        raise Unsupported('textwrap.indent with predicate')
    return mk_str(tw_indent(ip.as_str(args[0]), ip.as_str(args[1])))


@builtin(re.compile)
def _re_compile(ip, args, kw, fr):
    p = _const_str(args[0])
    return SV('pattern', py=p)


@builtin(re.fullmatch)
def _re_fullmatch(ip, args, kw, fr):
    """re.fullmatch(<constant pattern>, s[, flags]) for its truth value (pyvc/regex.py: the pattern is parsed by
    CPython's regex parser and translated node by node; untranslatable patterns leave the caller undecided)."""
    from . import regex as RX
    p = _const_str(args[0])
    flags = 0
    fl = args[2] if len(args) > 2 else kw.get('flags')
    if fl is not None:
        if fl.k != 'const' or not isinstance(fl.py, int):
            raise Unsupported('re.fullmatch with non-constant flags')
        flags = int(fl.py)
    try:
        e = RX.fullmatch(p, ip.as_str(args[1]), flags)
    except RX.Untranslatable as ex:
        raise Unsupported(f're.fullmatch pattern outside the translatable subset: {ex}')
    ip.st.notes.append('re.fullmatch: constant pattern translated to an SMT regular expression from CPython\'s own parse tree (pyvc/regex.py)')
    return SV('match', e)


@builtin(print)
def _print(ip, args, kw, fr):
    return NONE


@builtin(open)
def _open(ip, args, kw, fr):
    # open(path, encoding='utf8'): the file object; .read() gives text_of(path)
    src = args[0]
    return SV('file', py=src)


@builtin(sorted)
def _sorted(ip, args, kw, fr):
    """sorted(xs, key=..., reverse=...): a fresh list that is a permutation of xs (trusted).  The
    order itself is not modelled (no obligation here depends on it)."""
    src = args[0]
    segs = ip._segments(src)
    if len(segs) != 1 or segs[0][0] != 'heap':
        raise Unsupported('sorted() of something that is not one heap list')
    sg = segs[0]
    st = ip.st
    lst = ip.new_list([], T=sg[2])
    r = lst.e
    arr = st.fresh('sorted', ElArr)
    n = sg[4]
    st.set_arr('L_el', z3.Store(st.L_el, r, arr), r)
    st.set_arr('L_len', z3.Store(st.L_len, r, n), r)
    st.fresh_n += 1
    pi = z3.Function(f'perm!{st.fresh_n}', I, I)
    rho = z3.Function(f'perminv!{st.fresh_n}', I, I)
    j = z3.Int('j!so')
    st.fact(z3.ForAll([j], z3.Implies(z3.And(0 <= j, j < n), z3.And(0 <= pi(j), pi(j) < n, arr[j] == sg[3][pi(j)],
                                                                  rho(pi(j)) == j)), patterns=[arr[j]]))
    st.fact(z3.ForAll([j], z3.Implies(z3.And(0 <= j, j < n), z3.And(0 <= rho(j), rho(j) < n, arr[rho(j)] == sg[3][j],
                                                                  pi(rho(j)) == j)), patterns=[sg[3][j]]))
    st.notes.append('sorted(): trusted as "returns a permutation of its argument"; the order is not modelled')
    return lst


# ------------------------------------------------------------------------------------------ methods
def call_builtin_method(ip: Interp, obj: SV, name: str, args, kw) -> SV:
    k = obj.k
    if k == 'str':
        return str_method(ip, obj, name, args, kw)
    if k == 'pylist':
        return pylist_method(ip, obj, name, args, kw)
    if k == 'ref' and obj.cls == 'list':
        return heaplist_method(ip, obj, name, args, kw)
    if k == 'ref' and obj.cls == 'dict':
        return dict_method(ip, obj, name, args, kw)
    if k == 'const' and isinstance(obj.py, dict):
        return constdict_method(ip, obj, name, args, kw)
    if k == 'tuple':
        if name == 'index' or name == 'count':
            raise Unsupported('tuple method')
    if k == 'objdict_copy':
        if name == 'pop':
            obj.py['removed'].add(_const_str(args[0]))
            return NONE
    if k == 'pattern':
        return pattern_method(ip, obj, name, args, kw)
    if k == 'file':
        if name == 'read':
            # the text behind a path or an open stream: the abstract function text_of (contracts/parser.py)
            return ip.call_abstract(('text_of', 'str', False), [obj.py])
        if name in ('__enter__',):
            return obj
    if k in ('presults', 'pgroup'):
        return ip.presults_method(obj, name, args, kw)
    raise Unsupported(f'method {name} of {k} {obj.cls}')


text_of = z3.Function('text_of', Val, S)
split_first = z3.Function('split_first', S, S, S)


def str_method(ip: Interp, obj: SV, name: str, args, kw) -> SV:
    s = obj.e
    st = ip.st
    # a method of a literal string applied to literal arguments is evaluated by CPython itself
    cs = z3.simplify(s)
    if z3.is_string_value(cs) and name in ('upper', 'lower', 'strip', 'rstrip', 'lstrip', 'isspace',
                                           'startswith', 'endswith', 'replace', 'split') and not kw:
        cargs = []
        for a in args:
            ca = z3.simplify(a.e) if a.k == 'str' else None
            if ca is None or not z3.is_string_value(ca):
                cargs = None
                break
            cargs.append(ca.as_string())
        if cargs is not None:
            r = getattr(cs.as_string(), name)(*cargs)
            if isinstance(r, list):
                return SV('pylist', py=PyList([('item', mk_str(x)) for x in r], T=('list', ('str',))))
            return ip.lift(r)
    if name == 'join':
        return ip.join(s, args[0])
    if name == 'replace':
        src, dst = ip.as_str(args[0]), ip.as_str(args[1])
        r = replace_all(s, src, dst)
        cs, cd = z3.simplify(src), z3.simplify(dst)
        if z3.is_string_value(cs) and z3.is_string_value(cd) and len(cs.as_string()) == 1 \
                and cs.as_string() not in cd.as_string():
            # trusted fact about str.replace: replacing every occurrence of a single character by
            # text that does not contain it leaves no occurrence
            st.fact(z3.Not(z3.Contains(r, src)))
        return mk_str(r)
    if name == 'upper':
        return mk_str(str_upper(s))
    if name == 'lower':
        return mk_str(str_lower(s))
    if name in ('strip', 'rstrip', 'lstrip'):
        fn = {'strip': str_strip, 'rstrip': str_rstrip, 'lstrip': str_lstrip}[name]
        chars = ip.as_str(args[0]) if args else SVAL(' \t\n\r\x0b\x0c')
        r = fn(s, chars)
        st.fact(z3.Length(r) <= z3.Length(s))
        st.fact(z3.Contains(s, r))
        return mk_str(r)
    if name == 'startswith':
        return mk_bool(z3.PrefixOf(ip.as_str(args[0]), s))
    if name == 'endswith':
        return mk_bool(z3.SuffixOf(ip.as_str(args[0]), s))
    if name == 'isspace':
        r = str_isspace(s)
        st.fact(z3.Implies(r, z3.Length(s) > 0))
        return mk_bool(r)
    if name == 'split':
        if len(args) != 1:
            raise Unsupported('split() form')
        return str_split(ip, s, ip.as_str(args[0]))
    if name == 'rsplit':
        if len(args) != 2 or not (args[1].k == 'int' and z3.is_int_value(z3.simplify(args[1].e))
                                  and z3.simplify(args[1].e).as_long() == 1):
            raise Unsupported('rsplit() form (only rsplit(sep, 1))')
        sep = ip.as_str(args[0])
        if ip.decide(z3.Contains(s, sep)):
            idx = z3.LastIndexOf(s, sep)
            a = z3.SubString(s, 0, idx)
            b = z3.SubString(s, idx + z3.Length(sep), z3.Length(s) - idx - z3.Length(sep))
            st.fact(idx >= 0)
            st.fact(s == z3.Concat(a, sep, b))
            st.fact(z3.Not(z3.Contains(b, sep)))
            return SV('pylist', py=PyList([('item', mk_str(a)), ('item', mk_str(b))], T=('list', ('str',))))
        return SV('pylist', py=PyList([('item', mk_str(s))], T=('list', ('str',))))
    if name == 'format':
        return str_format(ip, s, args, kw)
    raise Unsupported(f'str.{name}')


split_arr = z3.Function('split_arr', S, S, ElArr)
split_len = z3.Function('split_len', S, S, I)


def str_split(ip: Interp, s, sep) -> SV:
    """s.split(sep): a fresh list whose contents are a *function* of (s, sep) (so that two calls on
    the same text give element-wise identical lists), with the defining facts pydbml relies on."""
    st = ip.st
    lst = ip.new_list([], T=('list', ('str',)))
    r = lst.e
    arr = split_arr(s, sep)
    n = split_len(s, sep)
    st.set_arr('L_el', z3.Store(st.L_el, r, arr), r)
    st.set_arr('L_len', z3.Store(st.L_len, r, n), r)
    j = z3.Int('j!sp')
    p = z3.IndexOf(s, sep, 0)
    st.fact(n >= 1)
    st.fact(z3.ForAll([j], z3.Implies(z3.And(0 <= j, j < n),
                                      z3.And(Val.is_s(arr[j]), z3.Not(z3.Contains(Val.sv(arr[j]), sep)))),
                      patterns=[arr[j]]))
    st.fact((n == 1) == (p < 0))
    st.fact(z3.Implies(n == 1, Val.sv(arr[0]) == s))
    st.fact(z3.Implies(p >= 0, Val.sv(arr[0]) == z3.SubString(s, 0, p)))
    rest = z3.SubString(s, p + z3.Length(sep), z3.Length(s))
    st.fact(z3.Implies(p >= 0, (n == 2) == (z3.IndexOf(rest, sep, 0) < 0)))
    st.fact(z3.Implies(n == 2, Val.sv(arr[1]) == rest))
    st.fact(E.heap_join(arr, n, sep) == s)
    return lst


def str_format(ip: Interp, s, args, kw) -> SV:
    """template.format(name=...) — only keyword fields; text whose braces were doubled comes back
    verbatim; any other text containing a brace makes format raise (KeyError/IndexError/ValueError:
    modelled as KeyError)."""
    if args:
        raise Unsupported('positional format')
    conds = []

    def lit(text):
        out = []
        i = 0
        cur = ''
        while i < len(text):
            ch = text[i]
            if ch == '{':
                if text[i:i + 2] == '{{':
                    cur += '{'
                    i += 2
                    continue
                j = text.find('}', i)
                if j < 0:
                    raise PyRaise(ValueError, (), 'format: single {')
                name = text[i + 1:j]
                if name not in kw:
                    raise PyRaise(KeyError if name else IndexError, (), f'format field {name!r}')
                if cur:
                    out.append(SVAL(cur))
                    cur = ''
                out.append(ip.to_str(kw[name]).e)
                i = j + 1
                continue
            if ch == '}':
                if text[i:i + 2] == '}}':
                    cur += '}'
                    i += 2
                    continue
                raise PyRaise(ValueError, (), 'format: single }')
            cur += ch
            i += 1
        if cur:
            out.append(SVAL(cur))
        return out

    def fmt(e, guard):
        if z3.is_string_value(e):
            parts = lit(e.as_string())
        elif z3.is_app(e) and e.decl().kind() == z3.Z3_OP_SEQ_CONCAT:
            parts = []
            for c in e.children():
                parts.append(fmt(c, guard))
        elif z3.is_app(e) and e.decl().kind() == z3.Z3_OP_ITE:
            c = e.arg(0)
            return z3.If(c, fmt(e.arg(1), guard + [c]), fmt(e.arg(2), guard + [z3.Not(c)]))
        else:
            inner = undoubled(e)
            if inner is not None:
                # lemma L-format-unescape (pyvc/lemmas.py): format(t.replace('{','{{').replace('}','}}')) == t
                return inner
            ok = z3.And(z3.Not(z3.Contains(e, SVAL('{'))), z3.Not(z3.Contains(e, SVAL('}'))))
            conds.append(z3.Implies(z3.And(*guard), ok) if guard else ok)
            return e
        if not parts:
            return SVAL('')
        return z3.Concat(*parts) if len(parts) > 1 else parts[0]
    res = fmt(s, [])
    if conds:
        if not ip.decide(z3.And(*conds)):
            raise PyRaise(KeyError, (), 'str.format on text containing braces')
    return mk_str(res)


def undoubled(p):
    """t if p is replace_all(replace_all(t, "{", "{{"), "}", "}}"), else None."""
    def is_rep(e, a, b):
        return (z3.is_app(e) and e.decl().kind() == z3.Z3_OP_SEQ_REPLACE_ALL and z3.is_string_value(e.arg(1))
                and z3.is_string_value(e.arg(2)) and e.arg(1).as_string() == a and e.arg(2).as_string() == b)
    if is_rep(p, '}', '}}') and is_rep(p.arg(0), '{', '{{'):
        return p.arg(0).arg(0)
    return None


def pylist_method(ip: Interp, obj: SV, name: str, args, kw) -> SV:
    pl: PyList = obj.py
    if pl.href is not None:
        return heaplist_method(ip, SV('ref', pl.href, cls='list', T=pl.T), name, args, kw)
    if name == 'append':
        pl.segs.append(('item', args[0]))
        return NONE
    if name == 'extend':
        pl.segs.extend(ip.segments(args[0]))
        return NONE
    if name == 'copy':
        return SV('pylist', py=PyList(list(pl.segs), pl.T))
    if name in ('index', 'pop', 'insert', 'remove'):
        ip.lower_list(pl)
        return heaplist_method(ip, SV('ref', pl.href, cls='list', T=pl.T), name, args, kw)
    raise Unsupported(f'list.{name}')


def heaplist_method(ip: Interp, obj: SV, name: str, args, kw) -> SV:
    st = ip.st
    r = obj.e
    if name == 'append':
        ip.list_append(r, args[0], obj.T)
        return NONE
    if name == 'extend':
        segs = ip.segments(args[0])
        for s in segs:
            if s[0] == 'item':
                ip.list_append(r, s[1], obj.T)
            elif s[0] == 'heap':
                n0 = st.L_len[r]
                n2 = s[4]
                new = st.fresh('arr', ElArr)
                j = z3.Int('j!x')
                old = st.L_el[r]
                src = s[3]
                st.fact(z3.ForAll([j], new[j] == z3.If(z3.And(j >= n0, j < n0 + n2), src[j - n0], old[j]),
                                  patterns=[new[j]]))
                st.set_arr('L_el', z3.Store(st.L_el, r, new), r)
                st.set_arr('L_len', z3.Store(st.L_len, r, n0 + n2), r)
            else:
                raise Unsupported('extend of a heap list by a comprehension')
        return NONE
    if name == 'pop':
        n = st.L_len[r]
        if args:
            i = ip.norm_index(ip.as_int(args[0]), n, IndexError, 'pop index out of range')
        else:
            if ip.decide(n == 0):
                raise PyRaise(IndexError, (), 'pop from empty list')
            i = n - 1
        return ip.list_pop(r, i, obj.T)
    if name == 'index':
        x = args[0]
        n = st.L_len[r]
        k = st.fresh('idx', I)
        j = z3.Int('j!i')
        elj = ip.list_get_q(r, j, obj.T)
        match_j = ip.equal(x, elj)
        found = z3.Exists([j], z3.And(0 <= j, j < n, match_j), patterns=[st.L_el[r][j]])
        if not ip.decide(found):
            raise PyRaise(ValueError, (), 'x not in list')
        mk = z3.substitute(match_j, (j, k))
        st.fact(z3.And(0 <= k, k < n, mk))
        st.fact(z3.ForAll([j], z3.Implies(z3.And(0 <= j, j < k), z3.Not(match_j)), patterns=[st.L_el[r][j]]))
        return mk_int(k)
    if name == 'copy':
        return SV('pylist', py=PyList([ip.heap_seg(r, obj.T)], T=obj.T))
    raise Unsupported(f'list.{name} on a heap list')


def dict_method(ip: Interp, obj: SV, name: str, args, kw) -> SV:
    st = ip.st
    r = obj.e
    if name == 'get':
        ks = ip.key_str(args[0], 'get')
        default = args[1] if len(args) > 1 else NONE
        log = getattr(ip, 'dict_log', None)
        if log is not None and any(racc.eq(r) for racc, _ in log):
            # reading the dict that the enclosing loop is building: membership is not the pre-loop one
            ip.shared.setdefault('dict_acc_read', set()).add(r.get_id())
            if ip.decide(st.fresh('acchas', B)):
                return ip.dict_get(r, ks, obj.T)
            return default
        if ip.decide(st.D_has[r][ks]):
            return ip.dict_get(r, ks, obj.T)
        return default
    if name == 'pop':
        ks = ip.key_str(args[0], 'pop')
        if ip.decide(st.D_has[r][ks]):
            v = ip.dict_get(r, ks, obj.T)
            ip.dict_del(r, ks)
            return v
        if len(args) > 1:
            return args[1]
        raise PyRaise(KeyError, (args[0],), 'dict.pop')
    if name == 'items':
        return SV('iter', py=[ip.dict_seg('dictitems', r, obj.T)])
    if name == 'keys':
        return SV('iter', py=[ip.dict_seg('dictkeys', r, obj.T)])
    if name == 'values':
        return SV('iter', py=[ip.dict_seg('dictvalues', r, obj.T)])
    if name == 'update':
        src = args[0]
        if src.k == 'val' and src.T is not None:
            alts = [a for a in type_alternatives(src.T) if a[0] != 'none']
            if len(alts) == 1 and alts[0][0] == 'dict':
                if ip.decide(src.e == Val.none):
                    raise PyRaise(TypeError, (), 'update(None)')
                src = ip.unbox(src.e, alts[0])
        if not (src.k == 'ref' and src.cls == 'dict'):
            raise Unsupported('dict.update with a non-dict')
        r2 = src.e
        has1, has2 = st.D_has[r], st.D_has[r2]
        val1, val2 = st.D_val[r], st.D_val[r2]
        has = st.fresh('has', z3.ArraySort(S, B))
        val = st.fresh('val', z3.ArraySort(S, Val))
        k = z3.String('k!u')
        st.fact(z3.ForAll([k], has[k] == z3.Or(has1[k], has2[k]), patterns=[has[k]]))
        st.fact(z3.ForAll([k], val[k] == z3.If(has2[k], val2[k], val1[k]), patterns=[val[k]]))
        st.set_arr('D_has', z3.Store(st.D_has, r, has), r)
        st.set_arr('D_val', z3.Store(st.D_val, r, val), r)
        n = st.fresh('n', I)
        st.fact(n >= st.D_n[r])
        st.fact(n >= st.D_n[r2])
        st.fact(n <= st.D_n[r] + st.D_n[r2])
        st.set_arr('D_n', z3.Store(st.D_n, r, n), r)
        st.set_arr('D_key', z3.Store(st.D_key, r, st.fresh('keys', z3.ArraySort(I, S))), r)
        return NONE
    raise Unsupported(f'dict.{name}')


def constdict_method(ip: Interp, obj: SV, name: str, args, kw) -> SV:
    d = obj.py
    if name == 'get':
        key = args[0]
        default = args[1] if len(args) > 1 else NONE
        if key.k == 'const':
            return ip.lift(d[key.py]) if key.py in d else default
        if key.k == 'typeof':
            # type(x) of a boxed value: dispatch over the registered classes
            for klass, val in d.items():
                names = [klass.__name__]
                c = z3.And(Val.is_r(key.e), cls_of(Val.rv(key.e)) == ip.reg.cid(klass.__name__))
                if ip.decide(c):
                    return ip.lift(val)
            return default
        raise Unsupported('constant dict lookup with symbolic key')
    raise Unsupported(f'constant dict method {name}')


def pattern_method(ip: Interp, obj: SV, name: str, args, kw) -> SV:
    pat = obj.py
    pid = ip.reg.pattern_ids.setdefault(pat, len(ip.reg.pattern_ids) + 1)
    if name == 'sub':
        repl = _const_str(args[0])
        rid = ip.reg.pattern_ids.setdefault('repl:' + repl, len(ip.reg.pattern_ids) + 1)
        text = ip.as_str(args[1])
        return mk_str(regex_sub(ip, pat, repl, text, pid, rid))
    raise Unsupported(f'pattern.{name}')


def regex_sub(ip: Interp, pat: str, repl: str, text, pid, rid):
    """Only the mechanically translatable shapes are given meaning; everything else is opaque."""
    if pat == r'\\\n' and repl == '':
        return replace_all(text, SVAL('\\\n'), SVAL(''))
    return re_sub(z3.IntVal(pid * 1000 + rid), SVAL(repl), text)


E.BUILTIN_HANDLERS = H
E.BUILTIN_OBJS = OBJS
E.Interp.call_builtin_method = lambda self, obj, name, args, kw: call_builtin_method(self, obj, name, args, kw)


@builtin(enumerate)
def _enumerate(ip, args, kw, fr):
    segs = ip.segments(args[0])
    if all(x[0] == 'item' for x in segs):
        return SV('tuple', py=[SV('tuple', py=[mk_int(i), x[1]]) for i, x in enumerate(segs)])
    if len(segs) != 1:
        raise Unsupported('enumerate over several segments')
    return SV('iter', py=[('enum', segs[0])])


@builtin(range)
def _range(ip, args, kw, fr):
    if len(args) != 1:
        raise Unsupported('range with start/step')
    n = z3.simplify(ip.as_int(args[0]))
    if z3.is_int_value(n):
        return SV('tuple', py=[mk_int(i) for i in range(n.as_long())])
    return SV('iter', py=[('range', z3.If(n < 0, 0, n))])
