"""PyVC engine: symbolic execution of real Python function ASTs into verification conditions.

The AST that is executed is obtained from the *live* function object's source file under /repo
(see `func_ast`), so the verified text is the code that runs.  Path exploration is by
re-execution with a decision trace (no state copying).  See /verif/DESIGN.md section 2.
"""
from __future__ import annotations

import ast
import builtins as _bi
import dataclasses
import inspect
import itertools
import time
import sys
import textwrap
import types
from typing import Any, Callable, Dict, List, Optional, Tuple

import z3

from .sorts import (I, B, S, Val, cls_of, eqv, py_str, tw_indent, str_upper, str_lower, str_strip,
                    str_rstrip, str_lstrip, str_isspace, float_of_str, re_sub, replace_all, sv as SVAL,
                    mk_solver, ElArr, HasArr, ValArr, KeyArr)
from . import sorts

sys.setrecursionlimit(10000)


class Unsupported(Exception):
    """The engine cannot model this construct: the function is *undecided*, never violated."""


class PyRaise(Exception):
    def __init__(self, exc_cls, args=(), where=''):
        self.exc_cls = exc_cls
        self.args_sv = args
        self.where = where


class ReturnEx(Exception):
    def __init__(self, value):
        self.value = value


class BreakEx(Exception):
    pass


class ContinueEx(Exception):
    pass


class LoopIterEnd(Exception):
    """end of the arbitrary iteration of a loop verified by invariant: the path stops here (its
    obligations — invariant preserved, loop frame — have been recorded)"""


class Infeasible(Exception):
    """Current path's condition became unsatisfiable (pruned)."""


# --------------------------------------------------------------------------------------------
# type language

def parse_type(t) -> tuple:
    if isinstance(t, tuple):
        return t
    t = t.strip()
    if t in ('str', 'int', 'bool', 'float'):
        return (t,)
    if t == 'None':
        return ('none',)
    if t == 'Any':
        return ('any',)
    if t == 'Cls':
        return ('clsobj',)
    if t == 'Tuple':
        return ('tuple',)
    for head, tag in (('Optional[', 'opt'), ('List[', 'list'), ('Dict[', 'dict'), ('Union[', 'union')):
        if t.startswith(head) and t.endswith(']'):
            inner = t[len(head):-1]
            if tag == 'union':
                parts, depth, cur = [], 0, ''
                for ch in inner:
                    if ch == '[':
                        depth += 1
                    elif ch == ']':
                        depth -= 1
                    if ch == ',' and depth == 0:
                        parts.append(cur)
                        cur = ''
                    else:
                        cur += ch
                parts.append(cur)
                return ('union', tuple(parse_type(p) for p in parts))
            if tag == 'opt':
                return ('union', (('none',), parse_type(inner)))
            return (tag, parse_type(inner))
    return ('obj', t)


def type_alternatives(T) -> tuple:
    return T[1] if T[0] == 'union' else (T,)


# --------------------------------------------------------------------------------------------
# symbolic values

class SV:
    __slots__ = ('k', 'e', 'cls', 'T', 'py')

    def __init__(self, k, e=None, cls=None, T=None, py=None):
        self.k = k
        self.e = e
        self.cls = cls
        self.T = T
        self.py = py

    def __repr__(self):
        if self.k in ('tuple',):
            return f'SV(tuple {self.py})'
        if self.k in ('const', 'closure', 'bound', 'exc', 'pylist', 'comp', 'kwdict'):
            return f'SV({self.k} {self.py!r})'
        return f'SV({self.k} {self.e} {self.cls or ""})'


NONE = SV('none')


def mk_bool(e):
    if isinstance(e, bool):
        e = z3.BoolVal(e)
    return SV('bool', e)


def mk_int(e):
    if isinstance(e, int):
        e = z3.IntVal(e)
    return SV('int', e)


def mk_str(e):
    if isinstance(e, str):
        e = SVAL(e)
    return SV('str', e)


def const(py):
    return SV('const', py=py)


class Closure:
    def __init__(self, node, env, defaults=None, module=None, qual=''):
        self.node = node          # ast.Lambda | ast.FunctionDef
        self.env = env            # enclosing environment (dict), shared by reference
        self.module = module
        self.qual = qual


class PyList:
    """A list whose structure is known on the Python side: a sequence of segments.
    segment = ('item', SV) | ('comp', CompResult) | ('heap', ref_expr, el_array, len_expr, T)"""

    def __init__(self, segs=None, T=None):
        self.segs = list(segs or [])
        self.href = None          # once lowered to the heap
        self.T = T

    def all_items(self):
        return all(s[0] == 'item' for s in self.segs)

    def items(self):
        return [s[1] for s in self.segs]

    def __repr__(self):
        return f'PyList({self.segs})'


class PR:
    """A pyparsing ParseResults as seen by a parse action: named results with a presence flag each
    (the names the grammar can produce are static), and optionally positional tokens."""

    def __init__(self, named, pos=None):
        self.named = named        # name -> (present: z3 Bool | True, value SV)
        self.pos = pos or []      # list of SV


class Gen:
    """A lazy generator expression (evaluated when consumed)."""

    def __init__(self, node, env, interp_frame):
        self.node = node
        self.env = env
        self.frame = interp_frame


# --------------------------------------------------------------------------------------------

class Registry:
    """Class ids, field types, contracts."""

    def __init__(self, fields: Dict[str, Dict[str, str]], class_names: List[str]):
        self.fields = {c: {f: parse_type(t) for f, t in fs.items()} for c, fs in fields.items()}
        self.class_names = list(class_names)
        self.class_id = {n: i + 1 for i, n in enumerate(self.class_names)}
        self.contracts: Dict[str, Any] = {}
        self.const_ids: Dict[int, Any] = {}
        self.const_by_obj: Dict[int, int] = {}
        self.pattern_ids: Dict[str, int] = {}

    def cid(self, name: str) -> int:
        if name not in self.class_id:
            self.class_id[name] = len(self.class_id) + 1
            self.class_names.append(name)
        return self.class_id[name]

    def const_id(self, obj) -> int:
        k = id(obj)
        if k not in self.const_by_obj:
            n = len(self.const_by_obj) + 1
            self.const_by_obj[k] = n
            self.const_ids[n] = obj
        return self.const_by_obj[k]

    def field_type(self, cls: str, attr: str):
        fs = self.fields.get(cls)
        if fs is None:
            return None
        return fs.get(attr)


def qualname_of(fn) -> str:
    mod = getattr(fn, '__module__', '?')
    return f'{mod}:{getattr(fn, "__qualname__", getattr(fn, "__name__", "?"))}'


_AST_CACHE: Dict[str, ast.Module] = {}
_SRC_CACHE: Dict[str, str] = {}


def module_ast(path: str) -> ast.Module:
    if path not in _AST_CACHE:
        src = open(path, encoding='utf8').read()
        _SRC_CACHE[path] = src
        _AST_CACHE[path] = ast.parse(src, filename=path)
    return _AST_CACHE[path]


def func_ast(fn) -> ast.AST:
    """AST of a live function object, re-read from its source file (the code that runs)."""
    fn = inspect.unwrap(fn)
    code = fn.__code__
    path = code.co_filename
    tree = module_ast(path)
    target_line = code.co_firstlineno
    best = None
    for node in ast.walk(tree):
        if isinstance(node, (ast.FunctionDef, ast.Lambda)):
            first = node.lineno
            if isinstance(node, ast.FunctionDef) and node.decorator_list:
                first = min(first, min(d.lineno for d in node.decorator_list))
            if first == target_line or node.lineno == target_line:
                if isinstance(node, ast.FunctionDef) and node.name != fn.__name__:
                    continue
                if isinstance(node, ast.Lambda) and fn.__name__ != '<lambda>':
                    continue
                if isinstance(node, ast.Lambda):
                    # several lambdas on a line: disambiguate by argument names
                    names = tuple(a.arg for a in node.args.args)
                    if names != code.co_varnames[:code.co_argcount]:
                        continue
                best = node
                break
    if best is None:
        raise Unsupported(f'cannot locate AST of {qualname_of(fn)}')
    return best


# --------------------------------------------------------------------------------------------
# path state

class State:
    def __init__(self, reg: Registry):
        self.reg = reg
        self.heap: Dict[str, Any] = {}
        self.pc: List[Any] = []
        self.pc_ids = set()
        self.fact_ids = {}
        self.nalloc = 0
        self.alloc0 = z3.Int('alloc0')
        self.fresh_n = 0
        self.obligations: List[Tuple[str, List[Any], Any]] = []   # (id, pc snapshot, goal)
        self.notes: List[str] = []
        self.comps: List[CompResult] = []
        self.eqv_used = False
        self.eqv_unsound = False
        self.axioms = set()
        self.written: Dict[str, List[Any]] = {}     # heap array name -> list of written refs (exprs)

    # -- names
    def fresh(self, base: str, sort):
        """A fresh symbol.  Inside a symbolic iteration (binders non-empty) the symbol stands for
        one value *per element*, so it is a function of the enclosing index variables."""
        self.fresh_n += 1
        bs = list(getattr(self, 'binders', ()) or ())
        if bs:
            f = z3.Function(f'{base}!{self.fresh_n}', *([I] * len(bs)), sort)
            return f(*bs)
        return z3.Const(f'{base}!{self.fresh_n}', sort)

    # -- path condition
    def assume(self, e, as_fact=False, split=True):
        if isinstance(e, bool):
            if not e:
                raise Infeasible()
            return
        if z3.is_true(e):
            return
        if z3.is_false(e):
            raise Infeasible()
        if z3.is_and(e) and not split is False:
            # conjuncts separately: quantifier-free ones stay usable for pruning
            r = False
            for c in e.children():
                r = (self.fact(c) if as_fact else self.assume(c)) or r
            return r
        i = e.get_id()
        if i in self.pc_ids:
            return
        self.pc_ids.add(i)
        self.pc.append(e)
        return True

    def fact(self, e):
        """An assumption that follows from the typed-heap invariant or from a trusted builtin
        contract (as opposed to a branch decision)."""
        if isinstance(e, bool):
            return self.assume(e)
        if z3.is_and(e):
            return self.assume(e, as_fact=True)
        if self.assume(e, split=False):
            # keep the AST alive as long as its id is recorded: z3 reuses ids of freed ASTs
            self.fact_ids[e.get_id()] = e
            return True

    def pruning_solver(self):
        """Incremental solver holding the quantifier-free part of the path condition (used only
        for cheap feasibility pruning).  Re-synchronised lazily with `pc`."""
        s = getattr(self, '_ps', None)
        ids = getattr(self, '_ps_ids', None)
        if s is None:
            s = mk_solver(150)
            ids = []
            self._ps = s
            self._ps_ids = ids
            self._ps_asts = []      # the entries themselves: an id is only meaningful while its AST is alive
        asts = self._ps_asts
        # every path-condition entry sits in a scope of its own, so that entries retracted at the end (closed
        # hypotheses) are popped instead of rebuilding the solver
        n = len(self.pc)
        k = 0
        m = min(len(ids), n)
        while k < m and self.pc[k].get_id() == ids[k]:
            k += 1
        if k < len(ids):
            s.pop(len(ids) - k)
            del ids[k:]
            del asts[k:]
        for e in self.pc[len(ids):]:
            s.push()
            if not has_quantifier(e):
                s.add(e)
            ids.append(e.get_id())
            asts.append(e)
        return s

    def oblige(self, name: str, goal):
        self.obligations.append((name, list(self.pc), goal))

    # -- heap arrays
    def arr(self, name: str, sort=None):
        a = self.heap.get(name)
        if a is None:
            if sort is None:
                sort = sorts.FieldArr
            a = z3.Const(name + '@0', sort)
            self.heap[name] = a
        return a

    def closure_axiom(self, name, a):
        """The pre-state is closed under reachability: a reference stored in a field / list slot / dict value of
        an object that existed before the call denotes an object that existed before the call."""
        r = z3.Int('r!cl')
        old = r < self.alloc0
        if name.startswith('F:'):
            v = a[r]
            self.fact(z3.ForAll([r], z3.Implies(z3.And(old, Val.is_r(v)), Val.rv(v) < self.alloc0), patterns=[v]))
        elif name == 'L_el':
            i = z3.Int('i!cl')
            v = a[r][i]
            self.fact(z3.ForAll([r, i], z3.Implies(z3.And(old, Val.is_r(v)), Val.rv(v) < self.alloc0), patterns=[v]))
        elif name == 'D_val':
            k = z3.String('k!cl')
            v = a[r][k]
            self.fact(z3.ForAll([r, k], z3.Implies(z3.And(old, Val.is_r(v)), Val.rv(v) < self.alloc0), patterns=[v]))

    def F(self, attr):
        return self.arr('F:' + attr)

    @property
    def L_el(self):
        return self.arr('L_el', sorts.LEl)

    @property
    def L_len(self):
        return self.arr('L_len', sorts.LLen)

    @property
    def D_has(self):
        return self.arr('D_has', sorts.DHas)

    @property
    def D_val(self):
        return self.arr('D_val', sorts.DVal)

    @property
    def D_key(self):
        return self.arr('D_key', sorts.DKey)

    @property
    def D_n(self):
        return self.arr('D_n', sorts.DN)

    def set_arr(self, name, value, ref=None):
        self.heap[name] = value
        self.written.setdefault(name, []).append(ref if ref is not None else z3.IntVal(-1))

    def new_ref(self, cls_name: str):
        bs = list(getattr(self, 'binders', ()) or ())
        if bs:
            # allocation inside a symbolic iteration: one object *per element* — an unknown reference that is a
            # function of the index variables, inside a block of its own (so it differs from every object
            # allocated outside the iteration); that two elements get two objects is not stated (weaker, sound)
            self.fresh_n += 1
            f = z3.Function(f'obj!{self.fresh_n}!{self.nalloc}', *([I] * len(bs)), I)
            r = f(*bs)
            lo = self.alloc0 + self.nalloc
            self.nalloc += 1 << 20
            self.fact(z3.And(r >= z3.simplify(lo), r < z3.simplify(lo + (1 << 20))))
            self.fact(cls_of(r) == self.reg.cid(cls_name))
            # the same two facts for every index, triggered by the reference term itself (f is a new function, so this
            # constrains nothing else): a caller that meets f(t) for an index term t of its own — a skolem index of a
            # frame condition — still knows the object lies in this iteration's block and has this class
            ks = [z3.Int(f'k!g{n}') for n in range(len(bs))]
            self.fact(z3.ForAll(ks, z3.And(f(*ks) >= z3.simplify(lo), f(*ks) < z3.simplify(lo + (1 << 20)),
                                           cls_of(f(*ks)) == self.reg.cid(cls_name)), patterns=[f(*ks)]))
            if len(bs) == 1:
                # two elements get two objects (each evaluation of the body allocates anew)
                a, b = z3.Int('k!a'), z3.Int('k!b')
                inj = z3.ForAll([a, b], z3.Implies(a != b, f(a) != f(b)), patterns=[z3.MultiPattern(f(a), f(b))])
                self.fact(inj)
            return r
        r = self.alloc0 + self.nalloc
        self.nalloc += 1
        r = z3.simplify(r)
        self.fact(cls_of(r) == self.reg.cid(cls_name))
        return r

    def snapshot_heap(self):
        return dict(self.heap), self.nalloc


# --------------------------------------------------------------------------------------------
# path control

class PathCtl:
    def __init__(self, trace=None, pending=None, prune=True):
        self.trace = list(trace or [])
        self.pos = 0
        self.pending = pending if pending is not None else []
        self.prune = prune
        self.nchecks = 0


class Frame:
    def __init__(self, globs, locs=None, parent=None, qual='', cls=None):
        self.globals = globs
        self.locals = locs if locs is not None else {}
        self.parent = parent        # enclosing frame for closures
        self.qual = qual
        self.cls = cls              # python class whose method this is (for super())

    def lookup(self, name):
        f = self
        while f is not None:
            if name in f.locals:
                return f.locals[name]
            f = f.parent
        return None

    def clone(self, memo):
        if id(self) in memo:
            return memo[id(self)]
        nf = Frame(self.globals, None, None, self.qual, self.cls)
        memo[id(self)] = nf
        nf.locals = {k: clone_sv(v, memo) for k, v in self.locals.items()}
        nf.parent = self.parent.clone(memo) if self.parent is not None else None
        return nf


def clone_sv(v, memo):
    if not isinstance(v, SV):
        return v
    if v.k == 'pylist':
        pl = v.py
        if id(pl) not in memo:
            n = PyList(list(pl.segs), pl.T)
            n.href = pl.href
            memo[id(pl)] = n
        return SV('pylist', py=memo[id(pl)])
    if v.k == 'tuple':
        return SV('tuple', py=[clone_sv(x, memo) for x in v.py])
    if v.k == 'closure':
        c = v.py
        if id(c) not in memo:
            memo[id(c)] = Closure(c.node, c.env.clone(memo) if c.env is not None else None, None, c.module, c.qual)
        return SV('closure', py=memo[id(c)])
    return v


BUILTIN_EXC = {n: getattr(_bi, n) for n in ('ValueError', 'KeyError', 'IndexError', 'AttributeError',
                                               'TypeError', 'RuntimeError', 'SyntaxError',
                                               'NotImplementedError', 'StopIteration', 'Exception')}


class Interp:
    MAX_DEPTH = 40

    def __init__(self, reg: Registry, st: State, ctl: PathCtl, shared=None):
        self.reg = reg
        self.st = st
        self.ctl = ctl
        self.depth = 0
        self.old_heap = None            # heap dict of the pre-state (for old())
        self.top_target = None
        self.shared = shared if shared is not None else {'inlined': set(), 'contracts_used': set(),
                                                         'paths': 0, 'prune_checks': 0}
        self.in_spec = 0                # >0 while evaluating contract text
        self.kdepth = 0                 # nesting depth of bound index variables
        self.binders: List[Any] = []    # index variables of the enclosing symbolic iterations

    # ---------------------------------------------------------------- exploration
    def clone(self, trace, pending, frames: List[Frame]):
        st = State(self.reg)
        o = self.st
        st.heap = dict(o.heap)
        st.pc = list(o.pc)
        st.pc_ids = set(o.pc_ids)
        st.fact_ids = dict(o.fact_ids)
        st.nalloc = o.nalloc
        st.fresh_n = o.fresh_n
        st.obligations = list(o.obligations)
        st.notes = list(o.notes)
        st.comps = list(o.comps)
        st.axioms = set(o.axioms)
        st.eqv_stale = getattr(o, 'eqv_stale', False)
        st.eqv_used = o.eqv_used
        st.eqv_unsound = o.eqv_unsound
        st.written = {k: list(v) for k, v in o.written.items()}
        st.havoc_info = dict(getattr(o, 'havoc_info', {}))
        sub = Interp(self.reg, st, PathCtl(trace, pending, self.ctl.prune), self.shared)
        sub.depth = self.depth
        sub.old_heap = self.old_heap
        sub.top_target = self.top_target
        sub.in_spec = self.in_spec
        sub.kdepth = self.kdepth
        sub.binders = list(self.binders)
        st.binders = list(self.binders)
        dl = getattr(self, 'dict_log', None)
        sub.dict_log = [(r, list(e)) for r, e in dl] if dl is not None else None
        memo: Dict[int, Any] = {}
        nfr = [f.clone(memo) for f in frames]
        return sub, nfr

    def explore(self, thunk: Callable, frames: List[Frame], limit=4000):
        """Enumerate all paths of thunk(sub_interp, cloned_frames). Returns [(sub, frames, outcome)]
        outcome = ('ok', value) | ('return', v) | ('break',) | ('continue',) | ('raise', PyRaise)."""
        results = []
        pending: List[List[bool]] = [[]]
        n = 0
        while pending:
            trace = pending.pop()
            n += 1
            if n > limit:
                raise Unsupported('path limit exceeded')
            dl = self.shared.get('deadline')
            if dl is not None and time.time() > dl:
                raise Unsupported('time budget of the exploration exceeded')
            sub, nfr = self.clone(trace, pending, frames)
            try:
                v = thunk(sub, nfr)
                out = ('ok', v)
            except ReturnEx as r:
                out = ('return', r.value)
            except BreakEx:
                out = ('break',)
            except ContinueEx:
                out = ('continue',)
            except PyRaise as e:
                out = ('raise', e)
            except LoopIterEnd:
                out = ('loopend',)
            except Infeasible:
                continue
            results.append((sub, nfr, out))
        return results

    def adopt(self, sub: 'Interp'):
        """Continue the current path with the state reached by a sub-exploration path."""
        self.st = sub.st

    # ---------------------------------------------------------------- decisions
    def feasible(self, extra) -> bool:
        """Cheap over-approximate feasibility (quantified hypotheses are left out)."""
        self.shared['prune_checks'] += 1
        if has_quantifier(extra):
            return True
        s = self.st.pruning_solver()
        s.push()
        s.add(extra)
        r = s.check() != z3.unsat
        s.pop()
        return r

    def feasible2(self, c, nc):
        if has_quantifier(c):
            return True, True
        self.shared['prune_checks'] += 1
        s = self.st.pruning_solver()
        s.push()
        s.add(c)
        t_ok = s.check() != z3.unsat
        s.pop()
        s.push()
        s.add(nc)
        f_ok = s.check() != z3.unsat
        s.pop()
        return t_ok, f_ok

    def decide(self, cond) -> bool:
        if isinstance(cond, bool):
            return cond
        c = z3.simplify(cond)
        if z3.is_true(c):
            return True
        if z3.is_false(c):
            return False
        cid = c.get_id()
        if cid in self.st.pc_ids or cond.get_id() in self.st.pc_ids:
            return True
        nc = z3.simplify(z3.Not(c))
        if nc.get_id() in self.st.pc_ids:
            return False
        ctl = self.ctl
        if ctl.pos < len(ctl.trace):
            d = ctl.trace[ctl.pos]
            ctl.pos += 1
            if d == 'T' or d == 'F':
                # recorded as forced by the hypotheses at that point: a derived fact
                d = d == 'T'
                self.st.fact(c if d else nc)
                return d
        else:
            t_ok, f_ok = self.feasible2(c, nc) if ctl.prune else (True, True)
            if not t_ok and not f_ok:
                raise Infeasible()
            if t_ok and f_ok:
                ctl.pending.append(ctl.trace[:ctl.pos] + [False])
                d = True
            else:
                # forced by the current hypotheses: a derived fact, not a branch decision
                d = t_ok
                ctl.trace.append('T' if d else 'F')
                ctl.pos += 1
                self.st.fact(c if d else nc)
                return d
            ctl.trace.append(d)
            ctl.pos += 1
        self.st.assume(c if d else nc)
        return d

    def choose(self, n: int) -> int:
        """Non-deterministic choice among n alternatives (each must then be constrained by assume)."""
        for i in range(n - 1):
            ctl = self.ctl
            if ctl.pos < len(ctl.trace):
                d = ctl.trace[ctl.pos]
                ctl.pos += 1
            else:
                ctl.pending.append(ctl.trace[:ctl.pos] + [False])
                d = True
                ctl.trace.append(True)
                ctl.pos += 1
            if d:
                return i
        return n - 1

    # ---------------------------------------------------------------- boxing
    def box(self, v: SV):
        k = v.k
        if k == 'val':
            return v.e
        if k == 'none':
            return Val.none
        if k == 'bool':
            return Val.b(v.e)
        if k == 'int':
            return Val.i(v.e)
        if k == 'str':
            return Val.s(v.e)
        if k == 'ref':
            return Val.r(v.e)
        if k == 'float':
            return Val.f(v.e)
        if k == 'const':
            return Val.c(z3.IntVal(self.reg.const_id(v.py)))
        if k == 'pylist':
            return Val.r(self.lower_list(v.py))
        if k == 'tuple':
            pl = PyList([('item', x) for x in v.py])
            return Val.r(self.lower_list(pl, cls='tuple'))
        raise Unsupported(f'cannot store value of kind {k} in the heap')

    def unbox(self, e, T=None) -> SV:
        """Typed view of a Val expression (assumes conformance to T: typed heap)."""
        if T is None or T[0] == 'any':
            return SV('val', e, T=T)
        t0 = T[0]
        if t0 == 'str':
            self.st.fact(Val.is_s(e))
            return mk_str(Val.sv(e))
        if t0 == 'bool':
            self.st.fact(Val.is_b(e))
            return mk_bool(Val.bv(e))
        if t0 == 'int':
            self.st.fact(Val.is_i(e))
            return mk_int(Val.iv(e))
        if t0 == 'float':
            self.st.fact(Val.is_f(e))
            return SV('float', Val.fv(e))
        if t0 == 'none':
            self.st.fact(e == Val.none)
            return NONE
        if t0 == 'clsobj':
            self.st.fact(Val.is_c(e))
            return SV('val', e, T=T)
        if t0 == 'obj':
            self.st.fact(self.conforms(e, T))
            return SV('ref', Val.rv(e), cls=T[1])
        if t0 in ('list', 'dict'):
            self.st.fact(self.conforms(e, T))
            r = Val.rv(e)
            self.list_facts(r, T) if t0 == 'list' else self.dict_facts(r, T)
            return SV('ref', r, cls=t0, T=T)
        if t0 == 'union':
            self.st.fact(self.conforms(e, T))
            return SV('val', e, T=T)
        raise Unsupported(f'unbox type {T}')

    def ref_bound(self, e):
        """Upper bound of a reference-valued Val expression.  A value read from a *pre-state* array (a constant
        named `...@0`, never stored into) **at a pre-state object** is a pre-state value: if it is a reference,
        the object existed before the call.  "At a pre-state object" is checked strictly: the index is built
        from parameters and pre-state reads only.  (At any other index — an object a callee allocated, whose
        contents the callee's postcondition describes — the same array term holds post-state data.)"""
        def pre_array(a):
            return z3.is_const(a) and a.decl().kind() == z3.Z3_OP_UNINTERPRETED and a.decl().name().endswith('@0')

        def pre_term(t, depth=0):
            if depth > 12:
                return False
            if z3.is_int_value(t) or z3.is_string_value(t):
                return True
            if not z3.is_app(t):
                return False
            k = t.decl().kind()
            if t.num_args() == 0:
                nm = t.decl().name()
                return nm.startswith('p_') and '!' not in nm
            if k == z3.Z3_OP_SELECT:
                a = t.arg(0)
                if pre_array(a):
                    return pre_term(t.arg(1), depth + 1)
                if z3.is_app(a) and a.decl().kind() == z3.Z3_OP_SELECT and pre_array(a.arg(0)):
                    # a slot / key of a pre-state list or dict: which slot does not matter
                    return pre_term(a.arg(1), depth + 1)
                return False
            if k in (z3.Z3_OP_DT_ACCESSOR, z3.Z3_OP_DT_CONSTRUCTOR):
                return all(pre_term(c, depth + 1) for c in t.children())
            return False
        if z3.is_app(e) and e.decl().kind() == z3.Z3_OP_SELECT and pre_term(e):
            return self.st.alloc0
        return self.st.alloc0 + self.st.nalloc

    def conforms(self, e, T):
        """Shallow conformance of a Val expression to a declared type."""
        t0 = T[0]
        if t0 == 'any':
            return z3.BoolVal(True)
        if t0 == 'str':
            return Val.is_s(e)
        if t0 == 'bool':
            return Val.is_b(e)
        if t0 == 'int':
            return z3.Or(Val.is_i(e), Val.is_b(e))
        if t0 == 'float':
            return Val.is_f(e)
        if t0 == 'none':
            return e == Val.none
        if t0 == 'clsobj':
            return Val.is_c(e)
        if t0 == 'obj':
            return z3.And(Val.is_r(e), cls_of(Val.rv(e)) == self.reg.cid(T[1]),
                          Val.rv(e) < self.ref_bound(e))
        if t0 == 'list':
            return z3.And(Val.is_r(e), cls_of(Val.rv(e)) == self.reg.cid('list'),
                          Val.rv(e) < self.ref_bound(e))
        if t0 == 'dict':
            return z3.And(Val.is_r(e), cls_of(Val.rv(e)) == self.reg.cid('dict'),
                          Val.rv(e) < self.ref_bound(e))
        if t0 == 'union':
            return z3.Or(*[self.conforms(e, a) for a in T[1]])
        if t0 == 'tuple':
            return Val.is_r(e)
        raise Unsupported(f'conforms {T}')

    def list_facts(self, r, T):
        st = self.st
        st.fact(st.L_len[r] >= 0)
        eT = T[1] if T and T[0] == 'list' else None
        if eT is not None and eT[0] != 'any':
            i = z3.Int('i!t')
            el = st.L_el[r][i]
            body = z3.Implies(z3.And(0 <= i, i < st.L_len[r]), self.conforms(el, eT))
            try:
                st.fact(z3.ForAll([i], body, patterns=[el]))
            except z3.Z3Exception:      # the reference is an if-then-else term: not usable as a trigger
                st.fact(z3.ForAll([i], body))

    def dict_facts(self, r, T):
        st = self.st
        self.dict_wf(r)
        eT = T[1] if T and T[0] == 'dict' else None
        if eT is not None and eT[0] != 'any':
            k = z3.String('k!t')
            v = st.D_val[r][k]
            try:
                st.fact(z3.ForAll([k], z3.Implies(st.D_has[r][k], self.conforms(v, eT)), patterns=[v]))
            except z3.Z3Exception:
                st.fact(z3.ForAll([k], z3.Implies(st.D_has[r][k], self.conforms(v, eT))))

    def dict_wf(self, r):
        """Well-formedness of any dict (true of every real dict; the abstract operations keep
        (has, keys, n) consistent with it): the insertion-order key list enumerates exactly the keys."""
        st = self.st
        st.fact(st.D_n[r] >= 0)
        i = z3.Int('i!w')
        kw = z3.String('k!w')
        keys, has, n = st.D_key[r], st.D_has[r], st.D_n[r]
        b1 = z3.Implies(z3.And(0 <= i, i < n), has[keys[i]])
        b2 = z3.Implies(has[kw], z3.And(0 <= dict_pos(keys, kw), dict_pos(keys, kw) < n, keys[dict_pos(keys, kw)] == kw))
        try:
            if z3.is_app(r) and r.decl().kind() == z3.Z3_OP_ITE:
                raise z3.Z3Exception('ite reference')
            st.fact(z3.ForAll([i], b1, patterns=[keys[i]]))
            st.fact(z3.ForAll([kw], b2, patterns=[has[kw]]))
        except z3.Z3Exception:      # the reference is an if-then-else term: not usable as a trigger
            st.fact(z3.ForAll([i], b1))
            st.fact(z3.ForAll([kw], b2))

    # ---------------------------------------------------------------- lifting python constants
    def lift(self, o) -> SV:
        if o is None:
            return NONE
        if isinstance(o, bool):
            return mk_bool(o)
        if isinstance(o, int):
            if type(o) is not int:          # enum.IntFlag such as re.DOTALL: kept as the Python constant
                return SV('const', py=o)
            return mk_int(o)
        if isinstance(o, str):
            return mk_str(o)
        if isinstance(o, float):
            return SV('float', float_of_str(SVAL(repr(o))))
        if isinstance(o, tuple):
            return SV('tuple', py=[self.lift(x) for x in o])
        return const(o)

    # ---------------------------------------------------------------- truthiness
    def truthy(self, v: SV):
        k = v.k
        if k == 'none':
            return z3.BoolVal(False)
        if k == 'bool' or k == 'match':      # match: a re.Match-or-None used for its truth value only
            return v.e
        if k == 'int':
            return v.e != 0
        if k == 'str':
            return v.e != SVAL('')
        if k == 'ref':
            return self.truthy_ref(v.e, v.cls)
        if k == 'tuple':
            return z3.BoolVal(len(v.py) > 0)
        if k == 'pylist':
            return self.seq_len(v) > 0
        if k in ('const', 'closure', 'bound', 'exc'):
            return z3.BoolVal(True)
        if k == 'float':
            return float_nonzero(v.e)
        if k == 'val':
            e = v.e
            alts = type_alternatives(v.T) if v.T else None
            if alts is None or any(a[0] == 'any' for a in alts):
                # dynamic truthiness by tag; objects: containers by length, Note/StickyNote by their
                # text (the only __bool__ in pydbml), everything else truthy
                st = self.st
                r = Val.rv(e)
                cid = self.reg.cid
                obj_truth = z3.If(z3.Or(cls_of(r) == cid('list'), cls_of(r) == cid('tuple')), st.L_len[r] > 0,
                                  z3.If(cls_of(r) == cid('dict'), st.D_n[r] > 0,
                                        z3.If(z3.Or(cls_of(r) == cid('Note'), cls_of(r) == cid('StickyNote')),
                                              z3.And(Val.is_s(st.F('text')[r]), Val.sv(st.F('text')[r]) != SVAL('')),
                                              z3.BoolVal(True))))
                return z3.Or(z3.And(Val.is_b(e), Val.bv(e)), z3.And(Val.is_i(e), Val.iv(e) != 0),
                             z3.And(Val.is_s(e), Val.sv(e) != SVAL('')), z3.And(Val.is_r(e), obj_truth),
                             z3.And(Val.is_f(e), float_nonzero(Val.fv(e))), Val.is_c(e))
            parts = []
            for a in alts:
                if a[0] == 'none':
                    continue
                if a[0] == 'str':
                    parts.append(z3.And(Val.is_s(e), Val.sv(e) != SVAL('')))
                elif a[0] == 'bool':
                    parts.append(z3.And(Val.is_b(e), Val.bv(e)))
                elif a[0] == 'int':
                    parts.append(z3.And(Val.is_i(e), Val.iv(e) != 0))
                elif a[0] == 'float':
                    parts.append(z3.And(Val.is_f(e), float_nonzero(Val.fv(e))))
                elif a[0] in ('obj', 'list', 'dict'):
                    cname = a[1] if a[0] == 'obj' else a[0]
                    parts.append(z3.And(Val.is_r(e), cls_of(Val.rv(e)) == self.reg.cid(cname),
                                        self.truthy_ref(Val.rv(e), cname)))
                elif a[0] == 'clsobj':
                    parts.append(Val.is_c(e))
                else:
                    raise Unsupported(f'truthiness of {a}')
            return z3.Or(*parts) if parts else z3.BoolVal(False)
        raise Unsupported(f'truthiness of {k}')

    def truthy_ref(self, r, cls):
        st = self.st
        if cls == 'list' or cls == 'tuple':
            return st.L_len[r] > 0
        if cls == 'dict':
            return st.D_n[r] > 0
        pc = self.reg.pyclass(cls)
        if pc is not None:
            b = inspect.getattr_static(pc, '__bool__', None)
            ln = inspect.getattr_static(pc, '__len__', None)
            if b is not None:
                # the only __bool__ in pydbml: Note / StickyNote -> bool(self.text)
                res = self.call_function(b, [SV('ref', r, cls=cls)], {}, None)
                return self.truthy(res)
            if ln is not None:
                # truthiness through __len__: run the method (by body or by contract) and compare with 0
                res = self.call_function(ln, [SV('ref', r, cls=cls)], {}, None)
                return self.as_int(res) != 0
        return z3.BoolVal(True)

    def to_bool_sv(self, v: SV) -> SV:
        return mk_bool(self.truthy(v))

    # ---------------------------------------------------------------- heap: objects
    def read_field(self, r, cls: Optional[str], attr: str) -> SV:
        st = self.st
        T = self.reg.field_type(cls, attr) if cls else None
        e = self.peel(st.F(attr), r)
        if T is None:
            if cls and cls in self.reg.fields and ('F:' + attr) not in st.written:
                # not a declared attribute of the class and never assigned on this path
                raise PyRaise(AttributeError, (), f'{cls}.{attr}')
            return SV('val', e, T=('any',))
        return self.unbox(e, T)

    def write_field(self, r, cls: Optional[str], attr: str, v: SV):
        st = self.st
        T = self.reg.field_type(cls, attr) if cls else None
        b = self.box(v)
        if T is not None and T[0] != 'any':
            goal = self.conforms(b, T)
            g = z3.simplify(goal)
            if not z3.is_true(g):
                st.oblige(f'type:{cls}.{attr}', goal)
        elif T is None and cls in self.reg.fields and not self.in_spec:
            st.notes.append(f'store to undeclared attribute {cls}.{attr}')
        if cls and not self.is_fresh(r):
            pc = self.reg.pyclass(cls)
            dont = getattr(pc, 'dont_compare_fields', ()) if pc is not None else ()
            if attr not in dont and pc is not None and hasattr(pc, 'dont_compare_fields'):
                # structural equality is modelled as heap-independent: it must not be consulted
                # again after a compared attribute of a pre-existing object has been written
                st.eqv_stale = True
        st.set_arr('F:' + attr, z3.Store(st.F(attr), r, b), r)

    def is_fresh(self, r) -> bool:
        d = z3.simplify(r - self.st.alloc0)
        return (z3.is_int_value(d) and d.as_long() >= 0) or self.is_elem_ref(r)

    def alloc_object(self, cls_name: str) -> SV:
        r = self.st.new_ref(cls_name)
        pc = self.reg.pyclass(cls_name)
        # class-level data attributes that are declared heap fields start at the class default
        if pc is not None:
            for attr in self.reg.fields.get(cls_name, {}):
                for klass in pc.__mro__:
                    if attr in klass.__dict__:
                        d = klass.__dict__[attr]
                        if d is None or isinstance(d, (bool, int, str)):
                            self.st.set_arr('F:' + attr, z3.Store(self.st.F(attr), r, self.box(self.lift(d))))
                        break
        return SV('ref', r, cls=cls_name)

    # ---------------------------------------------------------------- heap: lists
    def new_list(self, items: List[SV], T=None, cls='list') -> SV:
        st = self.st
        r = st.new_ref(cls)
        arr = st.L_el[r]
        for i, x in enumerate(items):
            arr = z3.Store(arr, i, self.box(x))
        st.set_arr('L_el', z3.Store(st.L_el, r, arr), r)
        st.set_arr('L_len', z3.Store(st.L_len, r, z3.IntVal(len(items))), r)
        return SV('ref', r, cls=cls, T=T)

    def lower_list(self, pl: PyList, cls='list'):
        """Give a Python-side list a heap identity (it escapes into the heap)."""
        if pl.href is not None:
            return pl.href
        st = self.st
        r = st.new_ref(cls)
        n = z3.IntVal(0)
        arr = st.L_el[r]
        for seg in pl.segs:
            if seg[0] == 'item':
                arr = z3.Store(arr, n, self.box(seg[1]))
                n = z3.simplify(n + 1)
            elif seg[0] == 'heap':
                if z3.is_int_value(n) and n.as_long() == 0:
                    arr = seg[3]
                    n = seg[4]
                else:
                    # a heap list appended after other elements: new[n0 + j] == src[j], new[j] == old[j] below n0
                    a2 = st.fresh('arr', ElArr)
                    j = z3.Int('j!l')
                    st.fact(z3.ForAll([j], z3.Implies(z3.And(0 <= j, j < n), a2[j] == arr[j]), patterns=[a2[j]]))
                    st.fact(z3.ForAll([j], z3.Implies(z3.And(0 <= j, j < seg[4]), a2[n + j] == seg[3][j]),
                                      patterns=[seg[3][j]]))
                    arr = a2
                    n = z3.simplify(n + seg[4])
            elif seg[0] == 'comp':
                c: CompResult = seg[1]
                first = z3.is_int_value(n) and n.as_long() == 0
                if not first and not z3.is_true(z3.simplify(c.cond)):
                    raise Unsupported('lowering a list with a filtered comprehension segment after other segments')
                a2 = st.fresh('arr', ElArr)
                if z3.is_true(z3.simplify(c.cond)):
                    j = z3.Int('j!l')
                    if first:
                        vj = self.box(self.subst_sv(c.val, c.K, j))
                        st.fact(z3.ForAll([j], z3.Implies(z3.And(0 <= j, j < c.length), a2[j] == vj),
                                            patterns=[a2[j]]))
                        n = c.length
                    else:
                        vj = self.box(self.subst_sv(c.val, c.K, j - n))
                        st.fact(z3.ForAll([j], z3.Implies(z3.And(0 <= j, j < n), a2[j] == arr[j]), patterns=[a2[j]]))
                        st.fact(z3.ForAll([j], z3.Implies(z3.And(n <= j, j < n + c.length), a2[j] == vj),
                                            patterns=[a2[j]]))
                        n = z3.simplify(n + c.length)
                else:
                    n = self.ccnt(c)
                    st.fact(n >= 0)
                    j = z3.Int('j!l')
                    w = z3.Function(f'wit!{st.fresh_n}', I, I)
                    st.fresh_n += 1
                    vj = self.box(self.subst_sv(c.val, c.K, w(j)))
                    cj = z3.substitute(c.cond, (c.K, w(j)))
                    st.fact(z3.ForAll([j], z3.Implies(z3.And(0 <= j, j < n),
                                                        z3.And(0 <= w(j), w(j) < c.length, cj, a2[j] == vj)),
                                        patterns=[a2[j]]))
                arr = a2
            else:
                raise Unsupported(f'lower segment {seg[0]}')
        st.set_arr('L_el', z3.Store(st.L_el, r, arr), r)
        st.set_arr('L_len', z3.Store(st.L_len, r, n), r)
        pl.href = r
        return r

    def subst_sv(self, v: SV, a, b) -> SV:
        if v.e is not None:
            return SV(v.k, z3.substitute(v.e, (a, b)), v.cls, v.T, v.py)
        if v.k == 'tuple':
            return SV('tuple', py=[self.subst_sv(x, a, b) for x in v.py])
        return v

    def seq_len(self, v: SV):
        """z3 Int: len(v) for list-like values."""
        st = self.st
        if v.k == 'tuple':
            return z3.IntVal(len(v.py))
        if v.k == 'ref' and v.cls in ('list', 'tuple'):
            return st.L_len[v.e]
        if v.k == 'ref' and v.cls == 'dict':
            return st.D_n[v.e]
        if v.k == 'pylist':
            pl = v.py
            if pl.href is not None:
                return st.L_len[pl.href]
            n = z3.IntVal(0)
            for seg in pl.segs:
                n = n + self.seg_count(seg)
            return z3.simplify(n)
        if v.k == 'str':
            return z3.Length(v.e)
        raise Unsupported(f'len of {v.k}')

    def seg_count(self, seg):
        if seg[0] == 'item':
            return z3.IntVal(1)
        if seg[0] == 'opt':
            return z3.If(seg[1], 1, 0)
        if seg[0] == 'heap':
            return seg[4]
        if seg[0] == 'comp':
            c = seg[1]
            if z3.is_true(z3.simplify(c.cond)):
                return c.length
            return self.ccnt(c)
        if seg[0] in ('dictkeys', 'dictitems', 'dictvalues', 'enum', 'range'):
            return self.seg_length(seg)
        raise Unsupported(seg[0])

    def fresh_offset(self, r):
        d = z3.simplify(r - self.st.alloc0)
        return d.as_long() if z3.is_int_value(d) else None

    @staticmethod
    def is_elem_ref(r) -> bool:
        """reference of an object allocated inside a symbolic iteration (State.new_ref under binders)"""
        return z3.is_app(r) and r.num_args() > 0 and r.decl().kind() == z3.Z3_OP_UNINTERPRETED and \
            r.decl().name().startswith('obj!')

    def provably_distinct(self, r, idx) -> bool:
        """syntactic sufficient condition for two reference terms to denote different objects"""
        ro, io = self.fresh_offset(r), self.fresh_offset(idx)
        re_, ie = self.is_elem_ref(r), self.is_elem_ref(idx)
        if ro is not None and io is not None:
            return ro != io
        if (ro is not None and ie) or (io is not None and re_):
            return True                       # a per-element block never overlaps a concrete allocation
        r_new, i_new = ro is not None or re_, io is not None or ie
        if r_new and not i_new:
            return self.is_old_term(idx)
        if i_new and not r_new:
            return self.is_old_term(r)
        return False

    def is_old_term(self, r) -> bool:
        """Syntactic sufficient condition for `r` denoting an object of the pre-state: the term
        mentions neither the allocation base nor a havocked/fresh symbol."""
        i = r.get_id()
        c = _OLD.get(i)
        if c is not None:
            return c[1]
        res = True
        stack = [r]
        seen = set()
        while stack and res:
            e = stack.pop()
            j = e.get_id()
            if j in seen:
                continue
            seen.add(j)
            if z3.is_app(e):
                if e.num_args() == 0:
                    nm = e.decl().name()
                    if nm == 'alloc0' or '!' in nm:
                        res = False
                else:
                    nm = e.decl().name()
                    if '!' in nm:
                        res = False
                    stack.extend(e.children())
            elif z3.is_quantifier(e) or z3.is_var(e):
                res = False
        _OLD[i] = (r, res)
        return res

    def through_havoc(self, cur, r):
        """`cur` is an array introduced by the havoc of a loop verified by invariant: cur[r] == prev[r] for
        every object r that existed at loop entry and is not in the loop's frame.  Returns prev when r
        provably is such an object, else None."""
        info = getattr(self.st, 'havoc_info', None)     # per path: symbol names repeat across paths
        if not info or not z3.is_const(cur):
            return None
        rec = info.get(cur.decl().name())
        if rec is None or not rec[0].eq(cur):
            return None
        _, prev, exc, extra, n0 = rec
        if extra:
            return None

        def entailed(f) -> bool:
            # the quantifier-free part of the path condition refutes the negation (150 ms budget)
            ps = self.st.pruning_solver()
            ps.push()
            ps.add(z3.Not(f))
            ok = ps.check() == z3.unsat
            ps.pop()
            return ok
        ro = self.fresh_offset(r)
        if not ((ro is not None and ro < n0) or (ro is None and not self.is_elem_ref(r) and self.is_old_term(r))):
            if ro is not None or not entailed(r < self.st.alloc0 + n0):
                return None
        for x in exc:
            if not self.provably_distinct(r, x) and not entailed(r != x):
                return None
        return prev

    def peel(self, arr, r):
        """arr[r] with stores at provably different references skipped (old vs. fresh objects,
        two different fresh objects), and loop havocs looked through for objects outside the loop's frame."""
        cur = arr
        while True:
            if z3.is_app(cur) and cur.decl().kind() == z3.Z3_OP_STORE:
                idx = cur.arg(1)
                if idx.eq(r):
                    return z3.simplify(cur.arg(2))
                if self.provably_distinct(r, idx):
                    cur = cur.arg(0)
                    continue
                break
            prev = self.through_havoc(cur, r)
            if prev is None:
                break
            cur = prev
        return z3.simplify(cur[r])

    def heap_seg(self, r, T):
        """Snapshot of a heap list as an iteration segment."""
        return ('heap', r, T, self.peel(self.st.L_el, r), self.peel(self.st.L_len, r))

    def concretize(self, segs):
        """Small-scope mode (refutation search only): a symbolic-length segment is split into the
        cases length = 0..bound and unrolled, so that loops and quantifiers become finite."""
        B_ = self.shared.get('bound')
        if B_ is None:
            return segs
        out = []
        for seg in segs:
            if seg[0] in ('item',):
                out.append(seg)
                continue
            if seg[0] == 'comp' and not z3.is_true(z3.simplify(seg[1].cond)):
                out.append(seg)
                continue
            try:
                n = z3.simplify(self.seg_length(seg))
            except Unsupported:
                out.append(seg)
                continue
            if z3.is_int_value(n):
                k = n.as_long()
            else:
                k = None
                for cand in range(B_ + 1):
                    if self.decide(n == cand):
                        k = cand
                        break
                if k is None:
                    raise Infeasible()
            for i in range(k):
                out.append(('item', self.seg_element(seg, z3.IntVal(i))))
        return out

    def dict_seg(self, kind, r, T):
        st = self.st
        return (kind, r, T, self.peel(st.D_key, r), self.peel(st.D_val, r), self.peel(st.D_has, r),
                self.peel(st.D_n, r))

    def ctx_args(self, c):
        ctx = list(c.ctx)[-3:]
        return [z3.IntVal(0)] * (3 - len(ctx)) + ctx

    def ccnt(self, c):
        return comp_cnt(z3.IntVal(c.idx), *self.ctx_args(c))

    def cjoin(self, c, sep):
        return comp_join(z3.IntVal(c.idx), *self.ctx_args(c), sep)

    def csum(self, c):
        return comp_sum(z3.IntVal(c.idx), *self.ctx_args(c))

    def segments(self, v: SV) -> List[tuple]:
        segs = self._segments(v)
        if self.shared.get('bound') is not None:
            return self.concretize(segs)
        return segs

    def _segments(self, v: SV) -> List[tuple]:
        """Iteration segments of an iterable value."""
        if v.k == 'tuple':
            return [('item', x) for x in v.py]
        if v.k == 'pylist':
            pl = v.py
            if pl.href is not None:
                return [self.heap_seg(pl.href, pl.T)]
            return list(pl.segs)
        if v.k == 'ref' and v.cls in ('list', 'tuple'):
            return [self.heap_seg(v.e, v.T)]
        if v.k == 'ref' and v.cls == 'dict':
            return [self.dict_seg('dictkeys', v.e, v.T)]
        if v.k == 'gen':
            return self.eval_gen(v.py)
        if v.k == 'ref' and v.cls:
            pc = self.reg.pyclass(v.cls)
            it = inspect.getattr_static(pc, '__iter__', None) if pc else None
            if it is not None:
                res = self.call_function(it, [v], {}, None)
                return self.segments(res)
        if v.k == 'val' and v.T is not None:
            allalts = type_alternatives(v.T)
            alts = [a for a in allalts if a[0] != 'none']
            if any(a[0] == 'none' for a in allalts) and self.decide(v.e == Val.none):
                raise PyRaise(TypeError, (), 'iterate None')
            lists = [a for a in alts if a[0] == 'list']
            if len(lists) == 1:
                if len(alts) == 1 or self.decide(z3.And(Val.is_r(v.e), cls_of(Val.rv(v.e)) == self.reg.cid('list'))):
                    return self._segments(self.unbox(v.e, lists[0]))
                raise PyRaise(TypeError, (), 'object is not iterable')
        if v.k == 'iter':
            return v.py
        raise Unsupported(f'iteration over {v.k} {v.cls}')

    def list_get(self, r, i, T) -> SV:
        eT = T[1] if T and T[0] in ('list',) else None
        return self.unbox(self.st.L_el[r][i], eT)

    def list_append(self, r, v: SV, T=None):
        st = self.st
        b = self.box(v)
        eT = T[1] if T and T[0] == 'list' else None
        if eT is not None and eT[0] != 'any':
            g = self.conforms(b, eT)
            if not z3.is_true(z3.simplify(g)):
                st.oblige('type:list-element', g)
        n = st.L_len[r]
        st.set_arr('L_el', z3.Store(st.L_el, r, z3.Store(st.L_el[r], n, b)), r)
        st.set_arr('L_len', z3.Store(st.L_len, r, n + 1), r)

    def list_pop(self, r, i, T) -> SV:
        """pop(i) with 0 <= i < len already established."""
        st = self.st
        old = st.L_el[r]
        n = st.L_len[r]
        res = self.list_get(r, i, T)
        new = st.fresh('arr', ElArr)
        j = z3.Int('j!p')
        st.fact(z3.ForAll([j], new[j] == z3.If(j < i, old[j], old[j + 1]), patterns=[new[j]]))
        st.set_arr('L_el', z3.Store(st.L_el, r, new), r)
        st.set_arr('L_len', z3.Store(st.L_len, r, n - 1), r)
        return res

    def norm_index(self, i, n, exc=IndexError, where=''):
        """Python index normalisation (negative indices), raising IndexError symbolically."""
        if self.decide(z3.And(0 <= i, i < n)):
            return i
        if self.decide(z3.And(i < 0, -n <= i)):
            return i + n
        raise PyRaise(exc, (), where)

    # ---------------------------------------------------------------- heap: dicts
    def new_dict(self, T=None) -> SV:
        st = self.st
        r = st.new_ref('dict')
        st.set_arr('D_has', z3.Store(st.D_has, r, z3.K(S, z3.BoolVal(False))), r)
        st.set_arr('D_n', z3.Store(st.D_n, r, z3.IntVal(0)), r)
        return SV('ref', r, cls='dict', T=T)

    def dict_set(self, r, key, v: SV, T=None):
        st = self.st
        b = self.box(v)
        log = getattr(self, 'dict_log', None)
        if log is not None:
            for (racc, entries) in log:
                if racc.eq(r):
                    entries.append((key, b))
                    return
        vT = T[1] if T and T[0] == 'dict' else None
        if vT is not None and vT[0] != 'any':
            g = self.conforms(b, vT)
            if not z3.is_true(z3.simplify(g)):
                st.oblige('type:dict-value', g)
        had = st.D_has[r][key]
        n = st.D_n[r]
        keys0 = st.D_key[r]
        keys1 = st.fresh('keys', KeyArr)
        n1 = st.fresh('n', I)
        st.fact(z3.Implies(had, z3.And(keys1 == keys0, n1 == n)))
        st.fact(z3.Implies(z3.Not(had), z3.And(keys1 == z3.Store(keys0, n, key), n1 == n + 1)))
        st.set_arr('D_key', z3.Store(st.D_key, r, keys1), r)
        st.set_arr('D_n', z3.Store(st.D_n, r, n1), r)
        st.set_arr('D_has', z3.Store(st.D_has, r, z3.Store(st.D_has[r], key, z3.BoolVal(True))), r)
        st.set_arr('D_val', z3.Store(st.D_val, r, z3.Store(st.D_val[r], key, b)), r)

    def dict_get(self, r, key, T) -> SV:
        log = getattr(self, 'dict_log', None)
        if log is not None:
            for (racc, entries) in log:
                if racc.eq(r):
                    # the loop body reads the dict it is building: the value it sees is not the
                    # pre-loop one, so nothing is claimed about stored values
                    self.shared.setdefault('dict_acc_read', set()).add(r.get_id())
                    return self.unbox(self.st.fresh('accval', Val), vT_of(T))
        vT = T[1] if T and T[0] == 'dict' else None
        return self.unbox(self.st.D_val[r][key], vT)

    def dict_del(self, r, key):
        st = self.st
        st.set_arr('D_has', z3.Store(st.D_has, r, z3.Store(st.D_has[r], key, z3.BoolVal(False))), r)
        # insertion order list after a deletion is not tracked precisely
        st.set_arr('D_key', z3.Store(st.D_key, r, st.fresh('keys', KeyArr)), r)
        st.set_arr('D_n', z3.Store(st.D_n, r, st.D_n[r] - 1), r)

    def key_str(self, k: SV, where='dict key'):
        if k.k == 'str':
            return k.e
        if k.k == 'none':
            return SVAL(NONE_KEY)
        if k.k == 'val':
            if self.decide(Val.is_s(k.e)):
                return Val.sv(k.e)
            if self.decide(k.e == Val.none):
                # None used as a dict key: represented by a reserved string no real key contains
                self.st.notes.append('None used as a dict key is modelled by a reserved string')
                return SVAL(NONE_KEY)
            raise Unsupported('non-string dict key')
        raise Unsupported(f'non-string dict key ({k.k}) in {where}')

    # ================================================================ expressions
    def ev(self, node, fr: Frame) -> SV:
        m = getattr(self, 'ev_' + node.__class__.__name__, None)
        if m is None:
            raise Unsupported(f'expression {node.__class__.__name__}')
        return m(node, fr)

    def ev_Constant(self, node, fr):
        v = node.value
        if v is Ellipsis:
            return const(Ellipsis)
        if isinstance(v, bytes):
            raise Unsupported('bytes')
        return self.lift(v)

    def ev_Name(self, node, fr):
        name = node.id
        v = fr.lookup(name)
        if v is not None:
            return v
        if name in fr.globals:
            return self.lift(fr.globals[name])
        if hasattr(_bi, name):
            return const(getattr(_bi, name))
        if name in SPEC_BUILTINS:
            return const(SPEC_BUILTINS[name])
        raise Unsupported(f'unbound name {name}')

    def ev_Tuple(self, node, fr):
        try:
            return SV('tuple', py=self.ev_elts(node.elts, fr, as_tuple=True))
        except _SegTuple as e:
            return SV('iter', py=e.segs)

    def ev_List(self, node, fr):
        segs = self.ev_elts(node.elts, fr, as_tuple=False)
        return SV('pylist', py=PyList(segs))

    def ev_elts(self, elts, fr, as_tuple):
        out = []
        for e in elts:
            if isinstance(e, ast.Starred):
                v = self.ev(e.value, fr)
                for seg in self.segments(v):
                    if as_tuple:
                        if seg[0] != 'item':
                            # a tuple display over symbolic-length parts: keep as a segment list
                            out.append(('SEG', seg))
                        else:
                            out.append(seg[1])
                    else:
                        out.append(seg)
            else:
                v = self.ev(e, fr)
                out.append(v if as_tuple else ('item', v))
        if as_tuple and any(isinstance(x, tuple) and x and x[0] == 'SEG' for x in out):
            segs = [x[1] if isinstance(x, tuple) else ('item', x) for x in out]
            raise _SegTuple(segs)
        return out

    def ev_Dict(self, node, fr):
        d = self.new_dict()
        for k, v in zip(node.keys, node.values):
            if k is None:
                raise Unsupported('dict unpacking in display')
            ks = self.key_str(self.ev(k, fr))
            self.dict_set(d.e, ks, self.ev(v, fr))
        return d

    def ev_JoinedStr(self, node, fr):
        parts = []
        for v in node.values:
            if isinstance(v, ast.Constant):
                parts.append(SVAL(v.value))
            elif isinstance(v, ast.FormattedValue):
                x = self.ev(v.value, fr)
                if v.format_spec is not None:
                    raise Unsupported('format spec')
                if v.conversion == 114:      # !r
                    parts.append(py_repr(self.box(x)) if x.k not in ('const', 'exc') else SVAL('<obj>'))
                else:
                    parts.append(self.to_str(x).e)
            else:
                raise Unsupported('f-string part')
        if not parts:
            return mk_str('')
        if len(parts) == 1:
            return mk_str(parts[0])
        return mk_str(z3.Concat(*parts))

    def to_str(self, x: SV) -> SV:
        """str(x)"""
        k = x.k
        if k == 'str':
            return x
        if k == 'none':
            return mk_str('None')
        if k == 'bool':
            return mk_str(z3.If(x.e, SVAL('True'), SVAL('False')))
        if k == 'int':
            return mk_str(z3.If(x.e >= 0, z3.IntToStr(x.e), z3.Concat(SVAL('-'), z3.IntToStr(-x.e))))
        if k == 'ref' and x.cls not in (None, 'list', 'dict', 'tuple'):
            pc = self.reg.pyclass(x.cls)
            f = inspect.getattr_static(pc, '__str__', None) if pc else None
            if f is not None and f is not object.__str__ and isinstance(f, types.FunctionType):
                return self.call_function(f, [x], {}, None)
            return mk_str(py_str(self.box(x)))
        if k == 'val':
            e = x.e
            if x.T is not None:
                alts = type_alternatives(x.T)
                if all(a[0] in ('str', 'none', 'bool', 'int', 'float', 'obj') for a in alts):
                    # objects dispatch on the class (their __str__ reads the heap); primitives are
                    # one term: py_str with its defining equations
                    for a in alts:
                        if a[0] == 'obj' and self.decide(z3.And(Val.is_r(e), cls_of(Val.rv(e)) == self.reg.cid(a[1]))):
                            return self.to_str(SV('ref', Val.rv(e), cls=a[1]))
                    self.py_str_facts(e)
                    return mk_str(py_str(e))
            self.py_str_facts(e)
            return mk_str(py_str(e))
        if k in ('float',):
            return mk_str(py_str(self.box(x)))
        if k in ('const', 'exc', 'tuple', 'pylist'):
            return mk_str(st_opaque_str(self, x))
        return mk_str(py_str(self.box(x)))

    def with_assumption(self, cond, thunk, check=False):
        """Evaluate thunk() under a temporary hypothesis.  Afterwards the hypothesis and the facts
        derived under it are retracted; branch decisions taken meanwhile stay (they partition the
        path space whatever the hypothesis)."""
        st = self.st
        n0 = len(st.pc)
        conds = cond if isinstance(cond, list) else [cond]
        for c1 in conds:
            c1s = z3.simplify(c1)
            if z3.is_false(c1s):
                raise Infeasible()
            if z3.simplify(z3.Not(c1s)).get_id() in st.pc_ids:
                raise Infeasible()
        if check and not self.feasible(z3.And(*conds) if len(conds) > 1 else conds[0]):
            raise Infeasible()
        for c1 in conds:
            st.assume(c1)
        cond = z3.And(*conds) if len(conds) > 1 else conds[0]
        hyp_ids = {h.get_id() for h in st.pc[n0:]}
        try:
            return thunk()
        finally:
            keep, cond_facts = [], []
            for h in st.pc[n0:]:
                i = h.get_id()
                if i in hyp_ids:
                    st.pc_ids.discard(i)
                    st.fact_ids.pop(i, None)
                elif i in st.fact_ids:
                    st.pc_ids.discard(i)
                    st.fact_ids.pop(i, None)
                    cond_facts.append(h)
                else:
                    keep.append(h)
            del st.pc[n0:]
            st.pc.extend(keep)
            # facts derived under the hypothesis stay available, conditionally on it
            for h in cond_facts:
                st.fact(z3.Implies(cond, h))

    def py_str_facts(self, e):
        st = self.st
        st.fact(z3.Implies(Val.is_s(e), py_str(e) == Val.sv(e)))
        st.fact(z3.Implies(e == Val.none, py_str(e) == SVAL('None')))
        st.fact(z3.Implies(Val.is_b(e), py_str(e) == z3.If(Val.bv(e), SVAL('True'), SVAL('False'))))
        st.fact(z3.Implies(z3.And(Val.is_i(e), Val.iv(e) >= 0), py_str(e) == z3.IntToStr(Val.iv(e))))
        st.fact(z3.Implies(z3.And(Val.is_i(e), Val.iv(e) < 0),
                           py_str(e) == z3.Concat(SVAL('-'), z3.IntToStr(-Val.iv(e)))))

    def ev_BoolOp(self, node, fr):
        is_and = isinstance(node.op, ast.And)
        if self.in_spec > 0:
            # contract text: a formula, no forking; later operands are evaluated under the
            # hypothesis that makes them reachable (short-circuit semantics)
            acc = None
            hyp = []
            for sub in node.values:
                def one(sub=sub):
                    return self.truthy(self.ev(sub, fr))
                if hyp:
                    try:
                        t = self.with_assumption(list(hyp), one)
                    except Infeasible:
                        break
                    except PyRaise:
                        # raises only if this operand is reached
                        if self.decide(z3.And(*hyp) if len(hyp) > 1 else hyp[0]):
                            raise
                        break
                else:
                    t = one()
                acc = t if acc is None else (z3.And(acc, t) if is_and else z3.Or(acc, t))
                hyp.append(t if is_and else z3.Not(t))
            return mk_bool(acc)
        v = None
        for i, sub in enumerate(node.values):
            v = self.ev(sub, fr)
            if i == len(node.values) - 1:
                return v
            t = self.decide(self.truthy(v))
            if is_and and not t:
                return v
            if (not is_and) and t:
                return v
        return v

    def ev_UnaryOp(self, node, fr):
        v = self.ev(node.operand, fr)
        if isinstance(node.op, ast.Not):
            return mk_bool(z3.Not(self.truthy(v)))
        if isinstance(node.op, ast.USub):
            iv = self.as_int(v)
            return mk_int(-iv)
        raise Unsupported('unary op')

    def ev_IfExp(self, node, fr):
        if self.in_spec > 0:
            # contract text: a conditional expression is one ite term (no forking)
            c = z3.simplify(self.truthy(self.ev(node.test, fr)))
            if z3.is_true(c):
                return self.ev(node.body, fr)
            if z3.is_false(c):
                return self.ev(node.orelse, fr)
            a = b = None
            # an exception while evaluating a branch under its hypothesis is an exception of the
            # whole expression only if the hypothesis holds: decide it, then re-raise or drop the branch
            try:
                a = self.with_assumption(c, lambda: self.ev(node.body, fr), check=False)
            except Infeasible:
                pass
            except PyRaise:
                if self.decide(c):
                    raise
            try:
                b = self.with_assumption(z3.Not(c), lambda: self.ev(node.orelse, fr), check=False)
            except Infeasible:
                pass
            except PyRaise:
                if self.decide(z3.Not(c)):
                    raise
            if a is None and b is None:
                raise Infeasible()
            if a is None:
                return b
            if b is None:
                return a
            try:
                return self.merge_values([(c, a), (z3.BoolVal(True), b)])
            except Unsupported:
                pass
            if self.decide(c):
                return a
            return b
        c = self.ev(node.test, fr)
        if self.decide(self.truthy(c)):
            return self.ev(node.body, fr)
        return self.ev(node.orelse, fr)

    def ev_Lambda(self, node, fr):
        return SV('closure', py=Closure(node, fr, module=None, qual=fr.qual + '.<lambda>'))

    def ev_Starred(self, node, fr):
        raise Unsupported('starred outside display/call')

    def as_int(self, v: SV):
        if v.k == 'int':
            return v.e
        if v.k == 'bool':
            return z3.If(v.e, 1, 0)
        if v.k == 'val':
            if self.decide(Val.is_i(v.e)):
                return Val.iv(v.e)
            if self.decide(Val.is_b(v.e)):
                return z3.If(Val.bv(v.e), 1, 0)
            raise PyRaise(TypeError, (), 'int expected')
        raise PyRaise(TypeError, (), f'int expected, got {v.k}')

    def as_str(self, v: SV, where=''):
        if v.k == 'str':
            return v.e
        if v.k == 'val':
            if self.decide(Val.is_s(v.e)):
                return Val.sv(v.e)
            raise PyRaise(TypeError, (), 'str expected ' + where)
        raise PyRaise(TypeError, (), f'str expected, got {v.k} {where}')

    def ev_BinOp(self, node, fr):
        a = self.ev(node.left, fr)
        b = self.ev(node.right, fr)
        return self.binop(node.op, a, b)

    def binop(self, op, a: SV, b: SV) -> SV:
        if isinstance(op, ast.Add):
            if a.k == 'str' or b.k == 'str':
                return mk_str(z3.Concat(self.as_str(a, '+'), self.as_str(b, '+')))
            if a.k in ('pylist',) and b.k in ('pylist', 'tuple') or (a.k == 'ref' and a.cls == 'list'):
                return SV('pylist', py=PyList(self.segments(a) + self.segments(b)))
            if a.k == 'tuple' and b.k == 'tuple':
                return SV('tuple', py=a.py + b.py)
            if a.k == 'val' and a.T and all(t[0] in ('str', 'none') for t in type_alternatives(a.T)):
                return mk_str(z3.Concat(self.as_str(a, '+'), self.as_str(b, '+')))
            return mk_int(self.as_int(a) + self.as_int(b))
        if isinstance(op, ast.Sub):
            return mk_int(self.as_int(a) - self.as_int(b))
        if isinstance(op, ast.Mult):
            if a.k == 'str' and b.k == 'int':
                a, b = b, a
            if a.k == 'int' and b.k == 'str':
                n = z3.simplify(a.e)
                if z3.is_int_value(n):
                    k = n.as_long()
                    return mk_str(z3.Concat(*([b.e] * k)) if k > 1 else (b.e if k == 1 else SVAL('')))
                raise Unsupported('str * symbolic int')
            return mk_int(self.as_int(a) * self.as_int(b))
        raise Unsupported(f'binary op {op.__class__.__name__}')

    def ev_Compare(self, node, fr):
        left = self.ev(node.left, fr)
        res = None
        for op, rn in zip(node.ops, node.comparators):
            right = self.ev(rn, fr)
            c = self.compare(op, left, right)
            res = c if res is None else z3.And(res, c)
            left = right
        return mk_bool(res)

    def compare(self, op, a: SV, b: SV):
        if isinstance(op, ast.Is):
            return self.identical(a, b)
        if isinstance(op, ast.IsNot):
            return z3.Not(self.identical(a, b))
        if isinstance(op, ast.Eq):
            return self.equal(a, b)
        if isinstance(op, ast.NotEq):
            return z3.Not(self.equal(a, b))
        if isinstance(op, ast.In):
            return self.contains(b, a)
        if isinstance(op, ast.NotIn):
            return z3.Not(self.contains(b, a))
        if isinstance(op, (ast.Lt, ast.LtE, ast.Gt, ast.GtE)):
            x, y = self.as_int(a), self.as_int(b)
            return {ast.Lt: x < y, ast.LtE: x <= y, ast.Gt: x > y, ast.GtE: x >= y}[type(op)]
        raise Unsupported('comparison')

    def identical(self, a: SV, b: SV):
        """`a is b`"""
        if a.k in ('const', 'closure') or b.k in ('const', 'closure'):
            if a.k == b.k == 'const':
                return z3.BoolVal(a.py is b.py)
            if a.k == 'val' or b.k == 'val':
                return self.box(a) == self.box(b)
            return z3.BoolVal(False)
        if a.k == 'str' or b.k == 'str':
            if a.k == 'none' or b.k == 'none':
                return z3.BoolVal(False)
            # strings have no identity in the model: `is` between strings is read as equality
            # (contract text only; pydbml itself compares strings with `is` nowhere)
            if a.k == 'str' and b.k == 'str':
                return a.e == b.e
            if a.k == 'val':
                return z3.And(Val.is_s(a.e), Val.sv(a.e) == b.e)
            if b.k == 'val':
                return z3.And(Val.is_s(b.e), Val.sv(b.e) == a.e)
            return z3.BoolVal(False)
        if a.k in ('tuple',) or b.k in ('tuple',):
            raise Unsupported('`is` on tuples')
        if a.k == 'exc' or b.k == 'exc':
            return z3.BoolVal(a is b)
        return self.box(a) == self.box(b)

    def has_custom_eq(self, cls: Optional[str]) -> bool:
        pc = self.reg.pyclass(cls) if cls else None
        if pc is None:
            return False
        return pc.__eq__ is not object.__eq__

    def obj_equal(self, ra, cls_a, rb, cls_b):
        """`a == b` for two object references of known classes (class-level __eq__ contract)."""
        if cls_a in ('list', 'tuple') or cls_b in ('list', 'tuple'):
            raise Unsupported('== on heap lists')
        if cls_a == 'dict' or cls_b == 'dict':
            raise Unsupported('== on dicts')
        if not self.has_custom_eq(cls_a):
            return ra == rb
        self.st.eqv_used = True
        if getattr(self.st, 'eqv_stale', False) and not self.in_spec:
            self.st.eqv_unsound = True
        self.eqv_facts(ra, rb, cls_a, cls_b)
        return z3.Or(ra == rb, eqv(ra, rb))

    def eqv_facts(self, ra, rb, cls_a, cls_b):
        """Sound consequences of structural equality (SQLObject.__eq__ / Column.__eq__, which are
        themselves under contract in contracts/base.py): equal objects have the same class and
        agree on every compared attribute of primitive type.  Stated once per class and heap
        version as a quantified axiom with trigger eqv(a, b)."""
        st = self.st
        if cls_a != cls_b or cls_a is None:
            return
        pc = self.reg.pyclass(cls_a)
        dont = tuple(getattr(pc, 'dont_compare_fields', ()))
        a, b = z3.Int('a!e'), z3.Int('b!e')
        cons = [cls_of(a) == cls_of(b), eqv(b, a)]
        names = []
        for attr, T in self.reg.fields.get(cls_a, {}).items():
            if attr in dont:
                continue
            if all(t[0] in ('str', 'bool', 'int', 'none') for t in type_alternatives(T)):
                cons.append(st.F(attr)[a] == st.F(attr)[b])
                names.append(st.F(attr).get_id())
        key = ('eqv-axiom', cls_a, tuple(names))
        if key in st.axioms:
            return
        st.axioms.add(key)
        cid = self.reg.cid(cls_a)
        st.fact(z3.ForAll([a, b], z3.Implies(z3.And(eqv(a, b), cls_of(a) == cid), z3.And(*cons)),
                          patterns=[eqv(a, b)]))

    def equal(self, a: SV, b: SV):
        """`a == b`"""
        ka, kb = a.k, b.k
        if ka == kb and a.e is not None and b.e is not None and a.e.eq(b.e) and ka != 'float':
            return z3.BoolVal(True)
        if ka == 'tuple' and kb == 'tuple':
            if len(a.py) != len(b.py):
                return z3.BoolVal(False)
            return z3.And(*[self.equal(x, y) for x, y in zip(a.py, b.py)]) if a.py else z3.BoolVal(True)
        if ka == 'const' and kb == 'const':
            return z3.BoolVal(a.py == b.py)
        if ka == 'pylist' and kb == 'pylist':
            return self.list_equal(a.py, b.py)
        prim = ('none', 'bool', 'int', 'str', 'float')
        if ka in prim and kb in prim:
            if ka == kb:
                if ka == 'none':
                    return z3.BoolVal(True)
                return a.e == b.e
            if {ka, kb} == {'bool', 'int'}:
                return self.as_int(a) == self.as_int(b)
            return z3.BoolVal(False)
        if ka == 'ref' and kb == 'ref':
            return self.obj_equal(a.e, a.cls, b.e, b.cls)
        if ka == 'val' or kb == 'val':
            if ka != 'val':
                a, b = b, a
                ka, kb = kb, ka
            # a is a boxed value
            if kb in prim:
                return self.box(a) == self.box(b) if kb != 'int' else z3.Or(
                    z3.And(Val.is_i(a.e), Val.iv(a.e) == b.e), z3.And(Val.is_b(a.e), z3.If(Val.bv(a.e), 1, 0) == b.e))
            alts_a = type_alternatives(a.T) if a.T else None
            if alts_a is None or any(t[0] == 'any' for t in alts_a):
                if kb == 'ref' and not self.has_custom_eq(b.cls):
                    return a.e == Val.r(b.e)
                if kb == 'ref' and b.cls not in ('list', 'dict', 'tuple'):
                    # identical, or an object of the same class that is structurally equal
                    self.st.eqv_used = True
                    self.eqv_facts(Val.rv(a.e), b.e, b.cls, b.cls)
                    return z3.Or(a.e == Val.r(b.e),
                                 z3.And(Val.is_r(a.e), cls_of(Val.rv(a.e)) == self.reg.cid(b.cls), eqv(Val.rv(a.e), b.e)))
                raise Unsupported('== on an untyped value')
            if kb == 'ref':
                parts = []
                for t in alts_a:
                    if t[0] == 'obj':
                        parts.append(z3.And(Val.is_r(a.e), cls_of(Val.rv(a.e)) == self.reg.cid(t[1]),
                                            self.obj_equal(Val.rv(a.e), t[1], b.e, b.cls)))
                return z3.Or(*parts) if parts else z3.BoolVal(False)
            if kb == 'val':
                alts_b = type_alternatives(b.T) if b.T else None
                if alts_b is None:
                    raise Unsupported('== on an untyped value')
                parts = [z3.And(z3.Not(Val.is_r(a.e)), a.e == b.e)]
                for t in alts_a:
                    for u in alts_b:
                        if t[0] == 'obj' and u[0] == 'obj':
                            parts.append(z3.And(Val.is_r(a.e), Val.is_r(b.e),
                                                cls_of(Val.rv(a.e)) == self.reg.cid(t[1]),
                                                cls_of(Val.rv(b.e)) == self.reg.cid(u[1]),
                                                self.obj_equal(Val.rv(a.e), t[1], Val.rv(b.e), u[1])))
                return z3.Or(*parts)
            if kb == 'const':
                return a.e == self.box(b)
        if ka == 'ref' and kb in prim or kb == 'ref' and ka in prim:
            return z3.BoolVal(False)
        raise Unsupported(f'== between {ka} and {kb}')

    def const_str(self, v: SV) -> str:
        if v.k != 'str':
            raise Unsupported('a literal string is expected here')
        c = z3.simplify(v.e)
        if not z3.is_string_value(c):
            raise Unsupported('a literal string is expected here')
        return c.as_string()

    def presults_getitem(self, obj: SV, idx: SV) -> SV:
        pr: PR = obj.py
        if idx.k == 'str':
            name = self.const_str(idx)
            ent = pr.named.get(name)
            if ent is None:
                raise PyRaise(KeyError, (idx,), f'ParseResults[{name!r}]')
            present = ent[0] if not isinstance(ent[0], bool) else z3.BoolVal(ent[0])
            if not self.decide(present):
                raise PyRaise(KeyError, (idx,), f'ParseResults[{name!r}]')
            return ent[1]
        i = self.concrete_int(idx)
        if not -len(pr.pos) <= i < len(pr.pos):
            raise PyRaise(IndexError, (), 'ParseResults index')
        return pr.pos[i]

    def presults_method(self, obj: SV, name: str, args, kw) -> SV:
        pr: PR = obj.py
        if name == 'get':
            key = self.const_str(args[0])
            default = args[1] if len(args) > 1 else NONE
            ent = pr.named.get(key)
            if ent is None:
                return default
            present = ent[0] if not isinstance(ent[0], bool) else z3.BoolVal(ent[0])
            if self.decide(present):
                return ent[1]
            return default
        raise Unsupported(f'ParseResults.{name}')

    def presults_len(self, obj: SV) -> SV:
        return mk_int(len(obj.py.pos))

    def list_equal(self, a: PyList, b: PyList):
        """`xs == ys` for two Python-side lists, segment by segment."""
        sa = a.segs if a.href is None else [self.heap_seg(a.href, a.T)]
        sb = b.segs if b.href is None else [self.heap_seg(b.href, b.T)]
        if len(sa) != len(sb):
            raise Unsupported('== on lists of different segment structure')
        parts = []
        for x, y in zip(sa, sb):
            if x[0] == 'item' and y[0] == 'item':
                parts.append(self.equal(x[1], y[1]))
            elif x[0] == 'comp' and y[0] == 'comp':
                # equal as sequences iff the abstractions coincide (same id, or the Map/Filter
                # congruence lemma identifies their tokens)
                parts.append(self.ctok(x[1]) == self.ctok(y[1]))
            elif x[0] == 'heap' and y[0] == 'heap':
                if x[3].eq(y[3]) and x[4].eq(y[4]):
                    continue
                j = z3.Int('j!le')
                parts.append(z3.And(x[4] == y[4], z3.ForAll([j], z3.Implies(z3.And(0 <= j, j < x[4]), x[3][j] == y[3][j]),
                                                            patterns=[x[3][j]])))
            else:
                raise Unsupported(f'== between list segments {x[0]} and {y[0]}')
        return z3.And(*parts) if parts else z3.BoolVal(True)

    def ctok(self, c):
        return comp_tok(z3.IntVal(c.idx), *self.ctx_args(c))

    def contains(self, container: SV, x: SV):
        """`x in container`"""
        st = self.st
        c = container
        if c.k == 'presults':
            name = self.const_str(x)
            ent = c.py.named.get(name)
            if ent is None:
                return z3.BoolVal(False)
            return ent[0] if not isinstance(ent[0], bool) else z3.BoolVal(ent[0])
        if c.k == 'str':
            return z3.Contains(c.e, self.as_str(x, 'in'))
        if c.k == 'tuple' or (c.k == 'pylist' and c.py.href is None and c.py.all_items()):
            items = c.py if c.k == 'tuple' else c.py.items()
            return z3.Or(*[self.equal(x, y) for y in items]) if items else z3.BoolVal(False)
        if c.k == 'ref' and c.cls == 'dict':
            return st.D_has[c.e][self.key_str(x, 'in')]
        if c.k == 'pylist' and c.py.href is not None:
            c = SV('ref', c.py.href, cls='list', T=c.py.T)
        if c.k == 'ref' and c.cls in ('list', 'tuple'):
            return self.list_contains(c, x)
        if c.k == 'pylist':
            parts = []
            for seg in c.py.segs:
                if seg[0] == 'item':
                    parts.append(self.equal(x, seg[1]))
                elif seg[0] == 'heap':
                    parts.append(self.list_contains(None, x, seg))
                else:
                    raise Unsupported('`in` over a comprehension segment')
            return z3.Or(*parts) if parts else z3.BoolVal(False)
        if c.k == 'val' and c.T is not None:
            alts = [a for a in type_alternatives(c.T) if a[0] != 'none']
            if len(alts) == 1 and alts[0][0] in ('dict', 'list', 'str'):
                if self.decide(c.e == Val.none):
                    raise PyRaise(TypeError, (), '`in` None')
                return self.contains(self.unbox(c.e, alts[0]), x)
            if any(a[0] == 'str' for a in alts):
                if self.in_spec:
                    # specification text does not fork: "is a string that contains x"
                    return z3.And(Val.is_s(c.e), self.contains(mk_str(Val.sv(c.e)), x))
                if self.decide(Val.is_s(c.e)):
                    return self.contains(mk_str(Val.sv(c.e)), x)
        if c.k == 'ref':
            pc = self.reg.pyclass(c.cls)
            f = inspect.getattr_static(pc, '__contains__', None) if pc else None
            if f is not None:
                return self.truthy(self.call_function(f, [c, x], {}, None))
        raise Unsupported(f'`in` on {c.k} {c.cls}')

    def list_contains(self, lst, x: SV, seg=None):
        st = self.st
        if seg is None:
            seg = self.heap_seg(lst.e, lst.T)
        if self.shared.get('bound') is not None:
            items = self.concretize([seg])
            if all(i[0] == 'item' for i in items):
                return z3.Or(*[self.equal(x, i[1]) for i in items]) if items else z3.BoolVal(False)
        j = z3.Int(f'j!c{self.kdepth}')
        self.kdepth += 1
        try:
            el = self.el_view(seg[3][j], seg[2])
            body = self.equal(x, el)
        finally:
            self.kdepth -= 1
        try:
            return z3.Exists([j], z3.And(0 <= j, j < seg[4], body), patterns=[seg[3][j]])
        except z3.Z3Exception:      # the list reference is an if-then-else term: not usable as a trigger
            return z3.Exists([j], z3.And(0 <= j, j < seg[4], body))

    def list_get_q(self, r, j, T) -> SV:
        """Element read under a quantifier: typing comes from list_facts, no path assumptions."""
        return self.el_view(self.st.L_el[r][j], T)

    def el_view(self, e, T) -> SV:
        eT = T[1] if T and T[0] == 'list' else None
        if eT is None:
            return SV('val', e)
        t0 = eT[0]
        if t0 == 'str':
            return mk_str(Val.sv(e))
        if t0 == 'bool':
            return mk_bool(Val.bv(e))
        if t0 == 'int':
            return mk_int(Val.iv(e))
        if t0 == 'obj':
            return SV('ref', Val.rv(e), cls=eT[1])
        if t0 in ('list', 'dict'):
            return SV('ref', Val.rv(e), cls=t0, T=eT)
        return SV('val', e, T=eT)

    # ---------------------------------------------------------------- binders
    def under_binder(self, thunk):
        """Evaluate thunk() with assumptions captured as local hypotheses (quantifier bodies)."""
        st = self.st
        n0 = len(st.pc)
        self.binder = getattr(self, 'binder', 0) + 1
        try:
            v = thunk()
        finally:
            self.binder -= 1
        hyps = st.pc[n0:]
        del st.pc[n0:]
        for h in hyps:
            st.pc_ids.discard(h.get_id())
            st.fact_ids.pop(h.get_id(), None)
        return v, hyps

    # ================================================================ attributes
    def ev_Attribute(self, node, fr):
        obj = self.ev(node.value, fr)
        return self.getattr_sv(obj, node.attr)

    def getattr_sv(self, obj: SV, attr: str) -> SV:
        k = obj.k
        if k == 'ref':
            cls = obj.cls
            if cls in ('list', 'dict', 'tuple'):
                return SV('bm', py=(obj, attr))
            pc = self.reg.pyclass(cls)
            if cls == 'TextIOWrapper' and attr == 'read':
                return SV('bm', py=(SV('file', py=obj), 'read'))
            if pc is not None:
                d = inspect.getattr_static(pc, attr, _MISSING)
                if isinstance(d, property):
                    return self.call_function(d.fget, [obj], {}, None, bound_cls=pc)
                if isinstance(d, types.FunctionType):
                    return SV('bound', py=(obj, d, pc))
                if isinstance(d, classmethod):
                    return SV('bound', py=(const(pc), d.__func__, pc))
                if isinstance(d, staticmethod):
                    return const(d.__func__)
                if d is not _MISSING and self.reg.field_type(cls, attr) is None:
                    if attr == '__class__':
                        return const(pc)
                    return self.lift(d)
            if attr == '__class__' and pc is not None:
                return const(pc)
            if attr == '__dict__':
                return SV('objdict', py=obj)
            return self.read_field(obj.e, cls, attr)
        if k == 'val':
            return self.getattr_val(obj, attr)
        if k == 'str':
            return SV('bm', py=(obj, attr))
        if k == 'pylist' or k == 'tuple':
            return SV('bm', py=(obj, attr))
        if k == 'const':
            o = obj.py
            if inspect.isclass(o):
                d = inspect.getattr_static(o, attr, _MISSING)
                if isinstance(d, classmethod):
                    return SV('bound', py=(obj, d.__func__, o))
                if isinstance(d, staticmethod):
                    return const(d.__func__)
                if isinstance(d, property):
                    raise Unsupported('property on class object')
                if d is _MISSING:
                    raise PyRaise(AttributeError, (), f'{o}.{attr}')
                if isinstance(d, types.FunctionType):
                    return const(d)
                if isinstance(d, dict):
                    return const(d)
                return self.lift(d)
            if isinstance(o, types.ModuleType):
                return self.lift(getattr(o, attr))
            if isinstance(o, dict):
                return SV('bm', py=(obj, attr))
            try:
                return self.lift(getattr(o, attr))
            except AttributeError:
                raise Unsupported(f'attribute {attr} of constant {o!r}')
        if k == 'none':
            raise PyRaise(AttributeError, (), f'None.{attr}')
        if k == 'exc':
            raise Unsupported('attribute of exception')
        if k == 'objdict':
            return SV('bm', py=(obj, attr))
        if k == 'super':
            return self.super_getattr(obj, attr)
        if k in ('presults', 'pgroup', 'pattern', 'file'):
            return SV('bm', py=(obj, attr))
        raise Unsupported(f'attribute {attr} of {k}')

    def getattr_val(self, obj: SV, attr: str) -> SV:
        e = obj.e
        if obj.T is None or obj.T[0] == 'any':
            # dynamic receiver: one of the registered classes that has the attribute
            if self.decide(e == Val.none):
                raise PyRaise(AttributeError, (), f'None.{attr}')
            for cname in sorted(self.reg.fields):
                pc = self.reg.pyclass(cname)
                has = attr in self.reg.fields[cname] or (pc is not None and inspect.getattr_static(pc, attr, _MISSING) is not _MISSING)
                if not has:
                    continue
                if self.decide(z3.And(Val.is_r(e), cls_of(Val.rv(e)) == self.reg.cid(cname))):
                    return self.getattr_sv(SV('ref', Val.rv(e), cls=cname), attr)
            raise PyRaise(AttributeError, (), f'?.{attr}')
        alts = type_alternatives(obj.T)
        for a in alts:
            if a[0] == 'none':
                if self.decide(e == Val.none):
                    raise PyRaise(AttributeError, (), f'None.{attr}')
        rest = [a for a in alts if a[0] != 'none']
        for i, a in enumerate(rest):
            last = i == len(rest) - 1
            if a[0] == 'obj':
                c = z3.And(Val.is_r(e), cls_of(Val.rv(e)) == self.reg.cid(a[1]))
                if (last and self._assume_last(c)) or (not last and self.decide(c)):
                    return self.getattr_sv(SV('ref', Val.rv(e), cls=a[1]), attr)
            elif a[0] in ('list', 'dict'):
                c = z3.And(Val.is_r(e), cls_of(Val.rv(e)) == self.reg.cid(a[0]))
                if (last and self._assume_last(c)) or (not last and self.decide(c)):
                    return self.getattr_sv(self.unbox(e, a), attr)
            elif a[0] == 'str':
                c = Val.is_s(e)
                if (last and self._assume_last(c)) or (not last and self.decide(c)):
                    return self.getattr_sv(mk_str(Val.sv(e)), attr)
            elif a[0] == 'clsobj':
                return SV('symcls', e, py=attr)
            else:
                if last or self.decide(self.conforms(e, a)):
                    raise PyRaise(AttributeError, (), f'{a}.{attr}')
        raise PyRaise(AttributeError, (), f'?.{attr}')

    def _assume_last(self, c) -> bool:
        self.st.fact(c)
        return True

    def super_getattr(self, sup: SV, attr: str) -> SV:
        cur_cls, obj = sup.py
        if obj.k == 'const':
            mro = obj.py.__mro__
            start = mro.index(cur_cls) + 1
        else:
            pc = self.reg.pyclass(obj.cls)
            mro = pc.__mro__
            start = mro.index(cur_cls) + 1
        for klass in mro[start:]:
            if attr in klass.__dict__:
                d = klass.__dict__[attr]
                if isinstance(d, types.FunctionType):
                    return SV('bound', py=(obj, d, klass))
                if isinstance(d, classmethod):
                    return SV('bound', py=(obj if obj.k == 'const' else const(type(obj)), d.__func__, klass))
                if isinstance(d, staticmethod):
                    return const(d.__func__)
                if klass is object:
                    return SV('objmeth', py=(obj, attr))
                return self.lift(d)
        raise PyRaise(AttributeError, (), f'super().{attr}')

    def setattr_sv(self, obj: SV, attr: str, v: SV):
        if obj.k == 'val':
            # resolve the class
            e = obj.e
            alts = [a for a in type_alternatives(obj.T)] if obj.T else []
            if any(a[0] == 'none' for a in alts) and self.decide(e == Val.none):
                raise PyRaise(AttributeError, (), f'None.{attr} =')
            objs = [a for a in alts if a[0] == 'obj']
            if len(objs) == 1:
                obj = SV('ref', Val.rv(e), cls=objs[0][1])
            elif len(objs) > 1:
                chosen = None
                for a in objs:
                    if self.decide(z3.And(Val.is_r(e), cls_of(Val.rv(e)) == self.reg.cid(a[1]))):
                        chosen = a
                        break
                if chosen is None:
                    raise PyRaise(AttributeError, (), f'cannot set attribute {attr}')
                obj = SV('ref', Val.rv(e), cls=chosen[1])
            elif obj.T and obj.T[0] == 'any':
                # store through an untyped reference (Note.parent etc.): needs the dynamic class
                raise Unsupported(f'store to attribute {attr} of an untyped value')
            else:
                raise Unsupported(f'store to attribute {attr} of {obj.T}')
        if obj.k != 'ref':
            raise Unsupported(f'setattr on {obj.k}')
        pc = self.reg.pyclass(obj.cls)
        if pc is not None:
            d = inspect.getattr_static(pc, attr, _MISSING)
            if isinstance(d, property):
                if d.fset is None:
                    raise PyRaise(AttributeError, (), f'{attr} has no setter')
                self.call_function(d.fset, [obj, v], {}, None, bound_cls=pc)
                return
            sa = inspect.getattr_static(pc, '__setattr__', None)
            if sa is not None and sa is not object.__setattr__ and not self.reg.setattr_passthrough(pc):
                raise Unsupported(f'{obj.cls}.__setattr__ is not the verified pass-through')
        self.write_field(obj.e, obj.cls, attr, v)

    # ================================================================ subscripts
    def ev_Subscript(self, node, fr):
        obj = self.ev(node.value, fr)
        if isinstance(node.slice, ast.Slice):
            lo = self.ev(node.slice.lower, fr) if node.slice.lower is not None else None
            hi = self.ev(node.slice.upper, fr) if node.slice.upper is not None else None
            if node.slice.step is not None:
                raise Unsupported('slice step')
            return self.get_slice(obj, lo, hi)
        idx = self.ev(node.slice, fr)
        return self.getitem(obj, idx)

    def get_slice(self, obj: SV, lo, hi) -> SV:
        if obj.k == 'val' and obj.T is not None and any(a[0] == 'str' for a in type_alternatives(obj.T)):
            obj = mk_str(self.as_str(obj, 'slice'))
        if obj.k == 'str':
            n = z3.Length(obj.e)
            lo_e = self.clip(self.as_int(lo), n) if lo is not None else z3.IntVal(0)
            hi_e = self.clip(self.as_int(hi), n) if hi is not None else n
            return mk_str(z3.SubString(obj.e, lo_e, z3.If(hi_e - lo_e < 0, 0, hi_e - lo_e)))
        if obj.k in ('tuple',) or (obj.k == 'pylist' and obj.py.all_items() and obj.py.href is None):
            items = obj.py if obj.k == 'tuple' else obj.py.items()
            lo_c = self.concrete_int(lo) if lo is not None else None
            hi_c = self.concrete_int(hi) if hi is not None else None
            out = items[lo_c:hi_c]
            return SV('tuple', py=out) if obj.k == 'tuple' else SV('pylist', py=PyList([('item', x) for x in out]))
        if obj.k == 'pylist' and obj.py.href is not None:
            obj = SV('ref', obj.py.href, cls='list', T=obj.py.T)
        if obj.k == 'ref' and obj.cls == 'list':
            st = self.st
            n = st.L_len[obj.e]
            lo_e = self.clip(self.as_int(lo), n) if lo is not None else z3.IntVal(0)
            hi_e = self.clip(self.as_int(hi), n) if hi is not None else n
            length = z3.If(hi_e - lo_e < 0, 0, hi_e - lo_e)
            K = z3.Int(f'k!{self.kdepth}')
            c = self.make_slice_comp(obj, lo_e, length)
            return SV('pylist', py=PyList([('comp', c)], T=obj.T))
        raise Unsupported(f'slice of {obj.k}')

    def clip(self, i, n):
        i2 = z3.If(i < 0, i + n, i)
        return z3.If(i2 < 0, 0, z3.If(i2 > n, n, i2))

    def concrete_int(self, v: SV) -> int:
        e = z3.simplify(self.as_int(v))
        if z3.is_int_value(e):
            return e.as_long()
        raise Unsupported('symbolic index into a Python-side sequence')

    def getitem(self, obj: SV, idx: SV) -> SV:
        st = self.st
        k = obj.k
        if k == 'tuple' or (k == 'pylist' and obj.py.href is None and obj.py.all_items()):
            items = obj.py if k == 'tuple' else obj.py.items()
            i = self.concrete_int(idx)
            if not -len(items) <= i < len(items):
                raise PyRaise(IndexError, (), 'tuple index')
            return items[i]
        if k == 'pylist':
            if obj.py.href is None:
                segs = obj.py.segs
                if len(segs) == 1 and segs[0][0] == 'heap':
                    sg = segs[0]
                    i = self.norm_index(self.as_int(idx), sg[4], IndexError, 'list index out of range')
                    T = sg[2]
                    return self.unbox(sg[3][i], T[1] if T and T[0] == 'list' else None)
                # first element of a non-empty segment list
                ci = z3.simplify(self.as_int(idx))
                if z3.is_int_value(ci) and ci.as_long() == 0 and segs and segs[0][0] == 'item':
                    return segs[0][1]
                self.lower_list(obj.py)
            obj = SV('ref', obj.py.href, cls='list', T=obj.py.T)
            k = 'ref'
        if k == 'ref' and obj.cls in ('list', 'tuple'):
            n = st.L_len[obj.e]
            i = self.norm_index(self.as_int(idx), n, IndexError, 'list index out of range')
            return self.list_get(obj.e, i, obj.T)
        if k == 'ref' and obj.cls == 'dict':
            ks = self.key_str(idx, 'subscript')
            if not self.decide(st.D_has[obj.e][ks]):
                raise PyRaise(KeyError, (idx,), 'dict key')
            return self.dict_get(obj.e, ks, obj.T)
        if k == 'str':
            n = z3.Length(obj.e)
            i = self.norm_index(self.as_int(idx), n, IndexError, 'string index out of range')
            return mk_str(z3.SubString(obj.e, i, 1))
        if k == 'ref':
            pc = self.reg.pyclass(obj.cls)
            f = inspect.getattr_static(pc, '__getitem__', None) if pc else None
            if f is not None:
                return self.call_function(f, [obj, idx], {}, None, bound_cls=pc)
        if k == 'val' and obj.T is not None:
            alts = [a for a in type_alternatives(obj.T) if a[0] != 'none']
            if any(a[0] == 'none' for a in type_alternatives(obj.T)) and self.decide(obj.e == Val.none):
                raise PyRaise(TypeError, (), 'None is not subscriptable')
            if len(alts) == 1:
                return self.getitem(self.unbox(obj.e, alts[0]), idx)
            for a in alts:
                if a[0] in ('list', 'dict') and self.decide(z3.And(Val.is_r(obj.e), cls_of(Val.rv(obj.e)) == self.reg.cid(a[0]))):
                    return self.getitem(self.unbox(obj.e, a), idx)
                if a[0] == 'obj' and self.decide(z3.And(Val.is_r(obj.e), cls_of(Val.rv(obj.e)) == self.reg.cid(a[1]))):
                    return self.getitem(SV('ref', Val.rv(obj.e), cls=a[1]), idx)
            raise PyRaise(TypeError, (), 'object is not subscriptable')
        if k == 'const' and isinstance(obj.py, dict):
            if idx.k == 'const':
                if idx.py in obj.py:
                    return self.lift(obj.py[idx.py])
                raise PyRaise(KeyError, (), 'const dict')
            if idx.k == 'str':
                # dispatch over the literal keys
                for key, val in obj.py.items():
                    if isinstance(key, str) and self.decide(idx.e == SVAL(key)):
                        return self.lift(val)
                raise PyRaise(KeyError, (idx,), 'literal dict')
        if k in ('presults', 'pgroup'):
            return self.presults_getitem(obj, idx)
        raise Unsupported(f'subscript of {k} {obj.cls}')

    # ================================================================ calls
    def ev_Call(self, node, fr):
        # super() needs the lexical class
        if isinstance(node.func, ast.Name) and node.func.id == 'super' and not node.args:
            selfv = fr.lookup('self') or fr.lookup('cls')
            if selfv is None or fr.cls is None:
                raise Unsupported('super() outside a method')
            return SV('super', py=(fr.cls, selfv))
        # spec-only special forms that must see the AST
        if isinstance(node.func, ast.Name) and fr.lookup(node.func.id) is None:
            nm = node.func.id
            if nm == 'old' and (nm not in fr.globals
                                or getattr(fr.globals[nm], '__module__', '') == 'pyvc.speclib'):
                return self.ev_old(node, fr)
        f = self.ev(node.func, fr)
        args: List[SV] = []
        for a in node.args:
            if isinstance(a, ast.Starred):
                v = self.ev(a.value, fr)
                segs = self.segments(v)
                if not all(s[0] == 'item' for s in segs):
                    raise Unsupported('*args over a symbolic-length sequence')
                args.extend(s[1] for s in segs)
            else:
                args.append(self.ev_arg(a, fr))
        kwargs: Dict[str, SV] = {}
        dstar = None
        for kw in node.keywords:
            if kw.arg is None:
                dstar = self.ev(kw.value, fr)
            else:
                kwargs[kw.arg] = self.ev_arg(kw.value, fr)
        if dstar is not None:
            kwargs['**'] = dstar
        return self.call_sv(f, args, kwargs, fr)

    def ev_arg(self, a, fr):
        if isinstance(a, (ast.GeneratorExp,)):
            return SV('gen', py=Gen(a, fr, None))
        return self.ev(a, fr)

    def ev_old(self, node, fr):
        if self.old_heap is None:
            raise Unsupported('old() outside a postcondition')
        cur = self.st.heap
        curw = self.st.written
        self.st.heap = dict(self.old_heap)
        try:
            v = self.ev(node.args[0], fr)
            # a heap list / dict read in the old state is returned as a snapshot of that state
            if v.k == 'ref' and v.cls in ('list', 'tuple'):
                return SV('pylist', py=PyList([self.heap_seg(v.e, v.T)], T=v.T))
            if v.k == 'ref' and v.cls == 'dict':
                return SV('dictsnap', py=self.dict_seg('dictitems', v.e, v.T))
            return v
        finally:
            self.st.heap = cur
            self.st.written = curw

    def call_sv(self, f: SV, args: List[SV], kwargs: Dict[str, SV], fr) -> SV:
        k = f.k
        if k == 'bound':
            selfv, fn, klass = f.py
            return self.call_function(fn, [selfv] + args, kwargs, fr, bound_cls=klass)
        if k == 'bm':
            return self.call_builtin_method(f.py[0], f.py[1], args, kwargs)
        if k == 'closure':
            return self.call_closure(f.py, args, kwargs)
        if k == 'const':
            o = f.py
            h = BUILTIN_HANDLERS.get(id(o))
            if h is not None and BUILTIN_OBJS[id(o)] is o:
                return h(self, args, kwargs, fr)
            if inspect.isclass(o):
                return self.instantiate(o, args, kwargs, fr)
            if isinstance(o, types.FunctionType):
                return self.call_function(o, args, kwargs, fr)
            if isinstance(o, types.MethodType):
                return self.call_function(o.__func__, [self.lift(o.__self__)] + args, kwargs, fr)
            if isinstance(o, (staticmethod, classmethod)):
                raise Unsupported('raw descriptor call')
            raise Unsupported(f'call of constant {o!r}')
        if k == 'symcls':
            return self.call_symbolic_class_method(f, args, kwargs)
        if k == 'objmeth':
            obj, name = f.py
            if name == '__setattr__':
                an = args[0]
                s = z3.simplify(an.e) if an.k == 'str' else None
                if s is None or not z3.is_string_value(s):
                    raise Unsupported('object.__setattr__ with symbolic name')
                self.write_field(obj.e, obj.cls, s.as_string(), args[1])
                return NONE
            if name == '__new__':
                return self.alloc_object(args[0].py.__name__)
            if name == '__init__':
                return NONE
            raise Unsupported(f'object.{name}')
        raise Unsupported(f'call of {k}')

    def bind_args(self, fnnode, fn, args, kwargs, closure_defaults=None):
        a = fnnode.args
        names = [x.arg for x in a.posonlyargs + a.args]
        locs: Dict[str, SV] = {}
        if len(args) > len(names) and a.vararg is None:
            raise PyRaise(TypeError, (), 'too many positional arguments')
        for n, v in zip(names, args):
            locs[n] = v
        if a.vararg is not None:
            locs[a.vararg.arg] = SV('tuple', py=list(args[len(names):]))
        kw = dict(kwargs)
        dstar = kw.pop('**', None)
        kwonly = [x.arg for x in a.kwonlyargs]
        for n, v in kw.items():
            if n in locs:
                raise PyRaise(TypeError, (), f'multiple values for {n}')
            if n not in names and n not in kwonly:
                if a.kwarg is None:
                    raise PyRaise(TypeError, (), f'unexpected keyword {n}')
                raise Unsupported('**kwargs parameter')
            locs[n] = v
        # defaults (evaluated natively at definition time: read them from the live function)
        defaults = {}
        if fn is not None:
            d = fn.__defaults__ or ()
            for n, v in zip(names[len(names) - len(d):], d):
                defaults[n] = v
            defaults.update(fn.__kwdefaults__ or {})
        elif closure_defaults is not None:
            defaults = closure_defaults
        missing = [n for n in names + kwonly if n not in locs]
        if dstar is not None:
            self.bind_dstar(dstar, missing, locs, defaults, names + kwonly)
            missing = [n for n in names + kwonly if n not in locs]
        for n in missing:
            if n in defaults:
                dv = defaults[n]
                locs[n] = dv if isinstance(dv, SV) else self.lift(dv)
            else:
                raise PyRaise(TypeError, (), f'missing argument {n}')
        return locs

    def bind_dstar(self, d: SV, missing, locs, defaults, allnames):
        """f(**d) with d a heap dict with string keys."""
        if not (d.k == 'ref' and d.cls == 'dict'):
            raise Unsupported('** of a non-dict')
        st = self.st
        r = d.e
        # every key must be a parameter name, and not already bound
        lit = self.dict_literal_keys(r)
        if lit is not None:
            # the dict was built in this call from literal keys: check them one by one
            for kname in lit:
                if kname not in missing:
                    if self.decide(st.D_has[r][SVAL(kname)]):
                        raise PyRaise(TypeError, (), f'unexpected or repeated keyword argument {kname!r} from **dict')
        else:
            kq = z3.String('k!d')
            ok = z3.ForAll([kq], z3.Implies(st.D_has[r][kq], z3.Or(*[kq == SVAL(n) for n in missing]) if missing else z3.BoolVal(False)))
            if not self.decide(ok):
                raise PyRaise(TypeError, (), 'unexpected keyword argument from **dict')
        for n in missing:
            has = z3.simplify(st.D_has[r][SVAL(n)])
            if n in defaults:
                dv = defaults[n]
                dsv = dv if isinstance(dv, SV) else self.lift(dv)
                if z3.is_true(has):
                    locs[n] = self.dict_get(r, SVAL(n), d.T)
                elif z3.is_false(has):
                    locs[n] = dsv
                else:
                    # one path: the entry if present, else the default
                    try:
                        locs[n] = SV('val', z3.If(has, st.D_val[r][SVAL(n)], self.box(dsv)), T=('any',))
                    except Unsupported:
                        present = self.decide(has)
                        locs[n] = self.dict_get(r, SVAL(n), d.T) if present else dsv
            else:
                if not self.decide(has):
                    raise PyRaise(TypeError, (), f'missing argument {n}')
                locs[n] = self.dict_get(r, SVAL(n), d.T)

    def dict_literal_keys(self, r):
        """Literal keys of a dict whose membership array is a chain of stores at string literals over
        the empty dict; None if the dict is not of that shape."""
        cur = self.peel_arr(self.st.D_has, r)
        keys = []
        while z3.is_app(cur) and cur.decl().kind() == z3.Z3_OP_STORE:
            k = cur.arg(1)
            if not z3.is_string_value(k):
                return None
            keys.append(k.as_string())
            cur = cur.arg(0)
        if z3.is_app(cur) and cur.decl().kind() == z3.Z3_OP_CONST_ARRAY:
            return list(dict.fromkeys(keys))
        return None

    def peel_arr(self, arr, r):
        """the inner array stored for object r (like peel, but returns the array term itself)"""
        cur = arr
        while True:
            if z3.is_app(cur) and cur.decl().kind() == z3.Z3_OP_STORE:
                idx = cur.arg(1)
                if idx.eq(r):
                    return cur.arg(2)
                if self.provably_distinct(r, idx):
                    cur = cur.arg(0)
                    continue
                break
            prev = self.through_havoc(cur, r)
            if prev is None:
                break
            cur = prev
        return cur[r]

    def call_closure(self, c: Closure, args, kwargs) -> SV:
        node = c.node
        locs = self.bind_args(node, None, args, kwargs, closure_defaults={})
        fr = Frame(c.env.globals if c.env else {}, locs, c.env, c.qual, c.env.cls if c.env else None)
        if isinstance(node, ast.Lambda):
            return self.ev(node.body, fr)
        return self.run_body(node.body, fr)

    def run_body(self, body, fr) -> SV:
        try:
            self.exec_block(body, fr)
        except ReturnEx as r:
            return r.value
        return NONE

    def call_function(self, fn, args, kwargs, fr, bound_cls=None) -> SV:
        fn = inspect.unwrap(fn)
        if not isinstance(fn, types.FunctionType):
            h = BUILTIN_HANDLERS.get(id(fn))
            if h is not None:
                return h(self, args, kwargs, fr)
            raise Unsupported(f'call of non-Python function {fn!r}')
        ab = getattr(fn, '_pyvc_abstract', None)
        if ab is not None:
            return self.call_abstract(ab, args)
        qual = qualname_of(fn)
        con = self.reg.contracts.get(qual)
        if con is not None and qual != self.top_target and not getattr(con, 'inline', False) and not self.in_spec_inline(con):
            ap = getattr(con, 'applies', None)
            if ap is None or ap(args):
                return self.apply_contract(con, fn, args, kwargs, bound_cls)
        path = fn.__code__.co_filename
        if not (path.startswith(self.reg.repo_root) or path.startswith(self.reg.verif_root)):
            raise Unsupported(f'call into external code {qual}')
        if self.depth > self.MAX_DEPTH:
            raise Unsupported('inlining depth exceeded (recursion?)')
        node = func_ast(fn)
        locs = self.bind_args(node, fn, args, kwargs)
        klass = bound_cls or self.reg.class_of_function(fn)
        nfr = Frame(fn.__globals__, locs, None, qual, klass)
        if path.startswith(self.reg.repo_root):
            self.shared['inlined'].add(qual)
        self.depth += 1
        spec_before = self.in_spec
        if path.startswith(self.reg.verif_root):
            self.in_spec += 1
        try:
            if isinstance(node, ast.Lambda):
                return self.ev(node.body, nfr)
            return self.run_body(node.body, nfr)
        finally:
            self.depth -= 1
            self.in_spec = spec_before

    def heap_version(self):
        """An integer identifying the current heap state (same arrays -> same number)."""
        def base(v):
            # stores at objects allocated during this call do not change what pre-existing objects
            # look like: strip them (outermost first)
            while z3.is_app(v) and v.decl().kind() == z3.Z3_OP_STORE and \
                    (self.fresh_offset(v.arg(1)) is not None or self.is_elem_ref(v.arg(1))):
                v = v.arg(0)
            return v
        items = []
        for k, v in self.st.heap.items():
            b = base(v)
            if z3.is_const(b) and b.decl().name() == k + '@0':
                continue
            items.append((k, b.get_id()))
        key = tuple(sorted(items))
        tab = self.shared.setdefault('heap_versions', {})
        if key not in tab:
            tab[key] = (len(tab) + 1, dict(self.st.heap))      # keep the ASTs alive
        return z3.IntVal(tab[key][0])

    def call_abstract(self, ab, args) -> SV:
        name, ret = ab[0], ab[1]
        heap = ab[2] if len(ab) > 2 else True
        T = parse_type(ret)
        sort = {'str': S, 'bool': B, 'int': I}.get(T[0], Val)
        f = z3.Function('abs:' + name, *([Val] * len(args)), I, sort)
        e = f(*[z3.simplify(self.box(a)) for a in args], self.heap_version() if heap else z3.IntVal(0))
        if T[0] == 'str':
            return mk_str(e)
        if T[0] == 'bool':
            return mk_bool(e)
        if T[0] == 'int':
            return mk_int(e)
        return self.unbox(e, T)

    def call_symbolic_class_method(self, f: SV, args, kwargs) -> SV:
        """`R.render(x)` where R is a class *value* (the renderer class a database is configured with): nothing is
        known about what an arbitrary renderer class does, so the result is named by the abstract function
        render_via(R, x) — a function of the class value, the argument and the heap.  Assumed (A-RENDERER): a
        renderer class's `render` does not modify the model (C16.B.purity checks the default ones)."""
        if kwargs or f.py != 'render' or len(args) != 1:
            raise Unsupported(f'call of {f.py} on a symbolic class')
        self.st.notes.append('A-RENDERER: render of a configured (symbolic) renderer class is an uninterpreted pure '
                             'function render_via(class, model, heap)')
        return self.call_abstract(('render_via', 'str', True), [SV('val', f.e, T=('clsobj',)), args[0]])

    def box_source(self, src: SV):
        return self.box(src)

    def in_spec_inline(self, con) -> bool:
        return False

    # ---------------------------------------------------------------- classes
    def instantiate(self, klass, args, kwargs, fr) -> SV:
        if issubclass(klass, BaseException):
            return SV('exc', py=(klass, args))
        if klass in (str, int, bool, list, dict, tuple, float, type, object):
            raise Unsupported(f'builtin type call {klass} not handled')
        name = klass.__name__
        if dataclasses.is_dataclass(klass) and '__init__' in klass.__dict__ and \
                getattr(klass.__init__, '__qualname__', '').endswith('__init__') and \
                klass.__init__.__code__.co_filename == '<string>':
            return self.instantiate_dataclass(klass, args, kwargs)
        new = inspect.getattr_static(klass, '__new__')
        if new is not object.__new__ and not isinstance(new, (types.BuiltinFunctionType,)):
            f = new.__func__ if isinstance(new, staticmethod) else new
            if isinstance(f, types.FunctionType):
                return self.call_function(f, [const(klass)] + args, kwargs, fr, bound_cls=klass)
        obj = self.alloc_object(name)
        init = inspect.getattr_static(klass, '__init__', None)
        if isinstance(init, types.FunctionType):
            self.call_function(init, [obj] + args, kwargs, fr, bound_cls=self.reg.class_of_function(init))
        return obj

    def instantiate_dataclass(self, klass, args, kwargs) -> SV:
        name = klass.__name__
        flds = [f for f in dataclasses.fields(klass) if f.init]
        names = [f.name for f in flds]
        defaults = {}
        for f in flds:
            if f.default is not dataclasses.MISSING:
                defaults[f.name] = f.default
            elif f.default_factory is not dataclasses.MISSING:
                raise Unsupported('dataclass default_factory')
        fake = ast.parse('def __init__(self, ' + ', '.join(names) + '): pass').body[0]
        fake.args.args = fake.args.args[1:]
        locs = self.bind_args(fake, None, args, kwargs, closure_defaults=defaults)
        obj = self.alloc_object(name)
        for n in names:
            self.write_field(obj.e, name, n, locs[n])
        return obj

    # ================================================================ statements
    def exec_block(self, stmts, fr):
        for s in stmts:
            m = getattr(self, 'ex_' + s.__class__.__name__, None)
            if m is None:
                raise Unsupported(f'statement {s.__class__.__name__}')
            m(s, fr)

    def ex_Expr(self, s, fr):
        if isinstance(s.value, ast.Constant):
            return
        self.ev(s.value, fr)

    def ex_Pass(self, s, fr):
        pass

    def ex_Return(self, s, fr):
        raise ReturnEx(self.ev(s.value, fr) if s.value is not None else NONE)

    def ex_Break(self, s, fr):
        raise BreakEx()

    def ex_Continue(self, s, fr):
        raise ContinueEx()

    def ex_Assign(self, s, fr):
        v = self.ev(s.value, fr)
        for t in s.targets:
            self.assign(t, v, fr)

    def ex_AnnAssign(self, s, fr):
        if s.value is None:
            return
        v = self.ev(s.value, fr)
        # an annotated *fresh, empty* container takes the annotated element type: later stores are
        # checked against it (type:* obligations) and reads may rely on it
        T = annotation_type(s.annotation)
        if T is not None:
            if v.k == 'ref' and v.cls == 'dict' and v.T is None and T[0] == 'dict' and self.is_fresh(v.e) \
                    and z3.is_int_value(z3.simplify(self.st.D_n[v.e])):
                v = SV('ref', v.e, cls='dict', T=T)
            elif v.k == 'pylist' and v.py.T is None and T[0] == 'list' and not v.py.segs:
                v.py.T = T
        self.assign(s.target, v, fr)

    def ex_AugAssign(self, s, fr):
        t = s.target
        if isinstance(t, ast.Name):
            cur = self.ev(t, fr)
        elif isinstance(t, ast.Attribute):
            cur = self.ev(t, fr)
        elif isinstance(t, ast.Subscript):
            cur = self.ev(t, fr)
        else:
            raise Unsupported('augmented assignment target')
        v = self.ev(s.value, fr)
        if isinstance(s.op, ast.Add) and cur.k == 'pylist':
            self.call_builtin_method(cur, 'extend', [v], {})
            return
        self.assign(t, self.binop(s.op, cur, v), fr)

    def assign(self, t, v: SV, fr):
        if isinstance(t, ast.Name):
            fr.locals[t.id] = v
        elif isinstance(t, ast.Attribute):
            self.setattr_sv(self.ev(t.value, fr), t.attr, v)
        elif isinstance(t, ast.Subscript):
            obj = self.ev(t.value, fr)
            if isinstance(t.slice, ast.Slice):
                raise Unsupported('slice assignment')
            idx = self.ev(t.slice, fr)
            self.setitem(obj, idx, v)
        elif isinstance(t, (ast.Tuple, ast.List)):
            items = self.unpack(v, len(t.elts))
            for e, x in zip(t.elts, items):
                self.assign(e, x, fr)
        else:
            raise Unsupported('assignment target')

    def unpack(self, v: SV, n: int) -> List[SV]:
        if v.k == 'tuple':
            if len(v.py) != n:
                raise PyRaise(ValueError, (), 'unpack arity')
            return v.py
        if v.k == 'pylist' and v.py.href is None and v.py.all_items():
            if len(v.py.segs) != n:
                raise PyRaise(ValueError, (), 'unpack arity')
            return v.py.items()
        if v.k == 'pylist':
            self.lower_list(v.py)
            v = SV('ref', v.py.href, cls='list', T=v.py.T)
        if v.k == 'ref' and v.cls in ('list', 'tuple'):
            ln = self.st.L_len[v.e]
            if not self.decide(ln == n):
                raise PyRaise(ValueError, (), 'unpack arity')
            return [self.list_get(v.e, z3.IntVal(i), v.T) for i in range(n)]
        if v.k == 'pgroup':
            return self.pgroup_unpack(v, n)
        if v.k == 'val' and v.T is not None and v.T[0] != 'any':
            # a boxed value of a union type: the list alternative the path condition leaves possible
            for a in type_alternatives(v.T):
                if a[0] == 'list' and self.decide(z3.And(Val.is_r(v.e), cls_of(Val.rv(v.e)) == self.reg.cid('list'))):
                    return self.unpack(self.unbox(v.e, a), n)
            raise PyRaise(TypeError, (), 'cannot unpack non-iterable value')
        raise Unsupported(f'unpack {v.k}')

    def setitem(self, obj: SV, idx: SV, v: SV):
        if obj.k == 'ref' and obj.cls == 'dict':
            self.dict_set(obj.e, self.key_str(idx, 'store'), v, obj.T)
            return
        if obj.k == 'const' and isinstance(obj.py, dict):
            raise Unsupported('store into a module-level dict')
        raise Unsupported(f'subscript store on {obj.k} {obj.cls}')

    def ev_cond(self, node, fr):
        """Truth value of a test expression as one formula (boolean operators do not fork)."""
        self.in_spec += 1
        try:
            return self.truthy(self.ev(node, fr))
        finally:
            self.in_spec -= 1

    def optional_append(self, s, fr):
        """`if c: xs.append(e)` on a local list: one path with a conditional element."""
        if s.orelse or len(s.body) != 1 or not isinstance(s.body[0], ast.Expr):
            return False
        call = s.body[0].value
        if not (isinstance(call, ast.Call) and isinstance(call.func, ast.Attribute) and call.func.attr == 'append'
                and isinstance(call.func.value, ast.Name) and len(call.args) == 1 and not call.keywords):
            return False
        lst = fr.lookup(call.func.value.id)
        if lst is None or lst.k != 'pylist' or lst.py.href is not None:
            return False
        c = z3.simplify(self.ev_cond(s.test, fr))
        if z3.is_true(c) or z3.is_false(c):
            return False
        if getattr(self, 'binder', 0):
            return False
        try:
            item = self.with_assumption(c, lambda: self.ev(call.args[0], fr))
        except Infeasible:
            return True
        lst.py.segs.append(('opt', c, item))
        return True

    def optional_setitem(self, s, fr):
        """`if c: d['lit'] = e` on a dict allocated in this call: one path with a conditional entry."""
        if s.orelse or len(s.body) != 1 or not isinstance(s.body[0], ast.Assign):
            return False
        a = s.body[0]
        if len(a.targets) != 1 or not isinstance(a.targets[0], ast.Subscript):
            return False
        t = a.targets[0]
        if not (isinstance(t.value, ast.Name) and isinstance(t.slice, ast.Constant) and isinstance(t.slice.value, str)):
            return False
        d = fr.lookup(t.value.id)
        if d is None or d.k != 'ref' or d.cls != 'dict' or not self.is_fresh(d.e) or getattr(self, 'binder', 0):
            return False
        if getattr(self, 'dict_log', None):
            return False
        c = z3.simplify(self.ev_cond(s.test, fr))
        if z3.is_true(c) or z3.is_false(c):
            return False
        try:
            v = self.with_assumption(c, lambda: self.ev(a.value, fr))
        except Infeasible:
            return True
        except PyRaise:
            return False           # let the ordinary (forking) execution deal with it
        st = self.st
        r = d.e
        key = SVAL(t.slice.value)
        try:
            b = self.box(v)
        except Unsupported:
            return False
        had = st.D_has[r][key]
        n = st.D_n[r]
        keys0 = st.D_key[r]
        keys1 = st.fresh('keys', KeyArr)
        n1 = st.fresh('n', I)
        new = z3.And(c, z3.Not(had))
        st.fact(z3.Implies(z3.Not(new), z3.And(keys1 == keys0, n1 == n)))
        st.fact(z3.Implies(new, z3.And(keys1 == z3.Store(keys0, n, key), n1 == n + 1)))
        st.set_arr('D_key', z3.Store(st.D_key, r, keys1), r)
        st.set_arr('D_n', z3.Store(st.D_n, r, n1), r)
        st.set_arr('D_has', z3.Store(st.D_has, r, z3.Store(st.D_has[r], key, z3.Or(had, c))), r)
        st.set_arr('D_val', z3.Store(st.D_val, r, z3.Store(st.D_val[r], key, z3.If(c, b, st.D_val[r][key]))), r)
        return True

    def ex_If(self, s, fr):
        if self.optional_append(s, fr):
            return
        if self.optional_setitem(s, fr):
            return
        c = self.ev_cond(s.test, fr)
        if self.decide(c):
            self.exec_block(s.body, fr)
        else:
            self.exec_block(s.orelse, fr)

    def ex_Raise(self, s, fr):
        if s.exc is None:
            raise Unsupported('bare raise')
        if isinstance(s.exc, ast.Call) and not s.exc.keywords:
            # raise X(<message>): the message is not evaluated (assumption A-MSG: formatting an
            # error message is total and has no effect)
            f = self.ev(s.exc.func, fr)
            if f.k == 'const' and inspect.isclass(f.py) and issubclass(f.py, BaseException):
                raise PyRaise(f.py, (), fr.qual)
        e = self.ev(s.exc, fr)
        if e.k == 'exc':
            raise PyRaise(e.py[0], e.py[1], fr.qual)
        if e.k == 'const' and inspect.isclass(e.py) and issubclass(e.py, BaseException):
            raise PyRaise(e.py, (), fr.qual)
        raise Unsupported('raise of a non-exception value')

    def ex_Try(self, s, fr):
        if s.finalbody:
            raise Unsupported('try/finally')
        try:
            self.exec_block(s.body, fr)
        except PyRaise as e:
            for h in s.handlers:
                if h.type is None:
                    match = True
                else:
                    tv = self.ev(h.type, fr)
                    classes = [x.py for x in tv.py] if tv.k == 'tuple' else [tv.py]
                    match = any(issubclass(e.exc_cls, c) for c in classes)
                if match:
                    if h.name:
                        fr.locals[h.name] = SV('exc', py=(e.exc_cls, e.args_sv))
                    self.exec_block(h.body, fr)
                    return
            raise
        else:
            self.exec_block(s.orelse, fr)

    def ex_FunctionDef(self, s, fr):
        fr.locals[s.name] = SV('closure', py=Closure(s, fr, qual=fr.qual + '.' + s.name))

    def ex_ImportFrom(self, s, fr):
        import importlib
        if s.level:
            raise Unsupported('relative import inside function')
        mod = importlib.import_module(s.module)
        for a in s.names:
            fr.locals[a.asname or a.name] = self.lift(getattr(mod, a.name))

    def ex_Import(self, s, fr):
        import importlib
        for a in s.names:
            fr.locals[a.asname or a.name.split('.')[0]] = const(importlib.import_module(a.name.split('.')[0]))

    def ex_Assert(self, s, fr):
        c = self.ev(s.test, fr)
        if not self.decide(self.truthy(c)):
            raise PyRaise(AssertionError, (), fr.qual)

    def ex_With(self, s, fr):
        if len(s.items) != 1:
            raise Unsupported('with: several items')
        item = s.items[0]
        cm = self.ev(item.context_expr, fr)
        if cm.k != 'file':
            raise Unsupported('with on a non-file')
        if item.optional_vars is not None:
            self.assign(item.optional_vars, cm, fr)
        self.exec_block(s.body, fr)

    def ex_For(self, s, fr):
        it = self.ev(s.iter, fr)
        segs = self.segments(it)
        spec = self.loop_spec_for(s, fr)
        if spec is not None and any(sg[0] != 'item' for sg in segs):
            if len(segs) != 1:
                raise Unsupported('loop with an invariant over a sequence of several segments')
            return self.loop_by_invariant(s, segs[0], fr, spec)
        broke = False
        try:
            for seg in segs:
                if seg[0] == 'item':
                    self.assign(s.target, seg[1], fr)
                    try:
                        self.exec_block(s.body, fr)
                    except ContinueEx:
                        pass
                else:
                    self.loop_symbolic(s, seg, fr)
        except BreakEx:
            broke = True
        if not broke:
            self.exec_block(s.orelse, fr)

    def loop_spec_for(self, s, fr):
        """the (ordinal, invariant, modifies) a contract gives for this `for` statement of the function under
        verification itself (loops of inlined callees and of spec code never have one)"""
        specs = self.shared.get('loop_specs')
        if not specs or self.in_spec or getattr(fr, 'qual', None) != self.top_target:
            return None
        return specs.get((s.lineno, s.col_offset))

    def loop_by_invariant(self, s, seg, fr, spec):
        raise Unsupported('loop invariants need pyvc.verify')

    def ex_While(self, s, fr):
        raise Unsupported('while loop')

    def ex_Global(self, s, fr):
        raise Unsupported('global statement')

    def ex_Delete(self, s, fr):
        from .builtins import call_builtin_method
        for t in s.targets:
            if isinstance(t, ast.Name):
                if t.id not in fr.locals:
                    raise PyRaise(UnboundLocalError, (), t.id)
                del fr.locals[t.id]
            elif isinstance(t, ast.Subscript) and not isinstance(t.slice, ast.Slice):
                obj = self.ev(t.value, fr)
                idx = self.ev(t.slice, fr)
                if obj.k == 'pylist' or (obj.k == 'ref' and obj.cls == 'list'):
                    # del xs[i] is xs.pop(i) with the element dropped
                    call_builtin_method(self, obj, 'pop', [idx], {})
                else:
                    raise Unsupported('del of a non-list element')
            else:
                raise Unsupported('del statement form')

    # ================================================================ symbolic iteration
    def seg_length(self, seg):
        k = seg[0]
        if k == 'heap':
            return seg[4]
        if k in ('dictkeys', 'dictitems', 'dictvalues'):
            return seg[6]
        if k == 'comp':
            return seg[1].length
        if k == 'enum':
            return self.seg_length(seg[1])
        if k == 'range':
            return seg[1]
        raise Unsupported(f'segment {k}')

    def seg_element(self, seg, K) -> SV:
        """Generic element number K of a symbolic segment (typed view; adds typing facts)."""
        st = self.st
        kind = seg[0]
        if kind == 'heap':
            T = seg[2]
            eT = T[1] if T and T[0] == 'list' else None
            return self.unbox(seg[3][K], eT)
        if kind in ('dictkeys', 'dictitems', 'dictvalues'):
            _, r, T, keys, vals, has, n = seg
            key = keys[K]
            st.fact(has[key])
            if kind == 'dictkeys':
                return mk_str(key)
            vT = T[1] if T and T[0] == 'dict' else None
            val = self.unbox(vals[key], vT)
            if kind == 'dictvalues':
                return val
            return SV('tuple', py=[mk_str(key), val])
        if kind == 'comp':
            c = seg[1]
            if not z3.is_true(z3.simplify(c.cond)):
                if not getattr(self, 'allow_filtered', False):
                    raise Unsupported('iteration over a filtered comprehension')
                # only elements that passed the inner filter are iterated (the caller conjoins it)
                st.fact(z3.substitute(c.cond, (c.K, K)))
            return self.subst_sv(c.val, c.K, K)
        if kind == 'enum':
            return SV('tuple', py=[mk_int(K), self.seg_element(seg[1], K)])
        if kind == 'range':
            return mk_int(K)
        raise Unsupported(f'segment {kind}')

    def seg_key(self, seg):
        k = seg[0]
        if k == 'heap':
            return ('heap', seg[3].get_id(), seg[4].get_id())
        if k in ('dictkeys', 'dictitems', 'dictvalues'):
            return (k, seg[3].get_id(), seg[4].get_id(), seg[6].get_id())
        if k == 'comp':
            return ('comp', seg[1].idx, tuple(x.get_id() for x in seg[1].ctx))
        if k == 'enum':
            return ('enum', self.seg_key(seg[1]))
        if k == 'range':
            return ('range', z3.simplify(seg[1]).get_id())
        if k == 'slice':
            return ('slice',) + tuple(x.get_id() for x in seg[1:])
        raise Unsupported(k)

    def heap_changed(self, base_heap, sub_heap, sub_state=None, base_written=None, base_nalloc=0) -> List[str]:
        """Names of heap arrays that differ — ignoring writes that only touch objects allocated
        after the base state (allocation inside a loop/comprehension body is not an effect on the
        pre-existing heap)."""
        out = []
        for k, v in sub_heap.items():
            b = base_heap.get(k)
            if b is not None and not b.eq(v):
                if sub_state is not None and base_written is not None:
                    refs = sub_state.written.get(k, [])[base_written.get(k, 0):]
                    ok = bool(refs)
                    for r in refs:
                        d = z3.simplify(r - sub_state.alloc0)
                        if not (z3.is_int_value(d) and d.as_long() >= base_nalloc) and not self.is_elem_ref(r):
                            ok = False
                            break
                    if ok:
                        continue
                out.append(k)
        return out

    def summarize(self, seg, frames, body, canonical=False):
        """Run `body(sub, frames, x)` for a generic element of `seg` and collect every path.
        Returns (K, length, paths) with paths = [(decisions, facts, outcome, sub, nfr)]."""
        st = self.st
        st.fresh_n += 1
        K = z3.Int(f'k!{self.kdepth}') if canonical else z3.Int(f'k!!{st.fresh_n}')
        length = self.seg_length(seg)
        n0 = len(st.pc)
        ob0 = len(st.obligations)
        base_heap = dict(st.heap)
        base_written = {k: len(v) for k, v in st.written.items()}
        base_nalloc = st.nalloc

        def thunk(sub, nfr):
            sub.st.fact(z3.And(0 <= K, K < length))
            sub.kdepth += 1
            sub.binders = list(self.binders) + [K]
            sub.st.binders = list(sub.binders)
            sub.allow_filtered = getattr(self, 'allow_filtered', False)
            x = sub.seg_element(seg, K)
            sub.allow_filtered = False
            return body(sub, nfr, x)
        results = self.explore(thunk, frames)
        paths = []
        for sub, nfr, out in results:
            delta = sub.st.pc[n0:]
            decisions = [d for d in delta if d.get_id() not in sub.st.fact_ids]
            facts = [d for d in delta if d.get_id() in sub.st.fact_ids]
            changed = self.heap_changed(base_heap, sub.st.heap, sub.st, base_written, base_nalloc)
            paths.append({'dec': decisions, 'facts': facts, 'out': out, 'sub': sub, 'fr': nfr,
                          'changed': changed, 'obl': sub.st.obligations[ob0:]})
        # What the body stored into the objects it allocated for its element (one object per element, injective in
        # the index: State.new_ref) is the state of those objects afterwards.  The body's heap is dropped below (it has
        # no effect on what existed before), so say it about the heap that is kept: at the references of this
        # iteration's own block — which nothing has read or constrained before, they did not exist — the kept arrays
        # hold what the body left there.  Only for an outermost iteration (a single index variable).
        if not self.binders:
            for sub, nfr, out in results:
                if out[0] != 'ok':
                    continue
                decs = [d for d in sub.st.pc[n0:] if d.get_id() not in sub.st.fact_ids]
                rng = z3.And(0 <= K, K < length, *decs)
                for name, arr in sub.st.heap.items():
                    b = base_heap.get(name)
                    if b is None:
                        b = z3.Const(name + '@0', arr.sort())
                    if b.eq(arr):
                        continue
                    seen = set()
                    for r in sub.st.written.get(name, [])[base_written.get(name, 0):]:
                        if not (self.is_elem_ref(r) and r.num_args() == 1 and r.arg(0).eq(K)) or r.get_id() in seen:
                            continue
                        seen.add(r.get_id())
                        st.fact(z3.ForAll([K], z3.Implies(rng, b[r] == arr[r]), patterns=[r]))
        # symbols and references created for the generic element must never be handed out again — to a later
        # iteration over another sequence, or to the code that follows (two comprehensions sharing `hv!3(k)` or
        # one allocation block would have their elements identified)
        for sub, _, _ in results:
            st.fresh_n = max(st.fresh_n, sub.st.fresh_n)
            st.nalloc = max(st.nalloc, sub.st.nalloc)
        return K, length, paths

    def path_cond(self, p):
        return z3.And(*p['dec']) if p['dec'] else z3.BoolVal(True)

    def merge_values(self, cases: List[Tuple[Any, SV]]) -> SV:
        """ite-merge of values of the same kind; cases = [(cond, SV)]; last one is the default."""
        if not cases:
            raise Unsupported('no cases to merge')
        kinds = {c[1].k for c in cases}
        if len(cases) == 1:
            return cases[0][1]
        if len(kinds) > 1 or kinds & {'tuple', 'pylist', 'const', 'closure', 'bound', 'exc', 'gen'}:
            if kinds == {'tuple'} and len({len(c[1].py) for c in cases}) == 1:
                n = len(cases[0][1].py)
                return SV('tuple', py=[self.merge_values([(c, v.py[i]) for c, v in cases]) for i in range(n)])
            if kinds & {'pylist', 'gen', 'closure', 'bound', 'exc', 'iter'}:
                raise Unsupported(f'cannot merge values of kinds {kinds}')
            # box everything that can be boxed
            try:
                boxed = [(c, SV('val', self.box(v), T=('any',))) for c, v in cases]
            except Unsupported:
                raise Unsupported(f'cannot merge values of kinds {kinds}')
            cases = boxed
            kinds = {'val'}
        k = kinds.pop()
        e = cases[-1][1].e
        for c, v in reversed(cases[:-1]):
            e = z3.If(c, v.e, e)
        proto = cases[0][1]
        cls = proto.cls if all(c[1].cls == proto.cls for c in cases) else None
        T = proto.T if all(c[1].T == proto.T for c in cases) else None
        if k == 'ref' and cls is None:
            return SV('val', self.box_ite(cases), T=('any',))
        return SV(k, z3.simplify(e), cls, T)

    def box_ite(self, cases):
        e = self.box(cases[-1][1])
        for c, v in reversed(cases[:-1]):
            e = z3.If(c, self.box(v), e)
        return e

    def make_comp(self, seg, frames, body, kind='list') -> 'CompResult':
        """Summarise `[val(x) for x in seg if cond(x)]`; body returns (filterBool, valSV)."""
        st = self.st
        inner = seg[1] if seg[0] == 'comp' and not z3.is_true(z3.simplify(seg[1].cond)) else None
        self.allow_filtered = inner is not None
        try:
            K, length, paths = self.summarize(seg, frames, body, canonical=True)
        finally:
            self.allow_filtered = False
        oks, raises = [], []
        for p in paths:
            if p['changed']:
                raise Unsupported('comprehension body has heap effects: ' + ','.join(p['changed']))
            st.obligations.extend(p['obl'])
            if p['out'][0] == 'ok':
                oks.append(p)
            elif p['out'][0] == 'raise':
                raises.append(p)
            else:
                raise Unsupported('comprehension body exits abnormally')
        cond_parts = []
        noraise = None
        if raises:
            self.comp_raises(K, length, raises, seg)
            noraise = z3.Not(z3.Or(*[self.path_cond(p) for p in raises]))
            # from here on no element raises: the raising cases cannot occur, so they may be counted
            # on either side of the filter; counting them in keeps the filter condition canonical
            cond_parts.extend(self.path_cond(p) for p in raises)
        val_cases = []
        for p in oks:
            flt, val = p['out'][1]
            c = z3.simplify(z3.And(self.path_cond(p), flt))
            if z3.is_false(c):
                continue
            cond_parts.append(c)
            val_cases.append((self.path_cond(p), val))
        cond = z3.simplify(z3.Or(*cond_parts)) if cond_parts else z3.BoolVal(False)
        if oks and all(z3.is_true(z3.simplify(p['out'][1][0])) for p in oks):
            # no path filters anything out: the path conditions only partition the (well-typed,
            # non-raising) elements, so every element passes
            cond = z3.BoolVal(True)
        elif oks and len({z3.simplify(p['out'][1][0]).get_id() for p in oks}) == 1:
            # the same filter formula on every path of the partition: it is the filter
            cond = z3.simplify(oks[0]['out'][1][0])
        val = self.merge_values(val_cases) if val_cases else NONE
        # what was learnt about the generic element (typing, callee postconditions) holds for
        # every element of the segment
        pats = self.comp_patterns(seg, K)
        elem_facts = []
        for p in oks:
            if len(p['facts']) > 1:
                rng = z3.And(0 <= K, K < length, *p['dec'])
                st.fact(self.qf(True, K, z3.Implies(rng, z3.And(*p['facts'][1:])), pats))
                elem_facts.append(z3.Implies(z3.And(*p['dec']) if p['dec'] else z3.BoolVal(True), z3.And(*p['facts'][1:])))
        if inner is not None:
            # [f(y) for y in [g(x) for x in xs if p(x)] if q(y)] == [f(g(x)) for x in xs if p(x) and q(g(x))]
            cond = z3.simplify(z3.And(z3.substitute(inner.cond, (inner.K, K)), cond))
            seg = inner.seg
        c = self.register_comp(seg, K, length, cond, val, kind)
        known = ([noraise] if noraise is not None else []) + elem_facts
        if known:
            kf = z3.And(*known)
            kf = kf if K.eq(c.K) else z3.substitute(kf, (K, c.K))
            c.noraise = kf if c.noraise is None else z3.And(c.noraise, kf)
        return c

    def comp_patterns(self, seg, j):
        k = seg[0]
        if k == 'heap':
            return [seg[3][j]]
        if k in ('dictkeys', 'dictitems', 'dictvalues'):
            return [seg[3][j]]
        if k == 'comp':
            return self.comp_patterns(seg[1].seg, j)
        if k == 'enum':
            return self.comp_patterns(seg[1], j)
        return []

    def qf(self, universal, j, body, pats):
        """Quantifier with patterns when some are available."""
        pats = [p for p in pats if p is not None]
        q = z3.ForAll if universal else z3.Exists
        try:
            return q([j], body, patterns=pats) if pats else q([j], body)
        except z3.Z3Exception:
            return q([j], body)

    def comp_raises(self, K, length, raises, seg):
        """Some element's evaluation raises: either none does (assumed on this path) or the first
        raising element determines the exception class."""
        st = self.st
        R = z3.Or(*[self.path_cond(p) for p in raises])
        j = z3.Int('j!r')
        pats = self.comp_patterns(seg, j)
        Rj = z3.substitute(R, (K, j))
        none_raises = self.qf(True, j, z3.Implies(z3.And(0 <= j, j < length), z3.Not(Rj)), pats)
        if self.decide(none_raises):
            return
        # first raising element: a fresh skolem index
        classes = []
        for p in raises:
            if p['out'][1].exc_cls not in classes:
                classes.append(p['out'][1].exc_cls)
        ks = st.fresh('kr', I)
        st.fact(z3.And(0 <= ks, ks < length))
        st.fact(self.qf(True, j, z3.Implies(z3.And(0 <= j, j < ks), z3.Not(Rj)), pats))
        for ci, cl in enumerate(classes):
            # the raising element also has everything that was learnt about it on that path
            Rc = z3.Or(*[z3.And(self.path_cond(p), *p['facts'][1:]) for p in raises if p['out'][1].exc_cls is cl])
            Rck = z3.substitute(Rc, (K, ks))
            if ci == len(classes) - 1:
                st.fact(Rck)
                raise PyRaise(cl, (), 'in comprehension')
            if self.decide(Rck):
                raise PyRaise(cl, (), 'in comprehension')

    # -- comprehension syntax
    def comp_over(self, generators, fr, elt_fn, kind):
        """Evaluate a comprehension; returns a list of segments (PyList segments)."""
        if len(generators) != 1:
            raise Unsupported('nested comprehension generators')
        g = generators[0]
        it = self.ev(g.iter, fr)
        segs = self.segments(it)
        out = []
        for seg in segs:
            if seg[0] == 'item':
                cfr = Frame(fr.globals, {}, fr, fr.qual, fr.cls)
                self.assign(g.target, seg[1], cfr)
                ok = True
                for cond in g.ifs:
                    if not self.decide(self.truthy(self.ev(cond, cfr))):
                        ok = False
                        break
                if ok:
                    out.append(('item', elt_fn(self, cfr)))
            else:
                def body(sub, nfr, x, g=g):
                    cfr = Frame(nfr[0].globals, {}, nfr[0], nfr[0].qual, nfr[0].cls)
                    sub.assign(g.target, x, cfr)
                    # the filter is one formula (no forking on it); the element expression is
                    # evaluated under the hypothesis that the element passes
                    flts = [sub.ev_cond(cond, cfr) for cond in g.ifs]
                    if not flts:
                        return (z3.BoolVal(True), elt_fn(sub, cfr))
                    flt = z3.simplify(z3.And(*flts)) if len(flts) > 1 else z3.simplify(flts[0])
                    if z3.is_false(flt):
                        return (z3.BoolVal(False), NONE)
                    try:
                        v = sub.with_assumption(flts, lambda: elt_fn(sub, cfr))
                    except Infeasible:
                        return (z3.BoolVal(False), NONE)
                    except PyRaise:
                        # the element expression raises only for elements that pass the filter
                        if sub.decide(flt):
                            raise
                        return (z3.BoolVal(False), NONE)
                    return (flt, v)
                c = self.make_comp(seg, [fr], body, kind)
                out.append(('comp', c))
        return out

    def ev_ListComp(self, node, fr):
        segs = self.comp_over(node.generators, fr, lambda ip, cfr: ip.ev(node.elt, cfr), 'list')
        return SV('pylist', py=PyList(segs))

    def ev_GeneratorExp(self, node, fr):
        return SV('gen', py=Gen(node, fr, None))

    def eval_gen(self, g: Gen):
        node = g.node
        return self.comp_over(node.generators, g.env, lambda ip, cfr: ip.ev(node.elt, cfr), 'gen')

    def ev_DictComp(self, node, fr):
        # {k: v for k, v in <pairs>}: only over concrete structure or a pair source
        def elt(ip, cfr):
            return SV('tuple', py=[ip.ev(node.key, cfr), ip.ev(node.value, cfr)])
        segs = self.comp_over(node.generators, fr, elt, 'dict')
        d = self.new_dict()
        for seg in segs:
            if seg[0] == 'item':
                kv = seg[1]
                self.dict_set(d.e, self.key_str(kv.py[0]), kv.py[1])
            else:
                self.dict_from_comp(d, seg[1])
        return d

    def dict_from_comp(self, d: SV, c: 'CompResult'):
        """dict built from a symbolic sequence of (key, value) pairs (last value wins)."""
        st = self.st
        r = d.e
        if not (c.val.k == 'tuple' and len(c.val.py) == 2):
            raise Unsupported('dict comprehension element is not a pair')
        has = st.fresh('has', HasArr)
        val = st.fresh('val', ValArr)
        keys = st.fresh('keys', KeyArr)
        n = st.fresh('n', I)
        j = z3.Int('j!d')
        kq = z3.String('k!q')
        kj = z3.substitute(self.as_str(c.val.py[0]), (c.K, j))
        vj = z3.substitute(self.box(c.val.py[1]), (c.K, j))
        cj = z3.substitute(c.cond, (c.K, j))
        pats = self.comp_patterns(c.seg, j)
        # every produced key is present; with pairwise distinct keys the value is the produced one
        st.fact(z3.ForAll([j], z3.Implies(z3.And(0 <= j, j < c.length, cj), has[kj]), patterns=pats))
        w = z3.Function(f'kw!{st.fresh_n}', S, I)
        st.fresh_n += 1
        wj = w(kq)
        st.fact(z3.ForAll([kq], z3.Implies(has[kq], z3.And(
            0 <= wj, wj < c.length, z3.substitute(c.cond, (c.K, wj)),
            z3.substitute(self.as_str(c.val.py[0]), (c.K, wj)) == kq,
            z3.substitute(self.box(c.val.py[1]), (c.K, wj)) == val[kq])), patterns=[has[kq]]))
        st.fact(n >= 0)
        st.fact(n <= self.ccnt(c))
        st.fact(z3.Implies(self.ccnt(c) > 0, n > 0))
        st.set_arr('D_has', z3.Store(st.D_has, r, has), r)
        st.set_arr('D_val', z3.Store(st.D_val, r, val), r)
        st.set_arr('D_key', z3.Store(st.D_key, r, keys), r)
        st.set_arr('D_n', z3.Store(st.D_n, r, n), r)
        st.notes.append('dict comprehension over a symbolic sequence: insertion order and value of '
                        'duplicated keys are abstracted')

    def make_slice_comp(self, lst: SV, lo, length) -> 'CompResult':
        """lst[lo:lo+length] as an unfiltered map over indices."""
        st = self.st
        Kc = z3.Int(f'k!{self.kdepth}')
        val = self.list_get_q(lst.e, lo + Kc, lst.T)
        seg = ('slice', st.L_el[lst.e], z3.simplify(lo), z3.simplify(length))
        return self.register_comp(seg, Kc, z3.simplify(length), z3.BoolVal(True), val, 'list')

    # ================================================================ statement loops over symbolic sequences
    def loop_symbolic(self, node: ast.For, seg, fr: Frame):
        st = self.st
        body_src = node.body
        assigned, appended = loop_targets(body_src)
        tnames = target_names(node.target)
        # accumulators that exist before the loop
        str_acc, list_acc = {}, {}
        for n in sorted(assigned - tnames):
            v = fr.lookup(n)
            if v is None:
                continue            # a temporary of the body
            if v.k == 'str':
                str_acc[n] = v
            else:
                raise Unsupported(f'loop over a symbolic sequence assigns `{n}` of kind {v.k}')
        for n in sorted(appended):
            v = fr.lookup(n)
            if v is None:
                raise Unsupported(f'append to unknown name {n}')
            if v.k == 'pylist' and v.py.href is None:
                list_acc[n] = v
            elif (v.k == 'pylist' and v.py.href is not None) or (v.k == 'ref' and v.cls == 'list'):
                # a list that lives on the heap: the append is a heap effect like any other store (allowed on
                # the iteration that leaves the loop, refused on iterations that continue)
                pass
            else:
                raise Unsupported(f'loop appends to `{n}` which is not a local list')
        acc_syms = {n: st.fresh('acc', S) for n in str_acc}
        markers = {n: ('marker', n) for n in list_acc}
        # local dicts allocated in this call that the body stores into: name[key] = value
        dict_acc = {}
        for n in sorted(subscript_store_names(body_src)):
            v = fr.lookup(n)
            if v is not None and v.k == 'ref' and v.cls == 'dict' and self.is_fresh(v.e):
                dict_acc[n] = v

        def body(sub, nfr, x):
            f0 = nfr[0]
            sub.dict_log = [(v.e, []) for v in dict_acc.values()]
            for n, s in acc_syms.items():
                f0.locals[n] = mk_str(s)
            for n in list_acc:
                f0.locals[n] = SV('pylist', py=PyList([markers[n]]))
            sub.assign(node.target, x, f0)
            try:
                sub.exec_block(body_src, f0)
            except ContinueEx:
                pass
            return NONE
        saved_log = getattr(self, 'dict_log', None)
        K, length, paths = self.summarize(seg, [fr], body)
        self.dict_log = saved_log
        ft, exits = [], []
        for p in paths:
            kind = p['out'][0]
            # an iteration that falls through to the next one must leave the pre-existing heap alone (else an
            # invariant would be needed); the iteration that *leaves* the loop (break/return/raise) may have
            # effects: they happen once, in the state the loop started in
            if p['changed'] and kind in ('ok', 'continue'):
                raise Unsupported('loop body over a symbolic sequence has heap effects ('
                                  + ','.join(p['changed']) + '): needs a loop invariant')
            (ft if kind in ('ok', 'continue') else exits).append(p)
        for p in paths:
            st.obligations.extend(p['obl'])
        j = z3.Int('j!s')
        pats = self.comp_patterns(seg, j)
        # what was learnt about the generic element (typing, callee postconditions) holds for every
        # element of the segment
        for p in paths:
            if len(p['facts']) > 1:
                body_ = z3.Implies(z3.And(0 <= K, K < length, *p['dec']), z3.And(*p['facts'][1:]))
                st.fact(self.qf(True, j, z3.substitute(body_, (K, j)), pats))
        FT = z3.Or(*[self.path_cond(p) for p in ft]) if ft else z3.BoolVal(False)
        FTj = z3.substitute(FT, (K, j))
        if exits:
            choice = self.choose(1 + len(exits))
            if choice > 0:
                p = exits[choice - 1]
                if (str_acc or list_acc) and p['out'][0] != 'raise':
                    raise Unsupported('loop with accumulators exits by break/return')
                sub = p['sub']
                sub.st.assume(z3.ForAll([j], z3.Implies(z3.And(0 <= j, j < K), FTj), patterns=pats))
                self.adopt(sub)
                fr.locals.clear()
                fr.locals.update(p['fr'][0].locals)
                out = p['out']
                if out[0] == 'break':
                    raise BreakEx()
                if out[0] == 'return':
                    raise ReturnEx(out[1])
                raise out[1]
            st.assume(z3.ForAll([j], z3.Implies(z3.And(0 <= j, j < length), FTj), patterns=pats))
        # completed: accumulate
        for n, before in str_acc.items():
            cases = []
            conds = []
            for p in ft:
                fin = p['fr'][0].locals[n]
                piece = strip_prefix(fin.e, acc_syms[n])
                if piece is None:
                    raise Unsupported(f'loop accumulator `{n}` is not of the form acc + piece')
                if z3.is_string_value(piece) and piece.as_string() == '':
                    continue           # nothing added on this path: the element is filtered out
                conds.append(self.path_cond(p))
                cases.append((self.path_cond(p), mk_str(piece)))
            if not cases:
                continue
            val = self.merge_values(cases)
            cond = z3.BoolVal(True) if len(cases) == len(ft) else z3.simplify(z3.Or(*conds))
            c = self.register_comp(seg, K, length, cond, val, 'join')
            ef = [z3.Implies(self.path_cond(p), z3.And(*p['facts'][1:])) for p in ft if len(p['facts']) > 1]
            if ef:
                kf = z3.And(*ef)
                kf = kf if K.eq(c.K) else z3.substitute(kf, (K, c.K))
                c.noraise = kf if c.noraise is None else z3.And(c.noraise, kf)
            fr.locals[n] = mk_str(z3.Concat(before.e, self.cjoin(c, SVAL(''))))
        for n, before in list_acc.items():
            conds, cases = [], []
            for p in ft:
                fin = p['fr'][0].locals[n].py
                segs = fin.segs
                if not segs or segs[0] != markers[n]:
                    raise Unsupported(f'loop list accumulator `{n}` was rebound')
                extra = segs[1:]
                if not extra:
                    continue
                if len(extra) != 1 or extra[0][0] not in ('item', 'opt'):
                    raise Unsupported(f'loop appends more than one element to `{n}` per iteration')
                if extra[0][0] == 'opt':
                    pc_ = z3.And(self.path_cond(p), extra[0][1])
                    conds.append(pc_)
                    cases.append((pc_, extra[0][2]))
                else:
                    conds.append(self.path_cond(p))
                    cases.append((self.path_cond(p), extra[0][1]))
            if not cases:
                continue
            cond = z3.simplify(z3.Or(*conds))
            if exits and len(cases) == len(ft) and all(p['fr'][0].locals[n].py.segs[1][0] == 'item' for p in ft):
                # every iteration that continues appends exactly one element, and (the loop having completed) every
                # iteration continued: nothing is filtered out
                cond = z3.BoolVal(True)
            val = self.merge_values(cases)
            c = self.register_comp(seg, K, length, cond, val, 'list')
            ef = [z3.Implies(self.path_cond(p), z3.And(*p['facts'][1:])) for p in ft if len(p['facts']) > 1]
            if ef:
                kf = z3.And(*ef)
                kf = kf if K.eq(c.K) else z3.substitute(kf, (K, c.K))
                c.noraise = kf if c.noraise is None else z3.And(c.noraise, kf)
            before.py.segs.append(('comp', c))
        for di, (n, dv) in enumerate(dict_acc.items()):
            stores = []
            for p in ft:
                for (key, val) in p['sub'].dict_log[di][1]:
                    stores.append((self.path_cond(p), key, val))
            if stores:
                self.dict_accumulate(dv, seg, K, length, stores)
        # temporaries of the body are dead after the loop
        for n in assigned | tnames:
            if n not in str_acc and n not in list_acc and fr.lookup(n) is None:
                pass

    def dict_accumulate(self, d: SV, seg, K, length, stores):
        """After `for x in seg: ... d[key(x)] = val(x) ...` on a dict allocated in this call:
        (A) every stored key is present; (B) every present key was present before or was stored for
        some element, and then holds one of the values stored under it (which one — the last — is
        abstracted).  Insertion order is abstracted."""
        st = self.st
        r = d.e
        has0, val0 = st.D_has[r], st.D_val[r]
        has1 = st.fresh('has', HasArr)
        val1 = st.fresh('val', ValArr)
        j = z3.Int('j!a')
        kq = z3.String('k!a')
        pats = self.comp_patterns(seg, j)
        for (c, key, val) in stores:
            cj, kj = z3.substitute(c, (K, j)), z3.substitute(key, (K, j))
            st.fact(self.qf(True, j, z3.Implies(z3.And(0 <= j, j < length, cj), has1[kj]), pats))
        w = z3.Function(f'dw!{st.fresh_n}', S, I)
        st.fresh_n += 1
        wk = w(kq)
        alts = []
        values_known = r.get_id() not in self.shared.get('dict_acc_read', set())
        for (c, key, val) in stores:
            if values_known:
                alts.append(z3.And(z3.substitute(c, (K, wk)), z3.substitute(key, (K, wk)) == kq,
                                   val1[kq] == z3.substitute(val, (K, wk))))
            else:
                alts.append(z3.And(z3.substitute(c, (K, wk)), z3.substitute(key, (K, wk)) == kq))
        st.fact(z3.ForAll([kq], z3.Implies(has1[kq], z3.Or(
            z3.And(has0[kq], val1[kq] == val0[kq]),
            z3.And(0 <= wk, wk < length, z3.Or(*alts)))), patterns=[has1[kq]]))
        st.fact(z3.ForAll([kq], z3.Implies(has0[kq], has1[kq]), patterns=[has0[kq]]))
        n1 = st.fresh('n', I)
        st.fact(n1 >= st.D_n[r])
        st.set_arr('D_has', z3.Store(st.D_has, r, has1), r)
        st.set_arr('D_val', z3.Store(st.D_val, r, val1), r)
        st.set_arr('D_key', z3.Store(st.D_key, r, st.fresh('keys', KeyArr)), r)
        st.set_arr('D_n', z3.Store(st.D_n, r, n1), r)
        self.dict_wf(r)
        st.notes.append('dict built by a loop over a symbolic sequence: insertion order and which of '
                        'several values stored under one key survives are abstracted')

    def register_comp(self, seg, K, length, cond, val, kind) -> 'CompResult':
        st = self.st
        Kc = z3.Int(f'k!{self.kdepth}')
        if not K.eq(Kc):
            cond = z3.substitute(cond, (K, Kc))
            val = self.subst_sv(val, K, Kc)
        cond_c = z3.simplify(cond)
        val_c = val
        if val_c.e is not None:
            val_c = SV(val_c.k, z3.simplify(val_c.e), val_c.cls, val_c.T, val_c.py)
        ctx = list(self.binders)
        key = (self.seg_key(seg), cond_c.get_id(), val_c.k,
               val_c.e.get_id() if val_c.e is not None else repr(val_c.py), val_c.cls,
               tuple(x.get_id() for x in ctx))
        table = self.shared.setdefault('comp_keys', {})
        if key not in table:
            table[key] = len(table) + 1
        idx = table[key]
        c = CompResult(idx, Kc, length, cond_c, val_c, seg, kind, ctx)
        c.pc = [e for e in st.pc if not has_quantifier(e)]     # context in which it was formed
        self.shared.setdefault('comp_info', {})[idx] = c
        cnt = self.ccnt(c)
        st.fact(cnt >= 0)
        st.fact(cnt <= length)
        if z3.is_true(cond_c):
            st.fact(cnt == length)
        elif not z3.is_false(cond_c):
            j = z3.Int('j!e')
            cj = z3.substitute(cond_c, (Kc, j))
            pats = self.comp_patterns(seg, j)
            st.fact(z3.Implies(cnt == 0, self.qf(True, j, z3.Implies(z3.And(0 <= j, j < length), z3.Not(cj)), pats)))
        else:
            st.fact(cnt == 0)
        return c

    # ---------------------------------------------------------------- consuming sequences
    def join(self, sep, v: SV) -> SV:
        """sep.join(v)"""
        segs = self.segments(v)
        if all(s[0] == 'item' for s in segs):
            parts = []
            for i, s in enumerate(segs):
                if i:
                    parts.append(sep)
                parts.append(self.as_str(s[1], 'join'))
            if not parts:
                return mk_str('')
            return mk_str(z3.Concat(*parts) if len(parts) > 1 else parts[0])
        acc_s, acc_n = None, None
        acc_min = 0          # known lower bound on the number of elements so far
        for s in segs:
            smin = 0
            if s[0] == 'item':
                cs, cn = self.as_str(s[1], 'join'), z3.IntVal(1)
                smin = 1
            elif s[0] == 'opt':
                cs = z3.If(s[1], self.as_str(s[2], 'join'), SVAL(''))
                cn = z3.If(s[1], 1, 0)
            elif s[0] == 'comp':
                c = s[1]
                if c.val.k == 'val':
                    # boxed elements: every produced element must be a str (else TypeError)
                    ok = self.qf(True, c.K, z3.Implies(z3.And(0 <= c.K, c.K < c.length, c.cond), Val.is_s(c.val.e)),
                                 self.comp_patterns(c.seg, c.K))
                    if not self.decide(ok):
                        raise PyRaise(TypeError, (), 'join over non-strings')
                    c0 = c
                    c = self.register_comp(c.seg, c.K, c.length, c.cond, mk_str(Val.sv(c.val.e)), c.kind)
                    c.noraise = c0.noraise
                    s = ('comp', c)
                elif c.val.k != 'str':
                    raise PyRaise(TypeError, (), 'join over non-strings')
                cs, cn = self.cjoin(c, sep), self.seg_count(s)
                self.st.fact(z3.Implies(cn == 0, cs == SVAL('')))
            elif s[0] == 'heap':
                T = s[2]
                if not (T and T[0] == 'list' and T[1] == ('str',)):
                    raise Unsupported('join over a heap list not declared List[str]')
                cs, cn = heap_join(s[3], s[4], sep), s[4]
                self.st.fact(z3.Implies(cn == 0, cs == SVAL('')))
            else:
                raise Unsupported(f'join over segment {s[0]}')
            if acc_s is None:
                acc_s, acc_n = cs, cn
            elif acc_min >= 1:
                # something precedes for sure: append `sep + piece` iff the piece is non-empty in count
                if smin >= 1:
                    acc_s = z3.Concat(acc_s, sep, cs)
                elif s[0] == 'opt':
                    acc_s = z3.Concat(acc_s, z3.If(s[1], z3.Concat(sep, self.as_str(s[2], 'join')), SVAL('')))
                else:
                    acc_s = z3.Concat(acc_s, z3.If(cn == 0, SVAL(''), z3.Concat(sep, cs)))
                acc_n = acc_n + cn
            else:
                acc_s = z3.If(acc_n == 0, cs, z3.If(cn == 0, acc_s, z3.Concat(acc_s, sep, cs)))
                acc_n = acc_n + cn
            acc_min += smin
        return mk_str(z3.simplify(acc_s))

    def quantify(self, v: SV, universal: bool):
        """all(v) / any(v) as a formula."""
        segs = self.segments(v)
        parts = []
        for s in segs:
            if s[0] == 'item':
                parts.append(self.truthy(s[1]))
            elif s[0] == 'comp':
                c = s[1]
                j = z3.Int(f'j!q{self.kdepth}')
                cj = z3.substitute(c.cond, (c.K, j))
                vj = self.truthy(self.subst_sv(c.val, c.K, j))
                rng = z3.And(0 <= j, j < c.length)
                pats = self.comp_patterns(c.seg, j)
                if universal:
                    parts.append(self.qf(True, j, z3.Implies(z3.And(rng, cj), vj), pats))
                else:
                    parts.append(self.qf(False, j, z3.And(rng, cj, vj), pats))
            elif s[0] == 'heap':
                j = z3.Int(f'j!q{self.kdepth}')
                x = self.el_view(s[3][j], s[2])
                rng = z3.And(0 <= j, j < s[4])
                vj = self.truthy(x)
                pats = [s[3][j]]
                parts.append(z3.ForAll([j], z3.Implies(rng, vj), patterns=pats) if universal
                             else z3.Exists([j], z3.And(rng, vj), patterns=pats))
            else:
                raise Unsupported(f'quantifier over {s[0]}')
        if not parts:
            return z3.BoolVal(universal)
        return z3.And(*parts) if universal else z3.Or(*parts)

    def sum_seq(self, v: SV) -> SV:
        segs = self.segments(v)
        total = z3.IntVal(0)
        for s in segs:
            if s[0] == 'item':
                total = total + self.as_int(s[1])
            elif s[0] == 'comp':
                c = s[1]
                if c.val.k == 'bool':
                    term = z3.If(z3.And(c.cond, c.val.e), 1, 0)
                elif c.val.k == 'int':
                    term = z3.If(c.cond, c.val.e, 0)
                else:
                    raise Unsupported('sum over non-integers')
                c2 = self.register_comp(c.seg, c.K, c.length, z3.BoolVal(True), mk_int(z3.simplify(term)), 'sum')
                c2.noraise = c.noraise
                sm = self.csum(c2)
                if c.val.k == 'bool':
                    self.st.fact(sm >= 0)
                    self.st.fact(sm <= c.length)
                    # sum > 1 needs two distinct witnesses; sum == 0 iff none; provide both directions lazily
                    j = z3.Int('j!m')
                    tj = z3.substitute(term, (c.K, j)) == 1
                    pats = self.comp_patterns(c.seg, j)
                    self.st.fact(z3.Implies(sm == 0, self.qf(True, j, z3.Implies(z3.And(0 <= j, j < c.length), z3.Not(tj)), pats)))
                total = total + sm
            else:
                raise Unsupported(f'sum over {s[0]}')
        return mk_int(z3.simplify(total))


# --------------------------------------------------------------------------------------------
# helpers outside the class

comp_cnt = z3.Function('comp_cnt', I, I, I, I, I)
comp_join = z3.Function('comp_join', I, I, I, I, S, S)
comp_sum = z3.Function('comp_sum', I, I, I, I, I)
comp_tok = z3.Function('comp_tok', I, I, I, I, I)
heap_join = z3.Function('heap_join', ElArr, I, S, S)
float_nonzero = z3.Function('float_nonzero', I, B)
dict_pos = z3.Function('dict_pos', KeyArr, S, I)
py_repr = z3.Function('py_repr', Val, S)
_MISSING = object()
NONE_KEY = '\x00<None>\x00'


class _SegTuple(Exception):
    def __init__(self, segs):
        self.segs = segs


_HQ: Dict[int, Any] = {}
_OLD: Dict[int, Any] = {}


def has_quantifier(e) -> bool:
    i = e.get_id()
    r = _HQ.get(i)
    if r is not None:
        return r[1]
    r = _has_quantifier(e)
    _HQ[i] = (e, r)        # keep the AST alive: z3 reuses ids of freed ASTs
    return r


def _has_quantifier(e) -> bool:
    if z3.is_quantifier(e):
        r = True
    elif z3.is_app(e):
        r = any(has_quantifier(c) for c in e.children())
    else:
        r = False
    return r


def strip_prefix(e, prefix):
    """If e == prefix + rest syntactically, return rest (a z3 string), else None."""
    if e.eq(prefix):
        return SVAL('')
    if z3.is_app(e) and e.decl().kind() == z3.Z3_OP_SEQ_CONCAT:
        kids = flatten_concat(e)
        if kids and kids[0].eq(prefix):
            rest = kids[1:]
            if not rest:
                return SVAL('')
            return z3.Concat(*rest) if len(rest) > 1 else rest[0]
    return None


def flatten_concat(e):
    if z3.is_app(e) and e.decl().kind() == z3.Z3_OP_SEQ_CONCAT:
        out = []
        for c in e.children():
            out.extend(flatten_concat(c))
        return out
    return [e]


def loop_targets(body):
    assigned, appended = set(), set()
    for n in ast.walk(ast.Module(body=body, type_ignores=[])):
        if isinstance(n, (ast.Assign, ast.AnnAssign, ast.AugAssign)):
            tg = n.targets if isinstance(n, ast.Assign) else [n.target]
            for t in tg:
                assigned |= target_names(t)
        elif isinstance(n, ast.For):
            assigned |= target_names(n.target)
        elif isinstance(n, ast.Call) and isinstance(n.func, ast.Attribute) and \
                n.func.attr in ('append', 'extend') and isinstance(n.func.value, ast.Name):
            appended.add(n.func.value.id)
    return assigned, appended


def annotation_type(node):
    """Dict[str, 'Table'] / List['Column'] / List[str] -> engine type, else None."""
    try:
        src = ast.unparse(node).replace("'", '').replace('"', '').replace(' ', '')
    except Exception:
        return None
    if src.startswith('Dict[str,') and src.endswith(']'):
        inner = src[len('Dict[str,'):-1]
        if inner.isidentifier():
            return ('dict', parse_type(inner))
    if src.startswith('List[') and src.endswith(']'):
        inner = src[5:-1]
        if inner.isidentifier():
            return ('list', parse_type(inner))
    return None


def vT_of(T):
    return T[1] if T and T[0] == 'dict' else None


def subscript_store_names(body):
    out = set()
    for n in ast.walk(ast.Module(body=body, type_ignores=[])):
        if isinstance(n, ast.Assign):
            for t in n.targets:
                if isinstance(t, ast.Subscript) and isinstance(t.value, ast.Name):
                    out.add(t.value.id)
    return out


def target_names(t):
    if isinstance(t, ast.Name):
        return {t.id}
    if isinstance(t, (ast.Tuple, ast.List)):
        out = set()
        for e in t.elts:
            out |= target_names(e)
        return out
    return set()


def st_opaque_str(ip, x):
    return SVAL('<opaque>')


class CompResult:   # noqa: F811  (final definition)
    def __init__(self, idx, K, length, cond, val, seg, kind, ctx=()):
        self.ctx = list(ctx)
        self.noraise = None       # what is known of every element on this path (no element raises)
        self.pc = []
        self.idx = idx
        self.K = K
        self.length = length
        self.cond = cond
        self.val = val
        self.seg = seg
        self.kind = kind

    def __repr__(self):
        return f'Comp#{self.idx}'


# --------------------------------------------------------------------------------------------
# registry helpers bound late (need the live package)

def _reg_setup(reg: Registry, repo_root: str, verif_root: str, classes: Dict[str, type]):
    reg.repo_root = repo_root
    reg.verif_root = verif_root
    reg.pyclasses = dict(classes)
    for n in classes:
        reg.cid(n)


def _pyclass(self: Registry, name):
    return self.pyclasses.get(name) if name else None


def _class_of_function(self: Registry, fn):
    qn = getattr(fn, '__qualname__', '')
    if '.' not in qn:
        return None
    cname = qn.split('.')[-2]
    mod = sys.modules.get(fn.__module__)
    c = getattr(mod, cname, None) if mod else None
    if inspect.isclass(c):
        return c
    return self.pyclasses.get(cname)


def _subclass_names(self: Registry, klass):
    return [n for n, c in self.pyclasses.items() if inspect.isclass(c) and issubclass(c, klass)]


def _setattr_passthrough(self: Registry, pc) -> bool:
    """S obligation (checked in contracts/base.py): SQLObject.__setattr__ is exactly
    `super().__setattr__(name, value)`."""
    f = inspect.getattr_static(pc, '__setattr__', None)
    if f is None or not isinstance(f, types.FunctionType):
        return False
    node = func_ast(f)
    body = [s for s in node.body if not (isinstance(s, ast.Expr) and isinstance(s.value, ast.Constant))]
    if len(body) != 1:
        return False
    src = ast.unparse(body[0])
    return src == 'super().__setattr__(name, value)'


Registry.setup = _reg_setup
Registry.pyclass = _pyclass
Registry.class_of_function = _class_of_function
Registry.subclass_names = _subclass_names
Registry.setattr_passthrough = _setattr_passthrough

SPEC_BUILTINS: Dict[str, Any] = {}
BUILTIN_HANDLERS: Dict[int, Any] = {}
BUILTIN_OBJS: Dict[int, Any] = {}
