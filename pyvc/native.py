"""Run-time twin of the contracts: the same contract text evaluated by CPython around the REAL
function, on real objects drawn from generated databases.

Used (1) to turn an obligation that the solver refuted or left open into a concrete failing input
(replayed against the real code), (2) as the bounded stand-in of every contract in the thorough
tier.  Never counted as proved.
"""
from __future__ import annotations

import ast
import copy
import inspect
import random
import textwrap
import types
from typing import Any, Callable, Dict, List, Optional, Tuple

from . import speclib
from .engine import func_ast, parse_type, type_alternatives
from .verify import CONTRACTS, Contract, resolve_target, Loc

MODEL_CLASSES = ('Database', 'Table', 'Column', 'Index', 'Enum', 'EnumItem', 'Note', 'Reference',
                 'TableGroup', 'Project', 'StickyNote', 'Expression')


# ------------------------------------------------------------------------------------------ old()
def _same_result(a, b):
    """`x is f(...)` with f an abstract name for "what the funnel returns": natively every evaluation of f builds
    a new object, so identity is replaced by equality of everything observable (for a Database: its view and its
    configuration)"""
    if a is b:
        return True
    from pydbml.database import Database
    if isinstance(a, Database) and isinstance(b, Database):
        from spec.model import view
        return (view(a) == view(b) and a.sql_renderer is b.sql_renderer and a.dbml_renderer is b.dbml_renderer
                and a.allow_properties == b.allow_properties)
    return False


class _OldRewriter(ast.NodeTransformer):
    def __init__(self, globs=None):
        self.olds: List[ast.expr] = []
        self.globs = globs or {}

    def visit_Compare(self, node):
        node = self.generic_visit(node)
        if len(node.ops) == 1 and isinstance(node.ops[0], (ast.Is, ast.IsNot)):
            def abstract_obj_call(e):
                if isinstance(e, ast.Call) and isinstance(e.func, ast.Name):
                    f = self.globs.get(e.func.id)
                    ab = getattr(f, '_pyvc_abstract', None)
                    return ab is not None and ab[1] not in ('str', 'int', 'bool', 'float')
                return False
            if abstract_obj_call(node.left) or abstract_obj_call(node.comparators[0]):
                call = ast.Call(func=ast.Name(id='__same_result__', ctx=ast.Load()),
                                args=[node.left, node.comparators[0]], keywords=[])
                return call if isinstance(node.ops[0], ast.Is) else ast.UnaryOp(op=ast.Not(), operand=call)
        return node

    def visit_Call(self, node):
        if isinstance(node.func, ast.Name) and node.func.id == 'old' and len(node.args) == 1:
            self.olds.append(node.args[0])
            return ast.Subscript(value=ast.Name(id='__old__', ctx=ast.Load()),
                                 slice=ast.Constant(value=len(self.olds) - 1), ctx=ast.Load())
        return self.generic_visit(node)


_COMPILED: Dict[int, Any] = {}


def compile_clause(fn):
    """(pre_functions, post_function) for a contract clause using old()."""
    key = id(fn)
    if key in _COMPILED:
        return _COMPILED[key]
    node = copy.deepcopy(func_ast(fn))
    names = [a.arg for a in node.args.args]
    rw = _OldRewriter(fn.__globals__)
    node = rw.visit(node)
    pre_names = [n for n in names if n != 'result']
    pres = []
    for k, e in enumerate(rw.olds):
        lam = ast.Expression(body=ast.Lambda(
            args=ast.arguments(posonlyargs=[], args=[ast.arg(arg=n) for n in pre_names], kwonlyargs=[],
                               kw_defaults=[], defaults=[]), body=e))
        ast.fix_missing_locations(lam)
        pres.append(eval(compile(lam, f'<old {fn.__qualname__}#{k}>', 'eval'), fn.__globals__))
    node.args.args.append(ast.arg(arg='__old__'))
    node.decorator_list = []
    mod = ast.Module(body=[node], type_ignores=[])
    ast.fix_missing_locations(mod)
    ns: Dict[str, Any] = {}
    g = dict(fn.__globals__)
    g['__same_result__'] = _same_result
    exec(compile(mod, f'<clause {fn.__qualname__}>', 'exec'), g, ns)
    post = ns[node.name]
    _COMPILED[key] = (pres, post, names, pre_names)
    return _COMPILED[key]


def _snap(v):
    if isinstance(v, list):
        return list(v)
    if isinstance(v, dict):
        return dict(v)
    return v


def _val_key(v):
    if v is None or isinstance(v, (str, int, float, bool)):
        return ('v', type(v).__name__, v)
    if isinstance(v, tuple):
        return ('t',) + tuple(_val_key(x) for x in v)
    return ('o', id(v))


def heap_snapshot(objs):
    """identity-level picture of the objects reachable before the call: attribute -> value (primitive by value, object
    by identity), list elements, dict items"""
    snap = {}
    for i, o in objs.items():
        if isinstance(o, list):
            snap[i] = ('list', [_val_key(x) for x in o])
        elif isinstance(o, dict):
            snap[i] = ('dict', [(k, _val_key(x)) for k, x in o.items()])
        elif hasattr(o, '__dict__') and type(o).__module__.startswith('pydbml'):
            snap[i] = ('obj', {k: _val_key(x) for k, x in vars(o).items()})
    return snap


def heap_diff(before, objs):
    """first difference between the snapshot and the same objects now: None or a description"""
    now = heap_snapshot(objs)
    for i, b in before.items():
        a = now.get(i)
        if a == b:
            continue
        o = objs[i]
        if b[0] == 'obj':
            for k in sorted(set(b[1]) | set(a[1])):
                if b[1].get(k, '<absent>') != a[1].get(k, '<absent>'):
                    return f'attribute {k!r} of a pre-existing {type(o).__name__} was written'
        return f'a pre-existing {type(o).__name__} ({b[0]}) was changed'
    return None


# ------------------------------------------------------------------------------------------ pools
def reachable(roots, limit=20000):
    seen = {}
    stack = list(roots)
    while stack and len(seen) < limit:
        o = stack.pop()
        if id(o) in seen or o is None or isinstance(o, (str, int, float, bool, type, types.FunctionType)):
            continue
        seen[id(o)] = o
        if isinstance(o, (list, tuple, set)) or type(o).__name__ == 'ParseResults':
            stack.extend(list(o))
        elif isinstance(o, dict):
            stack.extend(o.values())
        elif hasattr(o, '__dict__') and type(o).__module__.startswith('pydbml'):
            stack.extend(vars(o).values())
    return seen


def make_pool(seed: int) -> Dict[str, List[Any]]:
    """Fresh object graphs: two small API-built databases plus a few detached / degenerate objects."""
    from spec import gen_api
    from spec.model import build_api
    from pydbml.classes import (Table, Column, Index, Enum, EnumItem, Note, Reference, TableGroup, Project,
                                StickyNote, Expression)
    from pydbml.database import Database
    rng = random.Random(seed)
    dbs = []
    for k in range(2):
        try:
            m = gen_api.random_model(random.Random(rng.randrange(1 << 30)))
            dbs.append(build_api(m))
        except Exception:
            dbs.append(Database())
    pool: Dict[str, List[Any]] = {c: [] for c in MODEL_CLASSES}
    for o in reachable(dbs).values():
        n = type(o).__name__
        if n in pool:
            pool[n].append(o)
    # objects that clash with what the databases already contain (same names, aliases, equal copies)
    for db in dbs:
        for tb in list(db.tables)[:3]:
            if isinstance(tb.name, str):
                pool['Table'].append(Table(tb.name, schema=tb.schema, columns=[Column('id', 'int')]))
                pool['Table'].append(Table('zz_' + tb.name, alias=tb.full_name, columns=[Column('id', 'int')]))
                pool['Table'].append(Table('yy_' + tb.name, alias=tb.name, columns=[Column('id', 'int')]))
                if tb.alias:
                    pool['Table'].append(Table('xx_' + tb.name, alias=tb.alias, columns=[Column('id', 'int')]))
                    pool['Table'].append(Table(tb.alias, schema='public', columns=[Column('id', 'int')]))
                else:
                    pool['Table'].append(Table('ww_' + tb.name, alias='al_' + tb.name, columns=[Column('id', 'int')]))
        for e in list(db.enums)[:2]:
            pool['Enum'].append(Enum(e.name, ['q'], schema=e.schema))
        for g in list(db.table_groups)[:2]:
            pool['TableGroup'].append(TableGroup(g.name, list(g.items)))
        for r in list(db.refs)[:2]:
            pool['Reference'].append(Reference(r.type, list(r.col1), list(r.col2), name=r.name, comment=r.comment,
                                               on_update=r.on_update, on_delete=r.on_delete, inline=not r._inline))
    # detached and degenerate objects
    t = Table('detached')
    c = Column('dc', 'int')
    c2 = Column('free', 'varchar', pk=True)
    t.add_column(c)
    pool['Table'] += [t, Table('t2', schema='s', alias='al')]
    pool['Column'] += [c, c2, Column(None, 'int'), Column('x', None)]
    pool['Index'] += [Index([c]), Index(['s'], name='n', unique=True, type='hash', pk=True)]
    pool['Enum'] += [Enum('e', ['a', 'b']), Enum(None, [])]
    pool['EnumItem'] += [EnumItem('i'), EnumItem(None)]
    pool['Note'] += [Note('x'), Note(None), Note("it's\n\\\n2")]
    pool['Reference'] += [Reference('>', c, c2), Reference('<', [c, c2], [c2], name='n', inline=True),
                          Reference('<>', c, c)]
    # near-miss spellings of the literals the code treats specially (default schema, relation signs)
    for sch in ('PUBLIC', 'Public', 'public '):
        tc = Table('cased', schema=sch, note='table note', columns=[Column('id', 'int', note='column note')])
        tc.add_index(Index([tc.columns[0]], note='index note'))
        pool['Table'].append(tc)
        pool['Column'].append(tc.columns[0])
        pool['Index'].append(tc.indexes[0])
        pool['Note'] += [tc.note, tc.columns[0].note, tc.indexes[0].note]
        pool['Enum'].append(Enum('cased_enum', ['a'], schema=sch))
    pool['TableGroup'] += [TableGroup('g', [t])]
    pool['Project'] += [Project('p'), Project('q', items={'a': 'b'}, note='n')]
    pool['StickyNote'] += [StickyNote('s', 'text')]
    pool['Expression'] += [Expression('now()')]
    pool['Database'] += [Database()]
    # blueprint objects as the parser leaves them after a parse: tied to their parser, whose database is built.
    # Fixed documents cover the addressing corner cases (same table name in two schemas, aliases, composite
    # endpoints, groups, enums in schemas); one generated document adds variety.
    pool.update(blueprint_pool(rng))
    pool['__rng__'] = [rng]
    return pool


BLUEPRINT_DOCS = [
    '''Enum st {
  a [note: 'n'] // c
  b
}
Enum "my sch".kind {
  x
}
Table users as U [headercolor: #aaa] {
  id int [pk, increment] // c
  name varchar(10) [not null, unique, default: 'x', note: 'col note']
  st st
  kind "my sch".kind
  indexes {
    (id, name) [name: 'ix', unique]
    `lower(name)` [type: hash]
  }
  Note: 'table note'
}
Table archive.users {
  id int [pk]
  uid int [ref: > users.id]
  name varchar
}
Table orders {
  id int
  user_id int
  a_user int [ref: > archive.users.id]
  a int
  b int
}
Ref named: orders.user_id > users.id [delete: cascade, update: no action]
Ref: archive.users.name - users.name
Ref: orders.(a, b) < archive.users.(id, uid)
Ref: orders.a <> U.id
TableGroup g1 [color: #abc] {
  users
  archive.users
  Note: 'group note'
}
Note sticky {
  'text'
}
Project p {
  database_type: 'pg'
  Note: 'project note'
}
''',
    '''Table a {
  id int
}
Table s1.a {
  id int
  x int [ref: - a.id]
}
Table s2.a as al {
  id int
  y int [ref: < s1.a.id]
}
Ref: s2.a.id > a.id
TableGroup g {
  a
  s1.a
  al
}
''',
]


def blueprint_pool(rng) -> Dict[str, List[Any]]:
    from pydbml.parser.parser import PyDBMLParser
    import pydbml.parser.blueprints as BP
    out: Dict[str, List[Any]] = {n: [] for n in dir(BP) if n.endswith('Blueprint') and n != 'Blueprint'}
    out['PyDBMLParser'] = []
    docs = list(BLUEPRINT_DOCS)
    try:
        from spec import gen, surface
        docs.append(surface.render(gen.random_model(random.Random(rng.randrange(1 << 30)))))
    except Exception:
        pass
    for text in docs:
        try:
            p = PyDBMLParser(text)
            p.parse()
        except Exception:
            continue
        out['PyDBMLParser'].append(p)
        for o in reachable([p.tables, p.refs, p.enums, p.table_groups, p.sticky_notes, p.project, p.ref_blueprints]).values():
            n = type(o).__name__
            if n in out and n != 'PyDBMLParser':
                out[n].append(o)
    return out


STRS = ['', 'a', 'public', 'PUBLIC', 'Public', 'public.a', 'id', 'x y', "it's", 'a\nb', '﻿z', '﻿﻿z', 'note', '{c}', 'a.b']
INTS = [-2, -1, 0, 1, 2, 5]


def pick(pool, tstr, rng: random.Random):
    if not isinstance(tstr, str):
        return tstr
    T = parse_type(tstr)
    alts = type_alternatives(T)
    a = rng.choice(alts)
    k = a[0]
    if k == 'none':
        return None
    if k == 'str':
        names = [getattr(o, 'name', None) for o in pool['Table'] + pool['Column'] + pool['Enum']]
        names = [n for n in names if isinstance(n, str)]
        full = [t.full_name for t in pool['Table'] if isinstance(t.name, str) and isinstance(t.schema, str)]
        return rng.choice(STRS + names + full)
    if k == 'int':
        return rng.choice(INTS)
    if k == 'bool':
        return rng.choice([True, False])
    if k == 'float':
        return rng.choice([0.0, 1.5])
    if k == 'obj':
        c = pool.get(a[1])
        if c:
            return rng.choice(c)
        raise LookupError(f'no pool for class {a[1]}')
    if k == 'list':
        inner = a[1]
        n = rng.randrange(0, 3)
        return [pick(pool, _unparse(inner), rng) for _ in range(n)]
    if k == 'dict':
        return {rng.choice(['k', 'a b', 'x']): rng.choice(STRS) for _ in range(rng.randrange(0, 3))}
    if k == 'clsobj':
        from pydbml.renderer.sql.default import DefaultSQLRenderer
        from pydbml.renderer.dbml.default import DefaultDBMLRenderer
        return rng.choice([DefaultSQLRenderer, DefaultDBMLRenderer])
    if k == 'any':
        return rng.choice([None, 'a', 1] + pool['Table'][:1])
    raise LookupError(f'cannot generate {a}')


def _unparse(T) -> str:
    k = T[0]
    if k in ('str', 'int', 'bool', 'float'):
        return k
    if k == 'none':
        return 'None'
    if k == 'obj':
        return T[1]
    if k == 'any':
        return 'Any'
    if k == 'list':
        return f'List[{_unparse(T[1])}]'
    if k == 'dict':
        return f'Dict[{_unparse(T[1])}]'
    if k == 'union':
        return 'Union[' + ','.join(_unparse(a) for a in T[1]) + ']'
    if k == 'clsobj':
        return 'Cls'
    raise LookupError(str(T))


# ------------------------------------------------------------------------------------------ one trial
STATS: Dict[str, int] = {}


class Violation(Exception):
    def __init__(self, clause, message):
        self.clause = clause
        self.message = message


def describe(v, depth=0) -> Any:
    if v is None or isinstance(v, (str, int, float, bool)):
        return v
    if isinstance(v, (list, tuple)):
        return [describe(x, depth + 1) for x in v[:6]]
    if isinstance(v, dict):
        return {str(k): describe(x, depth + 1) for k, x in list(v.items())[:6]}
    if isinstance(v, type):
        return f'<class {v.__name__}>'
    n = type(v).__name__
    out = {'class': n}
    if depth < 2 and hasattr(v, '__dict__'):
        for k, x in list(vars(v).items())[:14]:
            if k in ('database', 'table', 'parent'):
                out[k] = None if x is None else f'<{type(x).__name__} {getattr(x, "name", "")!r}>'
            else:
                out[k] = describe(x, depth + 1)
    return out


def run_trial(target: str, seed: int) -> Optional[Dict[str, Any]]:
    """One native evaluation of the contract of `target` on generated arguments.
    Returns None (contract held or precondition not met) or a dict describing the violation."""
    con = CONTRACTS[target]
    fn, klass = resolve_target(target)
    pool = make_pool(seed)
    rng = pool['__rng__'][0]
    node = func_ast(fn)
    names = [a.arg for a in node.args.posonlyargs + node.args.args + node.args.kwonlyargs]
    try:
        args = {n: pick(pool, con.params[n], rng) for n in names}
    except LookupError:
        return None
    # precondition
    for name, f in con.requires:
        try:
            pres, post, cn, pn = compile_clause(f)
            if not post(*[args[n] for n in pn], [p(*[args[n] for n in pn]) for p in pres]):
                return None
        except Exception:
            return None
    recipe = {'target': target, 'seed': seed}
    STATS['pre_held'] = STATS.get('pre_held', 0) + 1
    argdesc = {n: describe(v) for n, v in args.items()}
    # pre-state evaluations
    raise_due = []
    for exc, name, f in con.raises:
        try:
            pres, post, cn, pn = compile_clause(f)
            due = bool(post(*[args[n] for n in pn], []))
        except Exception as e:
            return None
        raise_due.append((exc, name, due))
    maybe_due = []
    for exc, name, f in getattr(con, 'maybe', []):
        try:
            pres, post, cn, pn = compile_clause(f)
            maybe_due.append((exc, name, bool(post(*[args[n] for n in pn], []))))
        except Exception:
            return None
    olds = {}
    for name, f in con.ensures:
        pres, post, cn, pn = compile_clause(f)
        try:
            olds[name] = [_snap(p(*[args[n] for n in pn])) for p in pres]
        except Exception:
            olds[name] = None
    pre_objs = reachable(list(args.values()))       # kept alive: CPython reuses ids of freed objects
    speclib._NATIVE_PRE_IDS = set(pre_objs.keys())
    before = heap_snapshot(pre_objs) if con.pure else None
    try:
        try:
            result = fn(*[args[n] for n in names])
            raised = None
        except Exception as e:          # the code under test
            raised = e
            result = None
        if before is not None:
            # the contract says `pure`: nothing that existed before the call may have been written (the frame clause
            # the solver proves for all inputs, evaluated here on this input), on normal and exceptional exits alike
            d = heap_diff(before, pre_objs)
            if d is not None:
                return dict(recipe, clause='frame.pure', args=argdesc,
                            message=f'the contract declares the function pure, but {d}')
        if raised is not None:
            if isinstance(raised, TypeError) and '__str__ returned non-string' in str(raised):
                return None        # formatting an error message for an unnamed object (assumption A-MSG)
            declared = [(exc, name, due) for exc, name, due in raise_due if isinstance(raised, exc)]
            if declared:
                if not any(due for _, _, due in declared):
                    return dict(recipe, clause=declared[0][1] + '.only-when', args=argdesc,
                                message=f'raised {type(raised).__name__}: {raised} although its condition does not hold')
                return None
            mb = [(name, due) for exc, name, due in maybe_due if isinstance(raised, exc)]
            if mb:
                if not any(due for _, due in mb):
                    return dict(recipe, clause=mb[0][0] + '.only-when', args=argdesc,
                                message=f'raised {type(raised).__name__}: {raised} although its condition does not hold')
                return None
            if con.allowed and isinstance(raised, con.allowed):
                return None
            return dict(recipe, clause=f'no-exception.{type(raised).__name__}', args=argdesc,
                        message=f'undeclared exception {type(raised).__name__}: {raised}')
        for exc, name, due in raise_due:
            if due:
                return dict(recipe, clause=name + '.else-normal', args=argdesc,
                            message=f'returned normally although {exc.__name__} is due')
        for name, f in con.ensures:
            pres, post, cn, pn = compile_clause(f)
            if olds[name] is None:
                continue
            vals = [args[n] if n != 'result' else result for n in cn]
            try:
                ok = post(*vals, olds[name])
            except Exception as e:
                return dict(recipe, clause=name, args=argdesc, result=describe(result),
                            message=f'postcondition {name} raised {type(e).__name__}: {e}')
            if not ok:
                return dict(recipe, clause=name, args=argdesc, result=describe(result),
                            message=f'postcondition {name} is false')
        return None
    finally:
        speclib._NATIVE_PRE_IDS = None


def search(target: str, trials: int, seed: int = 0):
    """-> (trials run, trials in which the precondition held, harness errors, first violation)"""
    ran = errs = 0
    STATS['pre_held'] = 0
    for i in range(trials):
        ran += 1
        try:
            v = run_trial(target, seed * 100003 + i)
        except Exception as e:      # harness problem: do not report as a violation
            errs += 1
            continue
        if v is not None:
            return ran, STATS['pre_held'], errs, v
    return ran, STATS['pre_held'], errs, None
