"""Replay of a recorded failing input of a contract obligation against the current tree."""
from __future__ import annotations

from typing import Any, Dict, Optional, Tuple


def replay_obligation(ob_id: str, doc: Dict[str, Any]) -> Optional[Tuple[str, str]]:
    from pyvc import runner
    runner.load_all_contracts()
    from pyvc import native
    recipe = doc.get('recipe') or {}
    if 'target' not in recipe or 'seed' not in recipe:
        # a refutation without a concrete input: re-run the obligation itself
        raise SystemExit('this replay file records a solver refutation without a concrete input; '
                         're-run the property check to re-evaluate the obligation')
    v = native.run_trial(recipe['target'], recipe['seed'])
    if v is None:
        return None
    return v['clause'], v['message'] + ' | args=' + str(v.get('args'))[:400]
