"""Replay of a recorded failing input of a contract obligation against the current tree."""
from __future__ import annotations

from typing import Any, Dict, Optional, Tuple


def replay_obligation(ob_id: str, doc: Dict[str, Any]) -> Optional[Tuple[str, str]]:
    from pyvc import runner
    runner.load_all_contracts()
    from pyvc import native
    recipe = doc.get('recipe') or {}
    if 'target' not in recipe or 'seed' not in recipe:
        # a refutation without a concrete input: the replay re-generates and re-discharges that obligation
        # from the current source
        fn_, clause = recipe.get('function'), recipe.get('clause')
        if not fn_ or not clause:
            raise SystemExit('replay file names neither an input nor an obligation')
        from pyvc.verify import verify_function
        r = verify_function(fn_, only=clause.split('#')[0], timeout_ms=8000)
        if r.error or r.unsupported:
            return clause, 'obligation cannot be generated on this tree: ' + (r.error or r.unsupported)[:300]
        bad = {k: v for k, v in r.clauses.items() if k.split('#')[0] == clause.split('#')[0] and v['verdict'] != 'discharged'}
        if not bad:
            return None
        k, v = sorted(bad.items())[0]
        return clause, f'obligation {fn_}.{k} is {v["verdict"]} on this tree (no failing input known): {v["detail"][:300]}'
    v = native.run_trial(recipe['target'], recipe['seed'])
    if v is None:
        return None
    return v['clause'], v['message'] + ' | args=' + str(v.get('args'))[:400]
