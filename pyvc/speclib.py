"""Vocabulary available in contract text beyond plain Python.

Each name has a *native* meaning (used when a contract is evaluated on real objects: replay and the
run-time twins) and a *symbolic* meaning registered with the engine.

  old(e)     value of e in the pre-state (special form; natively resolved by pyvc.replay)
  fresh(x)   x was allocated during the call
"""
from __future__ import annotations

import z3

from . import builtins as _B
from .engine import SV, mk_bool, Unsupported

_NATIVE_PRE_IDS = None      # set of id()s reachable before the call, installed by pyvc.replay


def fresh(x):
    if _NATIVE_PRE_IDS is None:
        raise RuntimeError('fresh() evaluated natively outside a replay')
    return id(x) not in _NATIVE_PRE_IDS


def old(x):      # pragma: no cover  (rewritten away by pyvc.replay before native evaluation)
    raise RuntimeError('old() must be resolved by the replay harness')


@_B.builtin(fresh)
def _fresh(ip, args, kw, fr):
    v = args[0]
    if v.k == 'pylist':
        if v.py.href is None:
            return mk_bool(True)
        return mk_bool(v.py.href >= ip.st.alloc0)
    if v.k == 'ref':
        return mk_bool(v.e >= ip.st.alloc0)
    if v.k == 'val':
        from .sorts import Val
        return mk_bool(z3.And(Val.is_r(v.e), Val.rv(v.e) >= ip.st.alloc0))
    raise Unsupported(f'fresh() of {v.k}')


def abstract(ret='str', heap=True):
    """Mark a spec function as *abstract*: symbolically it is an uninterpreted function of its
    arguments and — unless heap=False — of the heap version (so two evaluations in the same heap agree
    and nothing else is known about it); natively it runs its body.  Used to name the result of a callee without
    re-expanding the callee's specification inside every caller (modular composition)."""
    def deco(fn):
        fn._pyvc_abstract = (fn.__name__, ret, heap)
        return fn
    return deco
