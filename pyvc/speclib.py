"""Vocabulary available in contract text beyond plain Python.

Each name has a *native* meaning (used when a contract is evaluated on real objects: replay and the
run-time twins) and a *symbolic* meaning registered with the engine.

  old(e)     value of e in the pre-state (special form; natively resolved by pyvc.replay)
  fresh(x)   x was allocated during the call
"""
from __future__ import annotations

import z3

from . import builtins as _B
from .engine import SV, mk_bool, Unsupported

_NATIVE_PRE_IDS = None      # set of id()s reachable before the call, installed by pyvc.replay


def fresh(x):
    if _NATIVE_PRE_IDS is None:
        raise RuntimeError('fresh() evaluated natively outside a replay')
    return id(x) not in _NATIVE_PRE_IDS


def old(x):      # pragma: no cover  (rewritten away by pyvc.replay before native evaluation)
    raise RuntimeError('old() must be resolved by the replay harness')


@_B.builtin(fresh)
def _fresh(ip, args, kw, fr):
    v = args[0]
    if v.k == 'pylist':
        if v.py.href is None:
            return mk_bool(True)
        return mk_bool(v.py.href >= ip.st.alloc0)
    if v.k == 'ref':
        return mk_bool(v.e >= ip.st.alloc0)
    if v.k == 'val':
        from .sorts import Val
        return mk_bool(z3.And(Val.is_r(v.e), Val.rv(v.e) >= ip.st.alloc0))
    raise Unsupported(f'fresh() of {v.k}')


def abstract(ret='str', heap=True):
    """Mark a spec function as *abstract*: symbolically it is an uninterpreted function of its
    arguments and — unless heap=False — of the heap version (so two evaluations in the same heap agree
    and nothing else is known about it); natively it runs its body.  Used to name the result of a callee without
    re-expanding the callee's specification inside every caller (modular composition)."""
    def deco(fn):
        fn._pyvc_abstract = (fn.__name__, ret, heap)
        return fn
    return deco


# ------------------------------------------------------------------------------------------ regular languages in specs
class Rx:
    """A regular language written with combinators in a contract file (module level), independently of any
    pattern text in /repo.  `matches(s, rx)` is its membership test: symbolically InRe(s, rx.z3()), natively
    re.fullmatch of the equivalent Python pattern."""
    def __init__(self, kind, *args):
        self.kind, self.args = kind, args

    def z3(self):
        k, a = self.kind, self.args
        sv = z3.StringVal
        if k == 'lit':
            return z3.Re(sv(a[0]))
        if k == 'cls':
            parts = [z3.Range(sv(x[0]), sv(x[-1])) if len(x) == 3 else z3.Re(sv(x)) for x in a]
            return parts[0] if len(parts) == 1 else z3.Union(*parts)
        if k == 'any':
            return z3.AllChar(z3.ReSort(z3.StringSort()))
        if k == 'seq':
            return z3.Concat(*[x.z3() for x in a])
        if k == 'alt':
            return z3.Union(*[x.z3() for x in a])
        if k == 'plus':
            return z3.Plus(a[0].z3())
        if k == 'star':
            return z3.Star(a[0].z3())
        if k == 'opt':
            return z3.Option(a[0].z3())
        raise ValueError(k)

    def py(self):
        import re
        k, a = self.kind, self.args
        if k == 'lit':
            return re.escape(a[0])
        if k == 'cls':
            return '[' + ''.join((re.escape(x[0]) + '-' + re.escape(x[-1])) if len(x) == 3 else re.escape(x) for x in a) + ']'
        if k == 'any':
            return r'[\s\S]'
        if k == 'seq':
            return ''.join('(?:' + x.py() + ')' for x in a)
        if k == 'alt':
            return '|'.join('(?:' + x.py() + ')' for x in a)
        return '(?:' + a[0].py() + ')' + {'plus': '+', 'star': '*', 'opt': '?'}[k]


def rx_lit(s): return Rx('lit', s)
def rx_cls(*items): return Rx('cls', *items)          # items: 'a-z' ranges or single characters
def rx_any(): return Rx('any')
def rx_seq(*xs): return Rx('seq', *xs)
def rx_alt(*xs): return Rx('alt', *xs)
def rx_plus(x): return Rx('plus', x)
def rx_star(x): return Rx('star', x)
def rx_opt(x): return Rx('opt', x)


def matches(s, rx):
    import re
    return re.fullmatch(rx.py(), s) is not None


@_B.builtin(matches)
def _matches(ip, args, kw, fr):
    rx = args[1]
    if rx.k != 'const' or not isinstance(rx.py, Rx):
        raise Unsupported('matches(): the language must be a module-level Rx constant')
    return mk_bool(z3.InRe(ip.as_str(args[0]), rx.py.z3()))
