"""Run the contracts that carry a property, in parallel, and turn the results into OblResults."""
from __future__ import annotations

import importlib
import json
import multiprocessing as mp
import os
import pkgutil
import sys
import time
import traceback
from typing import Any, Dict, List, Optional, Tuple

from lib import common
from lib.common import OblResult, Failure, DISCHARGED, REFUTED, UNDECIDED, ERROR

LEDGER = os.path.join(common.VERIF, 'ledger', 'obligations.lock.json')
GENERIC_FAMILIES = ('frame.', 'no-exception.', 'type:', 'pre:')

WIDE = {'C08': ('no-exception.', 'pre:', 'raises_')}

TRUSTED_BASE = [
    'PyVC (self-built VC generator, /verif/pyvc): encoding of Python semantics per DESIGN.md 2.4',
    'z3 5.1.0 (z3-solver wheel) as the discharging back end; /usr/bin/cvc5 and /usr/bin/z3 4.8.12 as cross-checks in the thorough tier',
    'typed-heap invariant of contracts/types.py (preserved by every verified store; assumed of client code)',
    'trusted builtin contracts in pyvc/builtins.py (str/list/dict methods, textwrap.indent, itertools.chain, sorted, min, re.sub shapes)',
    'exact model classes (no user subclasses of Table/Column/...): A-EXACT',
    'error-message formatting in `raise X(f"...")` is total and effect-free: A-MSG',
    'structural equality (__eq__) is an uninterpreted relation with the consequences stated in pyvc/engine.py:eqv_facts',
]

ASSUMPTIONS = [
    'int is mathematical; str is an SMT string (code points above 0x2FFFF not represented: A-UNI)',
    'no concurrency inside a call; no reflection/monkey-patching; attribute lookup = instance dict, class, property',
    'dict preserves insertion order; list.index/in use identity-or-__eq__',
    'fresh objects are distinct from every object reachable in the pre-state (allocation counter alloc0)',
    'A-ALLOC: a callee under contract allocates fewer than 2^20 objects; one symbolic iteration allocates fewer than 2^20 '
    'objects per element; the iterations of one loop verified by invariant allocate fewer than 2^28 objects',
    'attributes are assigned before they are read (reading an unassigned attribute of a new object is not modelled)',
    'loop invariants, frames (modifies) and abstract result names in contracts are checked, not assumed; tier-none '
    'contracts and the builtin models of pyvc/builtins.py are assumed',
    'A-EXACT: objects have exactly the classes of contracts/types.py (no user subclasses of model classes; '
    'renderer classes are the two default ones wherever a contract fixes cls)',
    'A-MSG: building the message of a raised exception (f-string with str()/repr() of model objects) succeeds and has no effect',
    'machine arithmetic: none in pydbml (Python int); float only passes through uninterpreted (float(text), str(f))',
    'termination is not proved: for-loops range over finite lists; recursion (pyparsing, join_table.sql) is outside the engine',
    'pyparsing itself (matching, backtracking, ParseResults construction) is external and unverified: parse actions are '
    'verified against a symbolic ParseResults whose names are those the grammar can produce',
]


def load_all_contracts():
    import contracts
    for m in pkgutil.iter_modules(contracts.__path__):
        if m.name in ('props', 'types') or m.name.startswith('_'):
            continue
        importlib.import_module(f'contracts.{m.name}')
    from pyvc.verify import CONTRACTS
    return CONTRACTS


def _work(job):
    target, only, timeout_ms, thorough, seed = job
    from pyvc.verify import verify_function
    t0 = time.time()
    try:
        r = verify_function(target, only=None, timeout_ms=timeout_ms)
        und = [c for c, v in r.clauses.items() if v['verdict'] == 'undecided']
        if und and not r.error and not r.unsupported and os.environ.get('PYVC_NO_SMALL_SCOPE') != '1':
            # small-scope refutation search for what the unbounded attempt left open
            r2 = verify_function(target, only=None, timeout_ms=min(timeout_ms, 2500), bound=2)
            for c in und:
                base = c.split('#')[0]
                for c2, v2 in r2.clauses.items():
                    if c2.split('#')[0] == base and v2['verdict'] == 'refuted':
                        v2 = dict(v2)
                        v2['detail'] = 'small scope (lists <= 2): ' + v2['detail']
                        r.clauses[c] = v2
                        break
            r.seconds += r2.seconds
            r.solver_s += r2.solver_s
        # run-time twin of the contract on the real code: a concrete failing input for whatever the
        # solver refuted or left open (and, in the thorough tier, a bounded stand-in for every contract)
        native_v = None
        native_stats = None
        open_ = [c for c, v in r.clauses.items() if v['verdict'] != 'discharged']
        trials = 0
        if open_ or r.error or r.unsupported:
            trials = 400
        if thorough:
            trials = max(trials, 3000)
        if trials:
            try:
                from pyvc import native
                ran, held, errs, native_v = native.search(target, trials, seed)
                native_stats = {'trials': ran, 'precondition_held': held, 'harness_errors': errs}
            except Exception:
                native_stats = {'error': traceback.format_exc()[-600:]}
        return target, {
            'native_violation': native_v, 'native_stats': native_stats,
            'clauses': r.clauses, 'paths': r.paths, 'seconds': r.seconds, 'solver_s': r.solver_s,
            'error': r.error, 'unsupported': r.unsupported, 'inlined': r.inlined,
            'contracts_used': r.contracts_used, 'notes': r.notes, 'source': r.source_lines,
            'nqueries': r.nqueries,
        }
    except Exception:
        return target, {'clauses': {}, 'paths': 0, 'seconds': time.time() - t0, 'solver_s': 0,
                        'native_violation': None, 'native_stats': None,
                        'error': traceback.format_exc()[-2000:], 'unsupported': None, 'inlined': [],
                        'contracts_used': [], 'notes': [], 'source': ('', 0, 0), 'nqueries': 0}


def load_ledger() -> Dict[str, Any]:
    if os.path.exists(LEDGER):
        return json.load(open(LEDGER, encoding='utf8'))
    return {'discharged': []}


def run_targets(targets: List[str], tier: str, workers: int = 0) -> Dict[str, Dict[str, Any]]:
    timeout_ms = 4000 if tier == 'quick' else 30000
    jobs = [(t, None, timeout_ms, tier == 'thorough', common.seed()) for t in targets]
    workers = workers or min(16, os.cpu_count() or 1, max(1, len(jobs)))
    out = {}
    if len(jobs) == 1 or os.environ.get('PYVC_SERIAL') == '1':
        for j in jobs:
            t, r = _work(j)
            out[t] = r
        return out
    ctx = mp.get_context('fork')
    with ctx.Pool(workers, maxtasksperchild=1) as pool:
        for t, r in pool.imap_unordered(_work, jobs):
            out[t] = r
    return out


def results_for_property(prop: str, tier: str, only: Optional[str] = None,
                         replay_fn=None) -> Tuple[List[OblResult], Dict[str, Any]]:
    contracts = load_all_contracts()
    targets = sorted(t for t, c in contracts.items() if prop in c.property_ids and not c.inline
                     and (tier == 'thorough' or c.tier == 'quick'))
    # C08 ("no internal error") is made of the exception-freedom obligations of *every* verified function:
    # undeclared exceptions, callee preconditions (which guard partial operations), declared raises
    wide = WIDE.get(prop)
    own = set(targets)
    if wide:
        targets = sorted(t for t, c in contracts.items() if not c.inline and (tier == 'thorough' or c.tier == 'quick'))
    if only:
        targets = [t for t in targets if only in t] or targets
    raw = run_targets(targets, tier)
    led = load_ledger()
    ledger = set(led.get('discharged', []))
    # functions all of whose obligations were discharged on the pinned tree: a refuted obligation of
    # a generic family (frame / undeclared exception / typing / callee precondition) that did not
    # exist there — because the offending store, raise or call did not exist — also counts as
    # "passed on the pinned tree and fails now"
    fully = set(led.get('fully_discharged_functions', []))
    results: List[OblResult] = []
    fuc, inlined, used = [], set(), set()
    notes = []
    for t in targets:
        r = raw[t]
        fuc.append(t)
        inlined.update(r['inlined'])
        used.update(r['contracts_used'])
        for n in r['notes']:
            if n not in notes:
                notes.append(n)
        nv = r.get('native_violation')
        ns = r.get('native_stats')
        if ns and 'trials' in ns:
            # the run-time twin is a bounded obligation of its own
            ob = OblResult(id=f'{prop}.B.contract-twin.{t}', kind='B', verdict=DISCHARGED, backend='bounded',
                           function=t, evaluations=ns['trials'], distinct_nontrivial=ns['precondition_held'],
                           rule='real function called on objects drawn from generated databases, inside its run-time contract; '
                                'non-trivial = precondition held', bound=f'{ns["trials"]} seeded argument tuples',
                           samples=[{'target': t, 'seed': common.seed() * 100003}])
            if nv is not None:
                ob.verdict = REFUTED
                ob.detail = nv['clause'] + ': ' + nv['message'][:300]
                ob.failures.append(Failure(obligation=ob.id, key=nv['clause'],
                                           message=nv['message'] + ' | args=' + json.dumps(nv.get('args'), default=repr)[:600],
                                           recipe={'target': nv['target'], 'seed': nv['seed']}, native=True))
            results.append(ob)
        if r['error']:
            results.append(OblResult(id=f'{prop}.P.{t}', kind='P', verdict=ERROR, backend='pyvc',
                                     detail='engine error: ' + r['error'], function=t))
            continue
        if r['unsupported']:
            results.append(OblResult(id=f'{prop}.P.{t}', kind='P', verdict=UNDECIDED, backend='pyvc',
                                     detail='outside the engine\'s subset: ' + r['unsupported'], function=t,
                                     seconds=r['seconds']))
            continue
        if not r['clauses']:
            results.append(OblResult(id=f'{prop}.P.{t}', kind='P', verdict=ERROR, backend='pyvc',
                                     detail='zero obligations generated', function=t))
            continue
        nclauses = len(r['clauses'])
        for cname, c in r['clauses'].items():
            if wide and t not in own and not cname.startswith(wide):
                continue
            oid = f'{prop}.P.{t}.{cname}'
            o = OblResult(id=oid, kind='P', verdict=DISCHARGED, backend='z3-5.1.0', function=t,
                          seconds=round(r['solver_s'] / max(1, nclauses), 4))
            lid = f'{t}.{cname}'
            if c['verdict'] == 'discharged':
                pass
            elif c['verdict'] == 'refuted':
                o.verdict = REFUTED
                o.detail = c['detail']
                cex = c.get('cex') or {}
                native = None
                if nv is not None:
                    # the concrete failing input is reported by the contract twin (one VIOLATION line)
                    o.detail = 'refuted; concrete failing input found by the run-time twin: ' + nv['clause']
                    results.append(o)
                    continue
                if native is not None and native.get('violates'):
                    o.failures.append(Failure(obligation=oid, key=native.get('key', cname),
                                              message=native.get('message', c['detail']),
                                              recipe=native.get('recipe'), native=True,
                                              solver_output=cex.get('model')))
                elif native is not None and native.get('holds'):
                    o.verdict = UNDECIDED
                    o.detail = ('refuted under the encoding but the decoded input satisfies the contract '
                                'natively (abstraction artefact): ' + c['detail'])
                elif lid in ledger or (t in fully and (cname.startswith(GENERIC_FAMILIES) or '.heap-unchanged.' in cname)):
                    o.failures.append(Failure(
                        obligation=oid, key=cname,
                        message=(f'obligation {lid} was discharged on the pinned tree and is now refuted by '
                                 f'z3 (counter-model: {cex.get("model", "")[:300]}); {c["detail"]}'),
                        recipe={'function': t, 'clause': cname, 'model': cex.get('model')},
                        native=False, solver_output=cex.get('model')))
                else:
                    o.verdict = UNDECIDED
                    o.detail = 'refuted, but the obligation is not in the ledger of the pinned tree: ' + c['detail']
            else:
                o.verdict = UNDECIDED
                o.detail = c['detail']
            results.append(o)
        if wide:
            # one summary obligation per function: every explored path ends in a return or in a declared/allowed
            # exception (an undeclared exception on any path is a clause `no-exception.<Exc>` of its own, above)
            bad = [cn for cn, c in r['clauses'].items() if cn.startswith('no-exception.') and c['verdict'] != 'discharged']
            results.append(OblResult(
                id=f'{prop}.P.{t}.exception-freedom', kind='P', backend='pyvc+z3-5.1.0', function=t,
                verdict=DISCHARGED if not bad else UNDECIDED,
                detail=(f'{r["paths"]} paths explored; none ends in an undeclared exception' if not bad else
                        'see ' + ', '.join(bad))))
    meta = {
        'functions_under_contract': fuc,
        'trusted_base': TRUSTED_BASE,
        'assumptions': ASSUMPTIONS + [f'note: {n}' for n in notes]
        + [f'assumed contract (callee not verified, tier none): {u}' for u in sorted(used)
           if u in contracts and contracts[u].tier == 'none']
        + [f'inlined callee (body executed, no contract): {u}' for u in sorted(inlined)],
        'extra': {
            'inlined_callees': sorted(inlined),
            'callee_contracts_used': sorted(used),
            'per_function': {t: {'paths': raw[t]['paths'], 'seconds': raw[t]['seconds'],
                                 'solver_s': raw[t]['solver_s'], 'queries': raw[t]['nqueries'],
                                 'source': list(raw[t]['source'])} for t in targets},
        },
    }
    return results, meta


def write_ledger(only=None):
    """Record the obligations discharged on the current tree (run once on the pinned tree).
    `only`: substrings of targets — just those functions are re-verified and their entries replaced."""
    contracts = load_all_contracts()
    targets = sorted(t for t, c in contracts.items() if not c.inline and c.tier != 'none')
    prev = None
    if only:
        targets = [t for t in targets if any(o in t for o in only)]
        prev = load_ledger()
    raw = run_targets(targets, 'quick')
    discharged = []
    others = {}
    for t in targets:
        r = raw[t]
        for cname, c in r['clauses'].items():
            if c['verdict'] == 'discharged':
                discharged.append(f'{t}.{cname}')
            else:
                others[f'{t}.{cname}'] = c['verdict'] + ': ' + c['detail'][:200]
        if r['error'] or r['unsupported']:
            others[t] = (r['error'] or r['unsupported'])[:300]
    os.makedirs(os.path.dirname(LEDGER), exist_ok=True)
    fully = [t for t in targets if raw[t]['clauses'] and not raw[t]['error'] and not raw[t]['unsupported']
             and all(c['verdict'] == 'discharged' for c in raw[t]['clauses'].values())]
    if prev:
        redone = set(targets)
        keep = lambda k: not any(k == t or k.startswith(t + '.') for t in redone)      # noqa: E731
        discharged += [k for k in prev.get('discharged', []) if keep(k)]
        fully += [t for t in prev.get('fully_discharged_functions', []) if t not in redone]
        for k, v in prev.get('not_discharged', {}).items():
            if keep(k):
                others.setdefault(k, v)
    doc = {'source_hash': common.repo_source_hash(), 'discharged': sorted(set(discharged)),
           'fully_discharged_functions': sorted(set(fully)), 'not_discharged': others}
    json.dump(doc, open(LEDGER, 'w', encoding='utf8'), indent=1)
    return doc


if __name__ == '__main__':
    if len(sys.argv) > 1 and sys.argv[1] == 'ledger':
        d = write_ledger(sys.argv[2:] or None)
        print(f'{len(d["discharged"])} obligations discharged; {len(d["not_discharged"])} not')
        for k, v in d['not_discharged'].items():
            print('  ', k, '::', v)
    else:
        contracts = load_all_contracts()
        targets = [t for t in sys.argv[1:]] or sorted(t for t, c in contracts.items() if not c.inline)
        raw = run_targets(targets, 'quick')
        for t in targets:
            r = raw[t]
            print(t, 'paths', r['paths'], 'sec', r['seconds'], 'solver', r['solver_s'])
            if r['error']:
                print('   ERROR', r['error'])
            if r['unsupported']:
                print('   UNSUPPORTED', r['unsupported'])
            for n in r['notes']:
                print('   note:', n)
            for k, v in r['clauses'].items():
                if v['verdict'] != 'discharged':
                    print('   ', k, v['verdict'], v['detail'], (v.get('cex') or {}).get('model', '')[:200])
            print('    discharged:', sum(1 for v in r['clauses'].values() if v['verdict'] == 'discharged'), '/', len(r['clauses']))
