"""Mutation self-test of the verifier (a guard against vacuous or insensitive proofs).

For every function under a verified contract, small syntactic changes are made to a scratch copy of the
function (negate the first `if`, drop a statement, return None instead of the value, swap the operands of the
first comparison) and the function is verified again against the unchanged contract.  A change after which every
obligation is still discharged *survives*.  Survivors are expected now and then (the change may be irrelevant to
what the contract states); a function whose proof survives every change made to it is reported as INSENSITIVE:
either its contract says nothing about its body, or the proof is vacuous.

Usage:  python -m pyvc.selftest [substring of target ...]      (scratch copies live under a temp dir)
"""
from __future__ import annotations

import ast
import json
import os
import shutil
import subprocess
import sys
import tempfile
import time
from concurrent.futures import ThreadPoolExecutor
from typing import List, Optional, Tuple

HERE = os.path.dirname(os.path.dirname(os.path.abspath(__file__)))
REPO = os.environ.get('VERIF_REPO', '/repo')


class _Mut(ast.NodeTransformer):
    def __init__(self, kind):
        self.kind = kind
        self.done = False

    def visit_FunctionDef(self, node):      # do not descend into nested defs for statement-level changes
        return self.generic_visit(node)


def mutants_of(fn_node: ast.FunctionDef) -> List[Tuple[str, ast.FunctionDef]]:
    out = []
    src = ast.unparse(fn_node)

    def fresh():
        return ast.parse(src).body[0]
    # M1 negate the first if / conditional expression test
    n = fresh()
    for x in ast.walk(n):
        if isinstance(x, (ast.If, ast.IfExp)):
            x.test = ast.UnaryOp(op=ast.Not(), operand=x.test)
            out.append(('negate-first-if', n))
            break
    # M2 drop the last statement that is not a return/raise/docstring (top level of the body)
    n = fresh()
    body = n.body
    cand = [i for i, s in enumerate(body) if not isinstance(s, (ast.Return, ast.Raise))
            and not (isinstance(s, ast.Expr) and isinstance(s.value, ast.Constant) and isinstance(s.value.value, str))]
    if cand and len(body) > 1:
        del body[cand[-1]]
        out.append(('drop-last-statement', n))
    # M3 return None instead of the (last) returned value
    n = fresh()
    rets = [x for x in ast.walk(n) if isinstance(x, ast.Return) and x.value is not None
            and not (isinstance(x.value, ast.Constant) and x.value.value is None)]
    if rets:
        rets[-1].value = ast.Constant(value=None)
        out.append(('return-none', n))
    # M4 swap the operands of the first comparison (== / is / in stay meaningful for most types)
    n = fresh()
    for x in ast.walk(n):
        if isinstance(x, ast.Compare) and len(x.ops) == 1 and isinstance(x.ops[0], (ast.Lt, ast.Gt, ast.LtE, ast.GtE, ast.NotEq, ast.Eq, ast.Is, ast.IsNot)):
            x.ops[0] = {ast.Lt: ast.GtE, ast.Gt: ast.LtE, ast.LtE: ast.Gt, ast.GtE: ast.Lt, ast.NotEq: ast.Eq,
                        ast.Eq: ast.NotEq, ast.Is: ast.IsNot, ast.IsNot: ast.Is}[type(x.ops[0])]()
            out.append(('flip-first-comparison', n))
            break
    # M5 change the first string constant that is not a docstring
    n = fresh()
    docnode = n.body[0].value if (n.body and isinstance(n.body[0], ast.Expr) and isinstance(n.body[0].value, ast.Constant)
                                  and isinstance(n.body[0].value.value, str)) else None
    for x in ast.walk(n):
        if isinstance(x, ast.Constant) and isinstance(x.value, str) and x is not docnode and x.value != '':
            x.value = x.value + '~'
            out.append(('alter-first-string', n))
            break
    return [(k, ast.fix_missing_locations(m)) for k, m in out]


def _verify(scratch: str, target: str, timeout: int) -> Optional[dict]:
    env = dict(os.environ, VERIF_REPO=scratch, PYTHONPATH=f'{HERE}:{scratch}', PYTHONDONTWRITEBYTECODE='1',
               PYVC_NO_SMALL_SCOPE='1')
    code = ('import json,sys\nfrom pyvc.runner import load_all_contracts\nload_all_contracts()\n'
            'from pyvc.verify import verify_function\n'
            f'r=verify_function({target!r}, timeout_ms=4000)\n'
            'print("@@"+json.dumps({"err": r.error or r.unsupported or "", '
            '"bad": sorted(k for k,v in r.clauses.items() if v["verdict"]!="discharged"), "n": len(r.clauses)}))')
    try:
        p = subprocess.run([os.path.join(HERE, '.venv', 'bin', 'python'), '-c', code], env=env, capture_output=True,
                           text=True, timeout=timeout)
    except subprocess.TimeoutExpired:
        return {'err': 'timeout', 'bad': [], 'n': 0}
    for line in p.stdout.splitlines():
        if line.startswith('@@'):
            return json.loads(line[2:])
    return {'err': 'no result: ' + p.stderr[-200:], 'bad': [], 'n': 0}


def run(filters: List[str], max_seconds: float = 60.0, workers: int = 12):
    sys.path[:0] = [HERE, REPO]
    from pyvc.runner import load_all_contracts
    from pyvc.verify import resolve_target
    from pyvc.engine import func_ast
    contracts = load_all_contracts()
    led = json.load(open(os.path.join(HERE, 'ledger', 'obligations.lock.json')))
    fully = set(led.get('fully_discharged_functions', []))
    targets = sorted(t for t, c in contracts.items() if c.tier == 'quick' and not c.inline and t in fully
                     and (not filters or any(f in t for f in filters)))
    base = tempfile.mkdtemp(prefix='pyvc_selftest_')
    jobs = []
    try:
        for t in targets:
            fn, klass = resolve_target(t)
            node = func_ast(fn)
            path = fn.__code__.co_filename
            rel = os.path.relpath(path, REPO)
            text = open(path, encoding='utf8').read()
            lines = text.split('\n')
            # the function's own lines (decorators excluded: func_ast selects the def)
            lo, hi = node.lineno, node.end_lineno
            indent = len(lines[lo - 1]) - len(lines[lo - 1].lstrip())
            for kind, m in mutants_of(node):
                m.decorator_list = []
                new_src = ast.unparse(m)
                new_lines = [(' ' * indent + l) if l.strip() else l for l in new_src.split('\n')]
                mutated = '\n'.join(lines[:lo - 1] + new_lines + lines[hi:])
                try:
                    compile(mutated, rel, 'exec')
                except SyntaxError:
                    continue
                jobs.append((t, kind, rel, mutated))

        def work(job):
            t, kind, rel, mutated = job
            d = tempfile.mkdtemp(prefix='m_', dir=base)
            try:
                shutil.copytree(os.path.join(REPO, 'pydbml'), os.path.join(d, 'pydbml'))
                with open(os.path.join(d, rel), 'w', encoding='utf8') as f:
                    f.write(mutated)
                t0 = time.time()
                r = _verify(d, t, int(max_seconds))
                return t, kind, r, time.time() - t0
            finally:
                shutil.rmtree(d, ignore_errors=True)
        results = {}
        with ThreadPoolExecutor(max_workers=workers) as ex:
            for t, kind, r, dt in ex.map(work, jobs):
                results.setdefault(t, []).append((kind, r, dt))
        insensitive, survivors, killed_total, total = [], [], 0, 0
        for t in targets:
            rs = results.get(t, [])
            if not rs:
                continue
            killed = [(k, r) for k, r, _ in rs if r['err'] or r['bad']]
            surv = [k for k, r, _ in rs if not r['err'] and not r['bad']]
            total += len(rs)
            killed_total += len(killed)
            if surv:
                survivors.append((t, surv))
            if not killed:
                insensitive.append(t)
        print(f'mutation self-test: {len(targets)} functions, {total} changes, {killed_total} noticed '
              f'({total - killed_total} survived)')
        for t, surv in survivors:
            print(f'  survived in {t}: {", ".join(surv)}')
        for t in insensitive:
            print(f'INSENSITIVE: {t} (every change survived)')
        return insensitive
    finally:
        shutil.rmtree(base, ignore_errors=True)


if __name__ == '__main__':
    bad = run(sys.argv[1:])
    sys.exit(1 if bad else 0)
