"""Contracts, modular call rule, and per-function verification condition generation/discharge."""
from __future__ import annotations

import builtins as _bi
import importlib
import inspect
import os
import re
import sys
import time
import traceback
import types
from typing import Any, Callable, Dict, List, Optional, Tuple

import z3

from . import engine as E
from . import builtins as _B  # noqa: F401  (registers builtin models)
from .engine import (SV, NONE, Interp, State, PathCtl, Frame, Registry, PyRaise, Unsupported, Infeasible,
                     mk_bool, mk_int, mk_str, const, parse_type, type_alternatives, qualname_of, func_ast)
from .sorts import Val, cls_of, I, S, B, mk_solver, sv as SVAL

VERIF_ROOT = os.path.dirname(os.path.dirname(os.path.abspath(__file__)))
REPO_ROOT = os.environ.get('VERIF_REPO', '/repo')


# --------------------------------------------------------------------------------------------
# contract objects

class Loc:
    """A heap location set a function may modify."""

    def __init__(self, kind, obj, attr=None):
        self.kind = kind      # 'field' | 'list' | 'dict' | 'allfields'
        self.obj = obj
        self.attr = attr


def loc(obj, attr):           # obj.attr
    return Loc('field', obj, attr)


def loc_list(lst):            # contents and length of a list object
    return Loc('list', lst)


def loc_dict(d):              # contents of a dict object
    return Loc('dict', d)


def loc_each(lst, attr):      # x.attr for every element x of a list
    return Loc('each', lst, attr)


class Contract:
    def __init__(self, target: str, klass):
        self.target = target
        self.klass = klass
        d = klass.__dict__
        self.params: Dict[str, str] = dict(d.get('params', {}))
        self.ret: Optional[str] = d.get('ret')
        self.requires = [(n, f) for n, f in d.items() if n.startswith('requires') and callable(f)]
        self.ensures = [(n, f) for n, f in d.items() if n.startswith('ensures') and callable(f)]
        self.raises = []
        for n, f in d.items():
            if n.startswith('raises_') and callable(f):
                self.raises.append((resolve_exception(n[len('raises_'):]), n, f))
        # maybe_<Exc>(params): the exception may occur, but only when the condition (over the pre-state) holds — a
        # necessary condition, proved for the function as `<name>.only-when`; at a call site the exceptional exit
        # exists only where the condition can hold (weaker than raises_<Exc>, which says "if and only if")
        self.maybe = []
        for n, f in d.items():
            if n.startswith('maybe_') and callable(f):
                self.maybe.append((resolve_exception(n[len('maybe_'):]), n, f))
        self.modifies = d.get('modifies')
        self.returns = d.get('returns')
        # `returns` names the result at call sites.  Unless the contract says that this naming is the
        # *definition* of an abstract spec function (returns_defines = True: "whatever this function computes is
        # called f(args)"), the function itself is verified to return exactly that value (obligation `returns`).
        self.returns_defines = bool(d.get('returns_defines', False))
        # returns_proved_by = 'ensures_x': the equality is the proved clause ensures_x, which must contain the
        # returns expression verbatim (checked textually here), so no second obligation is generated
        # fresh_result = True: the result is an object allocated by the call itself (proved for the function as
        # obligation `fresh-result`); at call sites it then gets a new concrete reference, distinct from everything
        # the caller has seen, instead of an unknown one
        self.fresh_result = bool(d.get('fresh_result', False))
        # on_demand: proved for this function like any postcondition, but assumed at a call site only when the
        # caller's contract asks for it (uses = {callee target: (clause names)}): expensive quantified facts are
        # kept out of the proofs that do not need them
        self.on_demand = tuple(d.get('on_demand', ()))
        self.uses = dict(d.get('uses', {}))
        self.returns_proved_by = d.get('returns_proved_by')
        if self.returns_proved_by:
            import ast as _ast, inspect as _inspect, textwrap as _tw

            def _ret_expr(f):
                tree = _ast.parse(_tw.dedent(_inspect.getsource(f)))
                rets = [n for n in _ast.walk(tree) if isinstance(n, _ast.Return)]
                return _ast.unparse(rets[-1].value)
            ens = d.get(self.returns_proved_by)
            if ens is None or _ret_expr(self.returns) not in _ret_expr(ens):
                raise ValueError(f'{target}: returns expression is not contained in {self.returns_proved_by}')
        self.pure = bool(d.get('pure', False))
        self.assume_at_call = tuple(d.get('assume_at_call', ()))
        self.tier = d.get('tier', 'quick')
        ap = d.get('applies')
        self.applies = ap.__func__ if isinstance(ap, staticmethod) else ap
        self.inline = bool(d.get('inline', False))
        self.frame_on_raise = bool(d.get('frame_on_raise', True))
        self.allowed = tuple(resolve_exception(x) if isinstance(x, str) else x for x in d.get('allowed', ()))
        self.property_ids = tuple(d.get('properties', ()))
        self.doc = (klass.__doc__ or '').strip()
        self.timeout_ms = d.get('timeout_ms', 10000)
        self.min_timeout_ms = d.get('min_timeout_ms', 0)     # large composite functions: per-query floor
        self.explore_budget_s = d.get('explore_budget_s', 240)
        self.path_limit = d.get('path_limit', 4000)
        self.setup = d.get('setup')          # optional symbolic set-up: fn(ip, args) run before requires
        # loop<k>_invariant(params..., i, locals...) / loop<k>_modifies(params..., locals...): inductive invariant and
        # frame of the k-th `for` statement (source order) of the function; `i` is the number of completed iterations
        self.loops: Dict[int, Dict[str, Any]] = {}
        for n, f in d.items():
            m = re.match(r'loop(\d+)_(invariant\w*|modifies)$', n)
            if m and callable(f):
                ent = self.loops.setdefault(int(m.group(1)), {'invariant': [], 'modifies': None})
                if m.group(2) == 'modifies':
                    ent['modifies'] = f
                else:
                    ent['invariant'].append((n, f))


def resolve_exception(name: str):
    if hasattr(_bi, name):
        return getattr(_bi, name)
    import pydbml.exceptions as X
    if hasattr(X, name):
        return getattr(X, name)
    import pyparsing
    if hasattr(pyparsing, name):
        return getattr(pyparsing, name)
    raise KeyError(f'unknown exception class {name}')


CONTRACTS: Dict[str, Contract] = {}


def contract(target: str):
    def deco(klass):
        c = Contract(target, klass)
        CONTRACTS[target] = c
        return klass
    return deco


def resolve_target(target: str):
    """'pydbml.database:Database.add_table' -> (function object, class or None)"""
    modname, qual = target.split(':')
    mod = importlib.import_module(modname)
    obj = mod
    klass = None
    parts = qual.split('.')
    for i, p in enumerate(parts):
        if inspect.isclass(obj):
            klass = obj
            d = inspect.getattr_static(obj, p)
            if isinstance(d, property):
                # Class.prop or Class.prop.setter
                if i + 1 < len(parts) and parts[i + 1] == 'setter':
                    return d.fset, klass
                obj = d.fget
                continue
            if isinstance(d, (staticmethod, classmethod)):
                obj = d.__func__
                continue
            obj = d
        else:
            if p == 'setter':
                continue
            obj = getattr(obj, p)
    return inspect.unwrap(obj), klass


# --------------------------------------------------------------------------------------------
# registry construction

_REG: Optional[Registry] = None


def model_classes() -> Dict[str, type]:
    import pydbml.classes as C
    import pydbml.database as D
    import pydbml.parser.blueprints as BP
    import pydbml.parser.parser as P
    out = {}
    for n in C.__all__:
        out[n] = getattr(C, n)
    out['Database'] = D.Database
    out['PyDBMLParser'] = P.PyDBMLParser
    out['PyDBML'] = P.PyDBML
    from pydbml.renderer.sql.default import DefaultSQLRenderer
    from pydbml.renderer.dbml.default import DefaultDBMLRenderer
    from pydbml.renderer.base import BaseRenderer
    out['DefaultSQLRenderer'] = DefaultSQLRenderer
    out['DefaultDBMLRenderer'] = DefaultDBMLRenderer
    out['BaseRenderer'] = BaseRenderer
    import pathlib, io
    out['Path'] = pathlib.Path
    out['TextIOWrapper'] = io.TextIOWrapper
    from contracts.types import OtherSource
    out['OtherSource'] = OtherSource
    for n, c in vars(BP).items():
        if inspect.isclass(c) and c.__module__ == BP.__name__:
            out[n] = c
    return out


def registry() -> Registry:
    global _REG
    if _REG is None:
        from contracts import types as T
        reg = Registry(T.FIELDS, T.CLASS_NAMES)
        reg.setup(REPO_ROOT, VERIF_ROOT, model_classes())
        for n in getattr(T, 'OPAQUE_CLASSES', ()):
            reg.cid(n)
        reg.contracts = CONTRACTS
        _REG = reg
    return _REG


# --------------------------------------------------------------------------------------------
# evaluating contract clauses

def spec_frame(fn, locs) -> Frame:
    return Frame(fn.__globals__, locs, None, qualname_of(fn), None)


def eval_clause(ip: Interp, fn, argvals: Dict[str, SV], mode: str = 'cond') -> 'z3.BoolRef':
    """Evaluate a contract clause (a Python function in /verif/contracts) symbolically, as a formula.
    The clause may branch: every path p gives (decisions_p, facts_p, result_p).
      mode 'assume': Or_p(dec_p & facts_p & res_p)      (used as a hypothesis)
      mode 'goal'  : And_p(dec_p & facts_p -> res_p)    (to be proved; typing facts are hypotheses)
      mode 'cond'  : Or_p(dec_p & res_p)                (used in both polarities)
    A path on which the clause raises counts as "clause false"."""
    node = func_ast(fn)
    names = [a.arg for a in node.args.args]
    locs = {n: argvals[n] for n in names if n in argvals}
    missing = [n for n in names if n not in locs]
    if missing:
        raise Unsupported(f'contract clause {fn.__qualname__} needs unknown parameters {missing}')
    fr = spec_frame(fn, locs)
    n0 = len(ip.st.pc)

    def thunk(s2: Interp, nfr):
        s2.in_spec += 1
        v = s2.run_body(node.body, nfr[0]) if not isinstance(node, E.ast.Lambda) else s2.ev(node.body, nfr[0])
        return s2.truthy(v)
    results = ip.explore(thunk, [fr])
    parts = []
    for s2, nfr, o in results:
        delta = s2.st.pc[n0:]
        dec = [d for d in delta if d.get_id() not in s2.st.fact_ids]
        facts = [d for d in delta if d.get_id() in s2.st.fact_ids]
        if o[0] == 'ok':
            r = o[1]
        elif o[0] == 'raise':
            r = z3.BoolVal(False)
        else:
            raise Unsupported('contract clause exits abnormally')
        if mode == 'assume':
            parts.append(z3.And(*dec, *facts, r))
        elif mode == 'goal':
            parts.append(z3.Implies(z3.And(*dec, *facts), r) if (dec or facts) else r)
        else:
            parts.append(z3.And(*dec, r))
        # comprehension tables are shared through ip.shared; nothing else to merge
    if not parts:
        return z3.BoolVal(mode == 'goal')
    if mode == 'goal':
        return z3.simplify(z3.And(*parts)) if len(parts) > 1 else parts[0]
    return z3.simplify(z3.Or(*parts)) if len(parts) > 1 else parts[0]


def eval_value(ip: Interp, fn, argvals: Dict[str, SV]) -> SV:
    node = func_ast(fn)
    names = [a.arg for a in node.args.args]
    locs = {n: argvals[n] for n in names if n in argvals}
    fr = spec_frame(fn, locs)
    ip.in_spec += 1
    try:
        return ip.run_body(node.body, fr)
    finally:
        ip.in_spec -= 1


def symbolic_param(ip: Interp, name: str, tstr: str) -> SV:
    st = ip.st
    if not isinstance(tstr, str):
        return ip.lift(tstr)          # a concrete value (e.g. a default argument)
    if tstr.startswith('PR(') and tstr.endswith(')'):
        return presults_param(ip, name, tstr[3:-1])
    if tstr.startswith('DictS(') and tstr.endswith(')'):
        return struct_dict_param(ip, name, tstr[6:-1])
    T = parse_type(tstr)
    t0 = T[0]
    if t0 == 'str':
        return mk_str(z3.String(f'p_{name}'))
    if t0 == 'int':
        return mk_int(z3.Int(f'p_{name}'))
    if t0 == 'bool':
        return mk_bool(z3.Bool(f'p_{name}'))
    if t0 == 'obj':
        r = z3.Int(f'p_{name}')
        st.fact(cls_of(r) == ip.reg.cid(T[1]))
        st.fact(r < st.alloc0)
        return SV('ref', r, cls=T[1])
    if t0 in ('list', 'dict'):
        r = z3.Int(f'p_{name}')
        st.fact(cls_of(r) == ip.reg.cid(t0))
        st.fact(r < st.alloc0)
        (ip.list_facts if t0 == 'list' else ip.dict_facts)(r, T)
        return SV('ref', r, cls=t0, T=T)
    if t0 == 'none':
        return NONE
    v = z3.Const(f'p_{name}', Val)
    if t0 != 'any':
        st.fact(ip.conforms(v, T))
    return SV('val', v, T=T)


def split_top(spec: str) -> List[str]:
    parts, depth, cur = [], 0, ''
    for ch in spec:
        if ch in '[(':
            depth += 1
        elif ch in '])':
            depth -= 1
        if ch == ',' and depth == 0:
            parts.append(cur)
            cur = ''
        else:
            cur += ch
    if cur.strip():
        parts.append(cur)
    return parts


def struct_dict_param(ip: Interp, name: str, spec: str) -> SV:
    """'note:NoteBlueprint, comment:str' -> a dict whose keys are among the listed ones, each value
    (when present) of the given type: what an earlier parse action returns."""
    st = ip.st
    r = z3.Int(f'p_{name}')
    st.fact(cls_of(r) == ip.reg.cid('dict'))
    st.fact(r < st.alloc0)
    ip.dict_wf(r)
    keys = []
    for p_ in split_top(spec):
        k, t = p_.split(':', 1)
        k, t = k.strip(), t.strip()
        keys.append(k)
        T = parse_type(t)
        st.fact(z3.Implies(st.D_has[r][SVAL(k)], ip.conforms(st.D_val[r][SVAL(k)], T)))
    kq = z3.String('k!sd')
    st.fact(z3.ForAll([kq], z3.Implies(st.D_has[r][kq], z3.Or(*[kq == SVAL(k) for k in keys])),
                      patterns=[st.D_has[r][kq]]))
    return SV('ref', r, cls='dict', T=('dict', ('any',)))


def presults_param(ip: Interp, name: str, spec: str) -> SV:
    """'name:str, type:str, settings?:Dict[Any], 0:str' -> a symbolic ParseResults.  `x?` marks a
    named result that may be absent (its presence is a free Boolean)."""
    parts = split_top(spec)
    named, pos = {}, {}
    for p_ in parts:
        k, t = p_.split(':', 1)
        k, t = k.strip(), t.strip()
        opt = k.endswith('?')
        k = k.rstrip('?')
        v = symbolic_param(ip, f'{name}.{k}', t)
        if k.isdigit():
            pos[int(k)] = v
        else:
            named[k] = (z3.Bool(f'p_{name}.has.{k}') if opt else True, v)
    plist = [pos[i] for i in range(len(pos))]
    return SV('presults', py=E.PR(named, plist))


# --------------------------------------------------------------------------------------------
# modular call rule

def apply_contract(ip: Interp, con: Contract, fn, args, kwargs, bound_cls) -> SV:
    st = ip.st
    node = func_ast(fn)
    locs = ip.bind_args(node, fn, args, kwargs)
    for k_, v_ in list(locs.items()):
        if isinstance(v_, SV) and v_.k in ('gen', 'iter'):
            # a generator handed to a callee under contract: the contract speaks about the sequence it yields
            locs[k_] = SV('pylist', py=E.PyList(list(ip.segments(v_))))
    ip.shared['contracts_used'].add(con.target)
    # 1. precondition is the caller's obligation
    for name, f in con.requires:
        g = eval_clause(ip, f, locs, 'goal')
        if not z3.is_true(z3.simplify(g)):
            st.oblige(f'pre:{con.target}.{name}', g)
        st.fact(g)
    # 2. exceptional exits
    for exc, name, f in con.raises:
        c = eval_clause(ip, f, locs)
        if ip.decide(c):
            raise PyRaise(exc, (), con.target)
    for exc, name, f in con.maybe:
        c = eval_clause(ip, f, locs)
        if ip.decide(z3.And(st.fresh('may_raise', B), c)):
            raise PyRaise(exc, (), con.target + f' (possible by its contract: {name})')
    # exceptions the contract merely allows may occur at any time, as far as the caller knows
    for exc in con.allowed:
        if ip.decide(st.fresh('may_raise', B)):
            raise PyRaise(exc, (), con.target + ' (allowed by its contract)')
    # 3. havoc the frame
    pre_heap = dict(st.heap)
    if not con.pure and con.modifies is not None:
        saved = ip.old_heap
        ip.old_heap = pre_heap          # old() in a callee's frame means the state at the call
        try:
            locs_list = eval_modifies(ip, con, locs)
        finally:
            ip.old_heap = saved
        havoc(ip, locs_list)
        # the callee may allocate: its objects take the next block of references (assumption
        # A-ALLOC: a callee under contract allocates fewer than 2^20 objects)
        st.nalloc += 1 << 20
    elif not con.pure and con.modifies is None:
        raise Unsupported(f'contract of {con.target} declares neither pure nor modifies')
    # 4. result
    if con.returns is not None:
        saved = ip.old_heap
        ip.old_heap = pre_heap
        try:
            res = eval_value(ip, con.returns, locs)
        finally:
            ip.old_heap = saved
    elif con.ret is not None and con.fresh_result and parse_type(con.ret)[0] == 'obj':
        if con.pure:
            st.nalloc += 1 << 20          # the callee's other allocations (A-ALLOC)
        res = SV('ref', st.new_ref(parse_type(con.ret)[1]), cls=parse_type(con.ret)[1])
    elif con.ret is not None:
        res = fresh_result(ip, con)
    else:
        # no declared result type: an arbitrary value, constrained only by the postconditions
        res = SV('val', st.fresh('res', Val), T=('any',))
    # 5. postconditions are assumed (when the result is given exactly by `returns`, only the
    #    clauses listed in `assume_at_call` add anything)
    ens = con.ensures if con.returns is None else [(n, f) for n, f in con.ensures if n in con.assume_at_call]
    wanted = ip.shared.get('top_uses', {}).get(con.target, ())
    ens = [(n, f) for n, f in ens if n not in con.on_demand or n in wanted]
    if ens:
        saved = ip.old_heap
        ip.old_heap = pre_heap
        try:
            l2 = dict(locs)
            l2['result'] = res
            for name, f in ens:
                st.fact(eval_clause(ip, f, l2, 'assume'))
        finally:
            ip.old_heap = saved
    return res


def _B_fresh(ip: Interp, v: SV):
    if v.k == 'ref':
        return v.e >= ip.st.alloc0
    if v.k == 'val':
        return z3.And(Val.is_r(v.e), Val.rv(v.e) >= ip.st.alloc0)
    if v.k == 'pylist':
        return z3.BoolVal(True) if v.py.href is None else v.py.href >= ip.st.alloc0
    return z3.BoolVal(False)


def fresh_result(ip: Interp, con: Contract) -> SV:
    st = ip.st
    T = parse_type(con.ret)
    if T[0] == 'none':
        return NONE
    if T[0] == 'str':
        return mk_str(st.fresh('res', S))
    if T[0] == 'bool':
        return mk_bool(st.fresh('res', B))
    if T[0] == 'int':
        return mk_int(st.fresh('res', I))
    return ip.unbox(st.fresh('res', Val), T)


def eval_modifies(ip: Interp, con: Contract, locs) -> List[Loc]:
    node = func_ast(con.modifies)
    names = [a.arg for a in node.args.args]
    fr = spec_frame(con.modifies, {n: locs[n] for n in names})
    fr.locals.setdefault('loc', const(loc))
    ip.in_spec += 1
    try:
        v = ip.run_body(node.body, fr)
    finally:
        ip.in_spec -= 1
    out = []
    items = v.py if v.k == 'tuple' else (v.py.items() if v.k == 'pylist' else None)
    if items is None:
        raise Unsupported('modifies must return a list/tuple of locations')
    for x in items:
        if x.k != 'loc':
            raise Unsupported('modifies element is not a location')
        out.append(x.py)
    return out


def loc_ref(ip: Interp, o: SV):
    """Reference expression of a location's object; a possibly-None object designates `nowhere`."""
    if o.k == 'ref':
        return o.e
    if o.k == 'pylist' and o.py.href is not None:
        return o.py.href
    if o.k == 'val':
        nowhere = z3.Int('nowhere!')
        return z3.If(Val.is_r(o.e), Val.rv(o.e), nowhere)
    return None


def havoc(ip: Interp, locs_list: List[Loc]):
    st = ip.st
    for L in locs_list:
        o = L.obj
        if L.kind == 'cls':
            F0 = st.F(L.attr)
            F1 = st.fresh('hv', E.sorts.FieldArr)
            rr = z3.Int('r!h')
            st.fact(z3.ForAll([rr], z3.Implies(cls_of(rr) != ip.reg.cid(L.cls_name), F1[rr] == F0[rr]), patterns=[F1[rr]]))
            st.set_arr('F:' + L.attr, F1)
            continue
        if L.kind == 'each':
            segs = L.segs
            if len(segs) != 1 or segs[0][0] != 'heap':
                raise Unsupported('loc_each over a non-heap list')
            sg = segs[0]
            F0 = st.F(L.attr)
            F1 = st.fresh('hv', E.sorts.FieldArr)
            rr, ii = z3.Int('r!h'), z3.Int('i!h')
            member = z3.Exists([ii], z3.And(0 <= ii, ii < sg[4], Val.rv(sg[3][ii]) == rr))
            st.fact(z3.ForAll([rr], z3.Implies(z3.Not(member), F1[rr] == F0[rr]), patterns=[F1[rr]]))
            st.set_arr('F:' + L.attr, F1)
            continue
        r = loc_ref(ip, o)
        if r is None:
            if o.k == 'none':
                continue
            raise Unsupported('modifies location on a non-reference')
        if L.kind == 'field':
            st.set_arr('F:' + L.attr, z3.Store(st.F(L.attr), r, st.fresh('hv', Val)), r)
        elif L.kind == 'list':
            st.set_arr('L_el', z3.Store(st.L_el, r, st.fresh('hv', E.ElArr)), r)
            st.set_arr('L_len', z3.Store(st.L_len, r, st.fresh('hv', I)), r)
            st.fact(st.L_len[r] >= 0)
        elif L.kind == 'dict':
            st.set_arr('D_has', z3.Store(st.D_has, r, st.fresh('hv', E.HasArr)), r)
            st.set_arr('D_val', z3.Store(st.D_val, r, st.fresh('hv', E.ValArr)), r)
            st.set_arr('D_key', z3.Store(st.D_key, r, st.fresh('hv', E.KeyArr)), r)
            st.set_arr('D_n', z3.Store(st.D_n, r, st.fresh('hv', I)), r)


def _loc_builtin(kind):
    def h(ip, args, kw, fr):
        if kind == 'field':
            return SV('loc', py=Loc('field', args[0], _B._const_str(args[1])))
        return SV('loc', py=Loc(kind, args[0]))
    return h


_B.builtin(loc)(_loc_builtin('field'))
_B.builtin(loc_list)(_loc_builtin('list'))
_B.builtin(loc_dict)(_loc_builtin('dict'))
def loc_cls(cls, attr):     # pragma: no cover  (symbolic only)
    """frame location: attribute `attr` of ANY object of class `cls` (coarse, for nested containers)"""
    raise RuntimeError('loc_cls is a specification-only construct')


def _loc_cls_builtin(ip, args, kw, fr):
    c = args[0]
    name = c.py.__name__ if c.k == 'const' and isinstance(c.py, type) else _B._const_str(c)
    L = Loc('cls', NONE, _B._const_str(args[1]))
    L.cls_name = name
    return SV('loc', py=L)


_B.builtin(loc_cls)(_loc_cls_builtin)


def _loc_each_builtin(ip, args, kw, fr):
    L = Loc('each', args[0], _B._const_str(args[1]))
    L.segs = ip._segments(args[0])       # snapshot of the list in the state the location is named in
    return SV('loc', py=L)


_B.builtin(loc_each)(_loc_each_builtin)

Interp.apply_contract = lambda self, con, fn, args, kwargs, bound_cls: apply_contract(self, con, fn, args, kwargs, bound_cls)


# --------------------------------------------------------------------------------------------
# statement loops with effects: verified by an inductive invariant given in the contract
LOOP_BLOCK = 1 << 28       # references reserved for the objects allocated by all iterations of one loop


def _loop_args(ip: Interp, fr, f, extra):
    node = func_ast(f)
    names = [a.arg for a in node.args.args]
    params = ip.shared.get('top_params', {})
    vals = {}
    for n in names:
        if n in extra:
            vals[n] = extra[n]
        elif n in params:
            vals[n] = params[n]
        else:
            v = fr.lookup(n)
            if v is None:
                raise Unsupported(f'loop clause {f.__qualname__} names `{n}`, which is neither a parameter nor a bound local')
            vals[n] = v
    return vals


def _havoc_everything(ip: Interp, allowed: List[Loc], limit):
    """Every heap array becomes an unknown one that agrees with the current one on the objects that
    existed at loop entry (refs < limit), except at the loop's `modifies` locations."""
    st = ip.st
    r = z3.Int('r!lh')
    names = set(st.heap)
    for cname, fields in ip.reg.fields.items():
        for a in fields:
            names.add('F:' + a)
    for base in ('L_el', 'L_len', 'D_has', 'D_val', 'D_key', 'D_n'):
        names.add(base)
    for name in sorted(names):
        cur = st.F(name[2:]) if name.startswith('F:') else getattr(st, name)
        new = st.fresh('lh', cur.sort())
        exc, extra = [], []
        if name.startswith('F:'):
            attr = name[2:]
            exc = [loc_ref(ip, L.obj) for L in allowed if L.kind == 'field' and L.attr == attr]
            for L in allowed:
                if L.kind == 'cls' and L.attr == attr:
                    extra.append(cls_of(r) != ip.reg.cid(L.cls_name))
                if L.kind == 'each' and L.attr == attr:
                    segs = L.segs
                    if len(segs) != 1 or segs[0][0] != 'heap':
                        raise Unsupported('loc_each over a non-heap list')
                    sg = segs[0]
                    ii = z3.Int('i!lh')
                    extra.append(z3.Not(z3.Exists([ii], z3.And(0 <= ii, ii < sg[4], Val.rv(sg[3][ii]) == r))))
        elif name in ('L_el', 'L_len'):
            exc = [loc_ref(ip, L.obj) for L in allowed if L.kind == 'list']
        else:
            exc = [loc_ref(ip, L.obj) for L in allowed if L.kind == 'dict']
        exc = [x for x in exc if x is not None]
        st.fact(z3.ForAll([r], z3.Implies(z3.And(r < limit, *[r != x for x in exc], *extra), new[r] == cur[r]),
                          patterns=[new[r]]))
        if name in ('L_len', 'D_n'):
            st.fact(z3.ForAll([r], new[r] >= 0, patterns=[new[r]]))
        st.set_arr(name, new)
        # remembered so that reads of objects outside the loop's frame are rewritten to the pre-loop array
        n0 = z3.simplify(limit - st.alloc0)
        if z3.is_int_value(n0):
            if not hasattr(st, 'havoc_info'):
                st.havoc_info = {}
            st.havoc_info[new.decl().name()] = (new, cur, exc, bool(extra), n0.as_long())


def loop_by_invariant(ip: Interp, node, seg, fr, spec):
    k, ent = spec
    st = ip.st
    if ent['modifies'] is None or not ent['invariant']:
        raise Unsupported(f'loop {k}: the contract must give loop{k}_invariant and loop{k}_modifies')
    n = ip.seg_length(seg)
    # local lists the body appends to must live on the heap so that the invariant can speak about them
    assigned, appended = E.loop_targets(node.body)
    for name in sorted(appended):
        v = fr.lookup(name)
        if v is not None and v.k == 'pylist' and v.py.href is None:
            ip.lower_list(v.py)
    tnames = E.target_names(node.target)
    for name in sorted(assigned - tnames):
        if fr.lookup(name) is not None:
            raise Unsupported(f'loop {k} rebinds the local `{name}` that is live across iterations')

    def inv_goals(i_expr, tag):
        extra = {'i': E.mk_int(i_expr)}
        for (iname, f) in ent['invariant']:
            try:
                for (sname, pc2, g) in subclauses(ip, f, _loop_args(ip, fr, f, extra)):
                    st.obligations.append((f'loop{k}.{tag}.{iname}{sname}', pc2, g))
            except PyRaise as e:
                st.obligations.append((f'loop{k}.{tag}.{iname}', list(st.pc), z3.BoolVal(False)))

    def inv_assume(i_expr):
        extra = {'i': E.mk_int(i_expr)}
        for (iname, f) in ent['invariant']:
            st.fact(eval_clause(ip, f, _loop_args(ip, fr, f, extra), 'assume'))

    # 1. established
    inv_goals(z3.IntVal(0), 'init')
    # 2. the loop's frame, named in the state at loop entry
    mnode = func_ast(ent['modifies'])
    margs = _loop_args(ip, fr, ent['modifies'], {})
    mfr = spec_frame(ent['modifies'], margs)
    mfr.locals.setdefault('loc', const(loc))
    ip.in_spec += 1
    try:
        v = ip.run_body(mnode.body, mfr)
    finally:
        ip.in_spec -= 1
    items = v.py if v.k == 'tuple' else (v.py.items() if v.k == 'pylist' else None)
    if items is None or any(x.k != 'loc' for x in items):
        raise Unsupported(f'loop{k}_modifies must return a list of locations')
    allowed = [x.py for x in items]
    n0 = st.nalloc
    limit = st.alloc0 + n0
    which = ip.choose(2)
    _havoc_everything(ip, allowed, limit)
    st.nalloc = n0 + LOOP_BLOCK          # objects of earlier iterations live in [n0, n0 + LOOP_BLOCK)
    if which == 0:
        # 3. an arbitrary iteration: invariant(i) holds, run the body once, invariant(i+1) and the frame must hold
        st.fresh_n += 1
        i = z3.Int(f'it!{k}!{st.fresh_n}')
        st.fact(z3.And(0 <= i, i < n))
        inv_assume(i)
        fr.locals[f'i{k}'] = E.mk_int(i)        # ghost local: invariants of nested loops may speak about it
        iter_heap = dict(st.heap)
        ip.assign(node.target, ip.seg_element(seg, i), fr)
        try:
            ip.exec_block(node.body, fr)
        except E.ContinueEx:
            pass
        # (break / return / raise leave through the normal channels: the state is a reachable one)
        inv_goals(i + 1, 'preserved')
        for aname, g in frame_goal(ip, iter_heap, dict(st.heap), allowed, n0, limit=limit):
            st.obligations.append((f'loop{k}.frame.{aname}', list(st.pc), g))
        raise E.LoopIterEnd()
    # 4. after the loop: invariant(n)
    st.nalloc = n0 + 2 * LOOP_BLOCK
    inv_assume(n)
    ip.exec_block(node.orelse, fr)


Interp.loop_by_invariant = lambda self, s, seg, fr, spec: loop_by_invariant(self, s, seg, fr, spec)


# --------------------------------------------------------------------------------------------
# verification of one function against its own contract

class Obligation:
    def __init__(self, name, pc, goal, path, kind='P', note=''):
        self.name = name
        self.pc = pc
        self.goal = goal
        self.path = path
        self.kind = kind
        self.note = note


class FnResult:
    def __init__(self, target):
        self.target = target
        self.clauses: Dict[str, Dict[str, Any]] = {}     # clause name -> {'verdict', 'paths', 'detail', 'model'}
        self.paths = 0
        self.seconds = 0.0
        self.solver_s = 0.0
        self.error: Optional[str] = None
        self.unsupported: Optional[str] = None
        self.inlined: List[str] = []
        self.contracts_used: List[str] = []
        self.notes: List[str] = []
        self.source_lines: Tuple[str, int, int] = ('', 0, 0)
        self.nqueries = 0


def make_params(ip: Interp, con: Contract, fn) -> Dict[str, SV]:
    node = func_ast(fn)
    names = [a.arg for a in node.args.posonlyargs + node.args.args + node.args.kwonlyargs]
    out = {}
    for n in names:
        if n not in con.params:
            raise Unsupported(f'contract of {con.target} does not give the type of parameter {n}')
        out[n] = symbolic_param(ip, n, con.params[n])
    return out


def frame_goal(ip: Interp, pre_heap: Dict[str, Any], post_heap: Dict[str, Any], allowed: List[Loc],
               nalloc0: int, limit=None) -> List[Tuple[str, Any]]:
    """For every heap array that differs: forall old refs r not in `allowed`: post[r] == pre[r].
    `limit`: what counts as old (default: allocated before the call; for a loop: before the loop)."""
    st = ip.st
    goals = []
    r = z3.Int('r!f')
    old = r < (st.alloc0 if limit is None else limit)
    for name, post in post_heap.items():
        pre = pre_heap.get(name)
        if pre is None:
            # array first touched after the snapshot: its initial constant is the pre-state
            pre = z3.Const(name + '@0', post.sort())
        if pre.eq(post):
            continue
        exc = []
        extra = []
        if name.startswith('F:'):
            attr = name[2:]
            exc = [loc_ref(ip, L.obj) for L in allowed if L.kind == 'field' and L.attr == attr]
            for L in allowed:
                if L.kind == 'cls' and L.attr == attr:
                    extra.append(cls_of(r) != ip.reg.cid(L.cls_name))
                if L.kind == 'each' and L.attr == attr:
                    segs = L.segs
                    if len(segs) == 1 and segs[0][0] == 'heap':
                        sg = segs[0]
                        ii = z3.Int('i!f')
                        extra.append(z3.Not(z3.Exists([ii], z3.And(0 <= ii, ii < sg[4], Val.rv(sg[3][ii]) == r))))
        elif name in ('L_el', 'L_len'):
            exc = [loc_ref(ip, L.obj) for L in allowed if L.kind == 'list']
        else:
            exc = [loc_ref(ip, L.obj) for L in allowed if L.kind == 'dict']
        exc = [x for x in exc if x is not None]
        cond = z3.And(old, *[r != x for x in exc], *extra)
        goals.append((name, z3.ForAll([r], z3.Implies(cond, post[r] == pre[r]))))
    return goals


def verify_function(target: str, only: Optional[str] = None, timeout_ms: Optional[int] = None,
                    bound: Optional[int] = None) -> FnResult:
    """bound=None: the unbounded proof attempt.  bound=k: small-scope refutation search (every
    symbolic-length list/dict iterated over has at most k entries; results are only used to turn an
    *undecided* obligation into a *refuted* one with a concrete counter-model, never to discharge)."""
    t0 = time.time()
    res = FnResult(target)
    con = CONTRACTS[target]
    reg = registry()
    try:
        fn, klass = resolve_target(target)
        node = func_ast(fn)
        res.source_lines = (fn.__code__.co_filename, node.lineno, getattr(node, 'end_lineno', node.lineno))
        st = State(reg)
        shared = {'inlined': set(), 'contracts_used': set(), 'paths': 0, 'prune_checks': 0}
        if bound is not None:
            shared['bound'] = bound
            shared['deadline'] = time.time() + 60
        else:
            shared['deadline'] = time.time() + con.explore_budget_s
        ip = Interp(reg, st, PathCtl(), shared)
        ip.top_target = target
        params = make_params(ip, con, fn)
        shared['top_params'] = params
        shared['top_uses'] = con.uses
        if con.loops:
            fors = sorted((n.lineno, n.col_offset) for n in E.ast.walk(node) if isinstance(n, E.ast.For))
            shared['loop_specs'] = {pos: (k, con.loops[k]) for k, pos in enumerate(fors) if k in con.loops}
            missing = [k for k in con.loops if k >= len(fors)]
            if missing:
                raise Unsupported(f'contract names loops {missing} but the function has {len(fors)} for statements')
        if con.setup is not None:
            con.setup(ip, params)
        for name, f in con.requires:
            st.assume(eval_clause(ip, f, params, 'assume'))
        # vacuity guard: the precondition must be satisfiable
        s = mk_solver(5000)
        s.add(*st.pc)
        vac = s.check()
        if vac == z3.unsat:
            res.error = 'vacuous precondition (requires is unsatisfiable)'
            return res
        st.fact(z3.Int('nowhere!') >= st.alloc0 + (1 << 50))      # beyond every allocation block
        pre_heap = dict(st.heap)
        pre_nalloc = st.nalloc
        base_pc = list(st.pc)
        # raises conditions are evaluated in the pre-state, once
        frame0 = Frame(fn.__globals__, dict(params), None, target, klass)

        def thunk(sub: Interp, nfr):
            sub.old_heap = pre_heap
            return sub.run_body(node.body, nfr[0]) if not isinstance(node, E.ast.Lambda) else sub.ev(node.body, nfr[0])
        paths = ip.explore(thunk, [frame0], limit=con.path_limit)
        res.paths = len(paths)
        obligations: List[Obligation] = []
        for pi, (sub, nfr, out) in enumerate(paths):
            for (n, pc, g) in sub.st.obligations:
                obligations.append(Obligation(n, pc, g, pi))
            res.notes.extend(x for x in sub.st.notes if x not in res.notes)
            if sub.st.eqv_unsound:
                res.notes.append('structural equality used across a store to a compared field: path undecided')
                obligations.append(Obligation('engine.eqv-sound', list(sub.st.pc), None, pi, note='undecided'))
            sub.old_heap = pre_heap
            post_heap = dict(sub.st.heap)

            def in_pre(thunk2):
                cur = sub.st.heap
                sub.st.heap = dict(pre_heap)
                try:
                    return thunk2()
                finally:
                    sub.st.heap = cur
            if out[0] in ('ok', 'return'):
                result = out[1]
                # (a) must not return normally when an exception is due
                for exc, name, f in con.raises:
                    c = in_pre(lambda: eval_clause(sub, f, params))
                    obligations.append(Obligation(f'{name}.else-normal', list(sub.st.pc), z3.Not(c), pi))
                # (b) postconditions
                l2 = dict(params)
                l2['result'] = result
                if con.fresh_result:
                    fr_ = _B_fresh(sub, result)
                    obligations.append(Obligation('fresh-result', list(sub.st.pc), fr_, pi))
                if con.returns is not None and not con.returns_defines and not con.returns_proved_by:
                    try:
                        want = eval_value(sub, con.returns, params)
                        obligations.append(Obligation('returns', list(sub.st.pc), sub.identical(result, want)
                                                      if want.k in ('ref', 'none') else sub.equal(result, want), pi))
                    except PyRaise as e:
                        obligations.append(Obligation('returns', list(sub.st.pc), z3.BoolVal(False), pi,
                                                      note=f'returns expression raises {e.exc_cls.__name__} ({e.where})'))
                for name, f in con.ensures:
                    try:
                        pcs = subclauses(sub, f, l2)
                    except PyRaise as e:
                        obligations.append(Obligation(name, list(sub.st.pc), z3.BoolVal(False), pi,
                                                      note=f'postcondition raises {e.exc_cls.__name__} ({e.where})'))
                        continue
                    for (sname, pc2, g) in pcs:
                        obligations.append(Obligation(name + sname, pc2, g, pi))
                # (c) frame
                if con.pure or con.modifies is not None:
                    allowed = [] if con.pure else in_pre(lambda: eval_modifies(sub, con, params))
                    for aname, g in frame_goal(sub, pre_heap, post_heap, allowed, pre_nalloc):
                        obligations.append(Obligation(f'frame.{aname}', list(sub.st.pc), g, pi))
            elif out[0] == 'raise':
                e: PyRaise = out[1]
                declared = [(exc, name, f) for exc, name, f in con.raises if issubclass(e.exc_cls, exc)]
                if declared:
                    conds = [in_pre(lambda f=f: eval_clause(sub, f, params)) for _, _, f in declared]
                    obligations.append(Obligation(f'{declared[0][1]}.only-when', list(sub.st.pc), z3.Or(*conds), pi))
                    if con.frame_on_raise:
                        for aname, g in frame_goal(sub, pre_heap, post_heap, [], pre_nalloc):
                            obligations.append(Obligation(f'{declared[0][1]}.heap-unchanged.{aname}', list(sub.st.pc), g, pi))
                elif any(issubclass(e.exc_cls, exc) for exc, _, _ in con.maybe):
                    mb = [(name, f) for exc, name, f in con.maybe if issubclass(e.exc_cls, exc)]
                    conds = [in_pre(lambda f=f: eval_clause(sub, f, params)) for _, f in mb]
                    obligations.append(Obligation(f'{mb[0][0]}.only-when', list(sub.st.pc), z3.Or(*conds), pi))
                elif con.allowed and issubclass(e.exc_cls, con.allowed):
                    pass
                else:
                    obligations.append(Obligation(f'no-exception.{e.exc_cls.__name__}', list(sub.st.pc),
                                                  z3.BoolVal(False), pi, note=f'raised at {e.where}'))
            elif out[0] == 'loopend':
                pass        # arbitrary iteration of a loop with invariant: its obligations were recorded above
            else:
                obligations.append(Obligation('engine.exit', [], None, pi, note=f'unexpected exit {out[0]}'))
        res.inlined = sorted(shared['inlined'] - {target})
        res.contracts_used = sorted(shared['contracts_used'])
        lemma_box = {}

        def lemmas_thunk():
            if 'v' not in lemma_box:
                lemma_box['v'] = congruence_lemmas(ip, shared, base_pc)
            return lemma_box['v']
        discharge(res, obligations, max(timeout_ms or con.timeout_ms, con.min_timeout_ms), only, lemmas_thunk, small_scope=bound is not None, simp=make_peeler(ip))
    except Unsupported as u:
        res.unsupported = str(u)
    except Exception:
        res.error = traceback.format_exc()[-3000:]
    res.seconds = round(time.time() - t0, 3)
    return res


def subclauses(sub: Interp, f, argvals) -> List[Tuple[str, List[Any], Any]]:
    """Evaluate an ensures clause; the evaluation itself may fork (spec with branches): every
    spec path gives one goal under its own path condition."""
    out = []
    base = sub
    node = func_ast(f)
    names = [a.arg for a in node.args.args]
    locs = {n: argvals[n] for n in names if n in argvals}
    missing = [n for n in names if n not in locs]
    if missing:
        raise Unsupported(f'contract clause {f.__qualname__} needs unknown parameters {missing}')
    fr = spec_frame(f, locs)

    def thunk(s2: Interp, nfr):
        s2.in_spec += 1
        v = s2.run_body(node.body, nfr[0])
        return s2.truthy(v)
    results = base.explore(thunk, [fr])
    for k, (s2, nfr, o) in enumerate(results):
        tag = '' if len(results) == 1 else f'#s{k}'
        if o[0] == 'ok':
            out.append((tag, list(s2.st.pc), o[1]))
        elif o[0] == 'raise':
            # the clause is undefined on this path: it counts as false there (discharged iff the
            # path is infeasible)
            out.append((tag, list(s2.st.pc), z3.BoolVal(False)))
        else:
            raise Unsupported('contract clause exits abnormally')
    return out


def congruence_lemmas(ip: Interp, shared, base_pc=()) -> List[Any]:
    """Equalities between comprehension abstractions proved elementwise (Map/Join congruence)."""
    info: Dict[int, Any] = shared.get('comp_info', {})
    lemmas = []
    ids = sorted(info)
    for a in range(len(ids)):
        for b in range(a + 1, len(ids)):
            ca, cb = info[ids[a]], info[ids[b]]
            if ca is None or cb is None:
                continue
            try:
                if ip.seg_key(ca.seg) != ip.seg_key(cb.seg):
                    continue
            except Exception:
                continue
            if ca.val.k != cb.val.k or ca.val.e is None or cb.val.e is None:
                continue
            if ca.val.e.sort() != cb.val.e.sort():
                continue
            K = ca.K
            cb_cond = z3.substitute(cb.cond, (cb.K, K))
            cb_val = z3.substitute(cb.val.e, (cb.K, K))
            if [x.get_id() for x in ca.ctx] != [x.get_id() for x in cb.ctx]:
                continue
            base_ids = {e.get_id() for e in base_pc}
            ctx_h = []
            seen_h = set()
            for e in list(ca.pc) + list(cb.pc):
                if e.get_id() not in base_ids and e.get_id() not in seen_h:
                    seen_h.add(e.get_id())
                    ctx_h.append(e)
            goal = z3.Not(z3.And(ca.cond == cb_cond, z3.Implies(ca.cond, ca.val.e == cb_val)))
            # first unconditionally (under the precondition only), then conditionally on the
            # quantifier-free context in which the two abstractions were formed
            for hyps in ([], ctx_h) if ctx_h else ([],):
                s = mk_solver(800)
                s.add(z3.And(0 <= K, K < ca.length))
                s.add(*base_pc)
                s.add(*hyps)
                if ca.noraise is not None:
                    s.add(ca.noraise)
                if cb.noraise is not None:
                    s.add(z3.substitute(cb.noraise, (cb.K, K)))
                s.add(goal)
                r = s.check()
                if r == z3.unknown:
                    ab = abstract_hard(list(s.assertions()))
                    if ab is not None:
                        s = mk_solver(800)
                        s.add(*ab)
                        r = s.check()
                if r == z3.unsat:
                    hyp = z3.And(*hyps) if hyps else z3.BoolVal(True)
                    sep = z3.String('sep!c')
                    body = z3.And(ip.ccnt(ca) == ip.ccnt(cb),
                                  z3.ForAll([sep], ip.cjoin(ca, sep) == ip.cjoin(cb, sep)),
                                  ip.csum(ca) == ip.csum(cb),
                                  ip.ctok(ca) == ip.ctok(cb))
                    lemmas.append(z3.Implies(hyp, body) if hyps else body)
                    break
    return lemmas


def split_goal(g, depth=0) -> List[Any]:
    """Split a goal into conjuncts (through And, the consequent of Implies, and ForAll bodies):
    one small query per conjunct is what keeps trigger-based instantiation effective."""
    if depth > 6:
        return [g]
    if z3.is_and(g):
        out = []
        for c in g.children():
            out.extend(split_goal(c, depth + 1))
        return out
    if z3.is_implies(g):
        h, c = g.arg(0), g.arg(1)
        parts = split_goal(c, depth + 1)
        if len(parts) > 1:
            return [z3.Implies(h, x) for x in parts]
        return [g]
    if z3.is_quantifier(g) and g.is_forall():
        nv = g.num_vars()
        vs = [z3.Const(f'{g.var_name(i)}', g.var_sort(i)) for i in range(nv)]
        body = z3.substitute_vars(g.body(), *reversed(vs))
        parts = split_goal(body, depth + 1)
        if len(parts) > 1:
            pats = []
            for i in range(g.num_patterns()):
                pt = g.pattern(i)
                pats.append(z3.MultiPattern(*[z3.substitute_vars(pt.arg(k), *reversed(vs)) for k in range(pt.num_args())])
                            if pt.num_args() > 1 else z3.substitute_vars(pt.arg(0), *reversed(vs)))
            out = []
            for x in parts:
                try:
                    out.append(z3.ForAll(vs, x, patterns=pats) if pats else z3.ForAll(vs, x))
                except z3.Z3Exception:
                    out.append(z3.ForAll(vs, x))
            return out
        return [g]
    return [g]


_seen_el = z3.Function('seen!el', Val, B)
_seen_b = z3.Function('seen!b', B, B)


def seed_terms(formulas, limit=400):
    """Ground-term seeding: e-matching does not see through select/store, so a quantified
    hypothesis over a pre-state array is not instantiated at an index that only occurs in a
    post-state (stored) array and vice versa.  Adding seen(A[t]) for the array terms A and index
    terms t that occur in the query is sound (seen is a fresh unconstrained predicate) and makes
    those instances available."""
    arrays_el, idx_int = {}, {}
    arrays_sv, arrays_sb, idx_str = {}, {}, {}
    seen = set()

    def walk(e):
        i = e.get_id()
        if i in seen:
            return
        seen.add(i)
        if z3.is_quantifier(e):
            walk(e.body())
            return
        if not z3.is_app(e):
            return
        srt = e.sort()
        if srt == E.ElArr and not has_var(e):
            arrays_el[i] = e
        elif srt == E.ValArr and not has_var(e):
            arrays_sv[i] = e
        elif srt == E.HasArr and not has_var(e):
            arrays_sb[i] = e
        if e.decl().kind() in (z3.Z3_OP_SELECT, z3.Z3_OP_STORE):
            a, t = e.arg(0), e.arg(1)
            if not has_var(t):
                if a.sort() == E.ElArr:
                    idx_int[t.get_id()] = t
                elif a.sort() in (E.ValArr, E.HasArr):
                    idx_str[t.get_id()] = t
        for c in e.children():
            walk(c)
    for f in formulas:
        walk(f)
    out = []
    for a in arrays_el.values():
        for t in idx_int.values():
            out.append(_seen_el(a[t]))
            if len(out) > limit:
                return out
    for a in arrays_sv.values():
        for t in idx_str.values():
            out.append(_seen_el(a[t]))
            if len(out) > limit:
                return out
    for a in arrays_sb.values():
        for t in idx_str.values():
            out.append(_seen_b(a[t]))
            if len(out) > limit:
                return out
    return out


def abstract_hard(formulas):
    """Replace every str.replace_all(...) subterm by a fresh constant (one per distinct term).
    Sound for refuting satisfiability: a model of the original formulas gives a model of the
    abstraction, so `unsat` carries over.  Used when the sequence solver reports incompleteness."""
    found = {}
    seen = set()

    def walk(e):
        i = e.get_id()
        if i in seen:
            return
        seen.add(i)
        if z3.is_quantifier(e):
            walk(e.body())
            return
        if not z3.is_app(e):
            return
        if e.decl().kind() == z3.Z3_OP_SEQ_REPLACE_ALL and not has_var(e):
            found[i] = e
            return
        for c in e.children():
            walk(c)
    for f in formulas:
        walk(f)
    if not found:
        return None
    pairs = [(t, z3.String(f'abs!{k}')) for k, t in enumerate(found.values())]
    return [z3.substitute(f, *pairs) for f in formulas]


def scope_bounds(formulas, bound=2):
    """length terms (select L_len / D_n arrays at ground indices) bounded by `bound`."""
    out = {}
    seen = set()

    def walk(e):
        i = e.get_id()
        if i in seen:
            return
        seen.add(i)
        if z3.is_quantifier(e):
            walk(e.body())
            return
        if not z3.is_app(e):
            return
        if e.decl().kind() == z3.Z3_OP_SELECT and e.sort() == I and not has_var(e):
            a = e.arg(0)
            if a.sort() in (E.sorts.LLen, E.sorts.DN) and z3.is_const(a) and str(a).endswith('@0'):
                out[i] = e <= bound
        for c in e.children():
            walk(c)
    for f in formulas:
        walk(f)
    return list(out.values())


_HV: Dict[int, Any] = {}


def has_var(e) -> bool:
    i = e.get_id()
    r = _HV.get(i)
    if r is not None:
        return r[1]
    if z3.is_var(e):
        r = True
    elif z3.is_app(e):
        r = any(has_var(c) for c in e.children())
    elif z3.is_quantifier(e):
        r = True
    else:
        r = False
    _HV[i] = (e, r)
    return r


def make_peeler(ip: Interp):
    """Formula simplifier: a read `Store(..Store(A, i1, v1).., in, vn)[r]` skips the stores whose index is
    provably another object than r (a reference allocated in this call vs. a pre-state object, or two different
    allocation offsets) — the same rule as Interp.peel, applied to whole hypotheses and goals so that the solver
    does not have to rediscover it under quantifiers."""
    memo: Dict[int, Any] = {}
    keep = []

    def ground(e):
        # no bound variable inside
        stack, seen = [e], set()
        while stack:
            x = stack.pop()
            if x.get_id() in seen:
                continue
            seen.add(x.get_id())
            if z3.is_var(x):
                return False
            if z3.is_quantifier(x):
                return False
            stack.extend(x.children())
        return True

    def candidates(e, out, seen):
        stack = [e]
        while stack:
            x = stack.pop()
            i = x.get_id()
            if i in seen:
                continue
            seen.add(i)
            if z3.is_quantifier(x):
                stack.append(x.body())
                continue
            if z3.is_app(x):
                if x.decl().kind() == z3.Z3_OP_SELECT and z3.is_app(x.arg(0)) and \
                        x.arg(0).decl().kind() == z3.Z3_OP_STORE:
                    out.append(x)
                stack.extend(x.children())

    def peel_entailed(arr, r, entails):
        cur = arr
        while z3.is_app(cur) and cur.decl().kind() == z3.Z3_OP_STORE:
            idx = cur.arg(1)
            if idx.eq(r):
                return z3.simplify(cur.arg(2))
            if ip.provably_distinct(r, idx) or entails(r != idx):
                cur = cur.arg(0)
                continue
            break
        return z3.simplify(cur[r])

    def simp(e, entails=None):
        i = e.get_id()
        if entails is None and i in memo:
            return memo[i][1]
        cur = e
        for _ in range(4):
            cands = []
            candidates(cur, cands, set())
            pairs = []
            for c in cands:
                r = c.arg(1)
                if r.sort() != I or not ground(c):
                    continue
                new = ip.peel(c.arg(0), r) if entails is None else peel_entailed(c.arg(0), r, entails)
                if not new.eq(c):
                    pairs.append((c, new))
            if not pairs:
                break
            cur = z3.substitute(cur, *pairs)
        if entails is None:
            memo[i] = (e, cur)
        keep.append(cur)
        return cur
    return simp


def discharge(res: FnResult, obligations: List[Obligation], timeout_ms: int, only, lemmas, small_scope=False,
              simp=None):
    if simp is not None:
        known: Dict[Any, bool] = {}
        alive: List[Any] = []           # z3 reuses AST ids once an AST is collected: keep the keys alive
        for ob in obligations:
            if ob.goal is not None:
                if only and only not in ob.name:
                    continue
                ob.pc = [simp(c) for c in ob.pc]
                g1 = simp(ob.goal)
                if not z3.is_true(z3.simplify(g1)):
                    # reads that the syntactic rule could not look through: ask the quantifier-free part of the
                    # path condition whether the two references can be the same object (50 ms each)
                    box = {}

                    def entails(f, ob=ob, box=box):
                        key = (ob.path, f.get_id())
                        if known.get(key):
                            return True
                        if 's' not in box:
                            qs = mk_solver(50)
                            for c in ob.pc:
                                if not E.has_quantifier(c):
                                    qs.add(c)
                            box['s'] = qs
                        qs = box['s']
                        qs.push()
                        qs.add(z3.Not(f))
                        ok = qs.check() == z3.unsat
                        qs.pop()
                        if ok:
                            known[key] = True
                            alive.append(f)
                        return ok
                    g1 = simp(g1, entails)
                ob.goal = g1
    groups: Dict[str, List[Obligation]] = {}
    for ob in obligations:
        if only and only not in ob.name:
            continue
        groups.setdefault(ob.name, []).append(ob)
    t_solver = 0.0
    for name, obs in groups.items():
        verdict = 'discharged'
        detail = ''
        model_txt = None
        cex = None
        work = []
        for ob in obs:
            if ob.goal is None:
                verdict = 'undecided'
                detail = ob.note
                continue
            g = z3.simplify(ob.goal)
            if z3.is_true(g):
                continue
            for part in split_goal(ob.goal):
                work.append(Obligation(ob.name, ob.pc, part, ob.path, ob.kind, ob.note))
        for ob in work:
            t1 = time.time()
            s = mk_solver(timeout_ms)
            s.add(*ob.pc)
            s.add(z3.Not(ob.goal))
            r = s.check()
            res.nqueries += 1
            if r != z3.unsat:
                # Map/Join congruence lemmas are computed lazily, only when something is left open
                if callable(lemmas):
                    lemmas = lemmas()
                if lemmas:
                    s.add(*lemmas)
                    r = s.check()
                    res.nqueries += 1
            if r == z3.unknown:
                seeds = seed_terms(list(ob.pc) + [ob.goal])
                if seeds:
                    s.set('timeout', min(timeout_ms, 3000))
                    s.add(*seeds)
                    r = s.check()
                    res.nqueries += 1
            if r == z3.unknown:
                ab = abstract_hard(list(ob.pc) + list(lemmas if not callable(lemmas) else []) + [z3.Not(ob.goal)])
                if ab is not None:
                    s3 = mk_solver(min(timeout_ms, 3000))
                    s3.add(*ab)
                    if s3.check() == z3.unsat:
                        r = z3.unsat
                    res.nqueries += 1
            if r == z3.unknown and (small_scope or os.environ.get('PYVC_MBQI') != '0'):
                # last resort: z3's default configuration (model-based quantifier instantiation on).  `unsat`
                # is `unsat` whatever the strategy; in small-scope mode few quantifiers are left and it also
                # finds counter-models
                s2 = z3.Solver()
                s2.set('timeout', min(timeout_ms, 5000) if small_scope else timeout_ms)
                s2.add(*ob.pc)
                s2.add(*(lemmas if not callable(lemmas) else []))
                s2.add(z3.Not(ob.goal))
                r2 = s2.check()
                res.nqueries += 1
                if r2 != z3.unknown:
                    s, r = s2, r2
            t_solver += time.time() - t1
            if r == z3.unsat:
                continue
            if r == z3.sat:
                verdict = 'refuted'
                m = s.model()
                model_txt = model_summary(m)
                detail = f'path {ob.path}: counter-model found' + (f' ({ob.note})' if ob.note else '')
                cex = {'path': ob.path, 'model': model_txt, 'note': ob.note}
                break
            if verdict != 'refuted':
                verdict = 'undecided'
                detail = f'path {ob.path}: solver answered unknown ({s.reason_unknown()})' + (f' ({ob.note})' if ob.note else '')
                if os.environ.get('PYVC_DEBUG'):
                    print(f'--- open subgoal of {name} (path {ob.path}):\n{str(ob.goal)[:3000]}', file=sys.stderr)
                    if os.environ.get('PYVC_DEBUG') == '2':
                        for c in ob.pc:
                            print('    PC:', str(c)[:1500].replace('\n', ' '), file=sys.stderr)
                if not small_scope:
                    break    # one open instance settles the group's verdict; do not burn time on the rest
        res.clauses[name] = {'verdict': verdict, 'instances': len(obs), 'detail': detail, 'cex': cex}
    res.solver_s = round(t_solver, 3)


def model_summary(m, limit=40) -> str:
    out = []
    for d in m.decls():
        n = d.name()
        if n.startswith('p_') or n.startswith('res!'):
            try:
                out.append(f'{n} = {m[d]}')
            except Exception:
                pass
    return '; '.join(out[:limit])
