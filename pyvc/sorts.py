"""z3 sorts and the heap vocabulary of PyVC.

Every Python value that can be stored in the heap is a `Val`:
    none | b(Bool) | i(Int) | s(String) | r(Int: object reference) | f(Int: opaque float id)
    | c(Int: id of a class / function / other immutable constant object)

Heap (Boogie style):  one array Ref -> Val per attribute name ("F:<attr>"),
lists:  L_len : Ref -> Int,   L_el : Ref -> (Int -> Val)
dicts (string keys only):  D_has : Ref -> (String -> Bool),  D_val : Ref -> (String -> Val),
                           D_n : Ref -> Int, D_key : Ref -> (Int -> String)   (insertion order)
cls_of : Ref -> Int  (immutable class id of an object)
"""
from __future__ import annotations

import z3

I = z3.IntSort()
B = z3.BoolSort()
S = z3.StringSort()

_V = z3.Datatype('Val')
_V.declare('none')
_V.declare('b', ('bv', B))
_V.declare('i', ('iv', I))
_V.declare('s', ('sv', S))
_V.declare('r', ('rv', I))
_V.declare('f', ('fv', I))
_V.declare('c', ('cv', I))
Val = _V.create()

FieldArr = z3.ArraySort(I, Val)
ElArr = z3.ArraySort(I, Val)
LEl = z3.ArraySort(I, ElArr)
LLen = z3.ArraySort(I, I)
HasArr = z3.ArraySort(S, B)
ValArr = z3.ArraySort(S, Val)
KeyArr = z3.ArraySort(I, S)
DHas = z3.ArraySort(I, HasArr)
DVal = z3.ArraySort(I, ValArr)
DKey = z3.ArraySort(I, KeyArr)
DN = z3.ArraySort(I, I)

cls_of = z3.Function('cls_of', I, I)
# structural equality (`__eq__` of SQLObject subclasses) between two object references
eqv = z3.Function('eqv', I, I, B)
# str(v) for values whose rendering is not modelled exactly
py_str = z3.Function('py_str', Val, S)
# textwrap.indent(text, prefix)
tw_indent = z3.Function('tw_indent', S, S, S)
str_upper = z3.Function('str_upper', S, S)
str_lower = z3.Function('str_lower', S, S)
# str.strip(chars) / rstrip / lstrip
str_strip = z3.Function('str_strip', S, S, S)
str_rstrip = z3.Function('str_rstrip', S, S, S)
str_lstrip = z3.Function('str_lstrip', S, S, S)
str_isspace = z3.Function('str_isspace', S, B)
# opaque float conversions
float_of_str = z3.Function('float_of_str', S, I)
# re.sub with a compiled pattern identified by an integer id
re_sub = z3.Function('re_sub', I, S, S, S)


def replace_all(s, src, dst):
    return z3.SeqRef(z3.Z3_mk_seq_replace_all(s.ctx_ref(), s.as_ast(), src.as_ast(), dst.as_ast()), s.ctx)


def sv(x):
    return z3.StringVal(x)


def mk_solver(timeout_ms: int = 10000):
    s = z3.Solver()
    s.set('auto_config', False)
    s.set('smt.mbqi', False)
    s.set('timeout', timeout_ms)
    return s
