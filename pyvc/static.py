"""S obligations: statements about mechanically extracted program *data* (class constants, renderer
registries, the live pyparsing element graph, the shape of a few ASTs), decided exactly by
evaluation.  No solver, no bound: the data is finite."""
from __future__ import annotations

import ast
import inspect
import os
from typing import Any, Callable, Dict, List, Tuple

from lib.common import OblResult, DISCHARGED, REFUTED, ERROR, Failure, REPO


def _pkg_files() -> List[str]:
    out = []
    for dp, dn, fn in os.walk(os.path.join(REPO, 'pydbml')):
        for f in sorted(fn):
            if f.endswith('.py'):
                out.append(os.path.join(dp, f))
    return sorted(out)


def _fn_ast(fn) -> ast.FunctionDef:
    from pyvc.engine import func_ast
    return func_ast(fn)


# every check returns None (holds) or a message
def s_registry_sql():
    from pydbml.renderer.sql.default import DefaultSQLRenderer as R
    from pydbml.classes import Column, Enum, EnumItem, Expression, Index, Note, Reference, Table
    want = {Column: 'render_column', Enum: 'render_enum', EnumItem: 'render_enum_item', Expression: 'render_expression',
            Index: 'render_index', Note: 'render_note', Reference: 'render_reference', Table: 'render_table'}
    got = {k: v.__name__ for k, v in R.model_renderers.items()}
    if got != want:
        return f'SQL registry {got} != {want}'
    for k, v in R.model_renderers.items():
        if not v.__module__.startswith('pydbml.renderer.sql.default'):
            return f'SQL handler of {k.__name__} lives in {v.__module__}'


def s_registry_dbml():
    from pydbml.renderer.dbml.default import DefaultDBMLRenderer as R
    from pydbml.classes import (Column, Enum, EnumItem, Expression, Index, Note, Reference, Table, Project,
                                StickyNote, TableGroup)
    want = {Column: 'render_column', Enum: 'render_enum', EnumItem: 'render_enum_item', Expression: 'render_expression',
            Index: 'render_index', Note: 'render_note', Reference: 'render_reference', Table: 'render_table',
            Project: 'render_project', StickyNote: 'render_sticky_note', TableGroup: 'render_table_group'}
    got = {k: v.__name__ for k, v in R.model_renderers.items()}
    if got != want:
        return f'DBML registry {got} != {want}'
    for k, v in R.model_renderers.items():
        if not v.__module__.startswith('pydbml.renderer.dbml.default'):
            return f'DBML handler of {k.__name__} lives in {v.__module__}'


def s_registries_separate():
    from pydbml.renderer.sql.default import DefaultSQLRenderer as A
    from pydbml.renderer.dbml.default import DefaultDBMLRenderer as B
    from pydbml.renderer.base import BaseRenderer
    if A.model_renderers is B.model_renderers:
        return 'the two default renderer classes share one registry dict'
    if 'model_renderers' not in A.__dict__ or 'model_renderers' not in B.__dict__:
        return 'a default renderer class does not own its registry'
    src = ast.unparse(_fn_ast(BaseRenderer.render.__func__).body[-1])
    if src != 'return cls.model_renderers.get(type(model), cls._unsupported_renderer)(model)':
        return 'BaseRenderer.render is not the exact-type dispatch: ' + src
    from pydbml.renderer.base import unsupported_renderer
    if unsupported_renderer(object()) != '':
        return 'unsupported_renderer does not return the empty string'


def s_setattr_passthrough():
    from pydbml._classes.base import SQLObject
    from pyvc.verify import registry
    if not registry().setattr_passthrough(SQLObject):
        return 'SQLObject.__setattr__ is not exactly super().__setattr__(name, value)'


def s_compare_fields():
    from pydbml.classes import Table, Column, Index, Note, Reference, Enum, EnumItem, Expression
    want = {Table: ('database',), Column: ('table',), Index: ('table',), Note: ('parent',),
            Reference: ('database', '_inline', 'comment'), Enum: (), EnumItem: (), Expression: ()}
    for k, v in want.items():
        if tuple(k.dont_compare_fields) != v:
            return f'{k.__name__}.dont_compare_fields = {k.dont_compare_fields!r}, expected {v!r}'
    # the generic __eq__ compares every other attribute: check its AST
    from pydbml._classes.base import SQLObject
    src = ast.unparse(_fn_ast(SQLObject.__eq__))
    for needle in ('isinstance(other, self.__class__)', 'dict(self.__dict__)', 'dict(other.__dict__)',
                   'for field in self.dont_compare_fields', 'return self_dict == other_dict'):
        if needle not in src:
            return f'SQLObject.__eq__ lost `{needle}`'


def s_required_attributes():
    from pydbml.classes import Table, Column, Enum, EnumItem, Index
    want = {Table: {'name', 'schema'}, Column: {'name', 'type'}, Enum: {'name', 'schema'}, EnumItem: {'name'},
            Index: {'table'}}
    for k, v in want.items():
        if not v <= set(k.required_attributes):
            return f'{k.__name__}.required_attributes = {k.required_attributes!r} lacks {sorted(v - set(k.required_attributes))}'


def s_no_mutable_defaults():
    bad = []
    for path in _pkg_files():
        tree = ast.parse(open(path, encoding='utf8').read())
        for node in ast.walk(tree):
            if isinstance(node, (ast.FunctionDef, ast.Lambda, ast.AsyncFunctionDef)):
                for d in list(node.args.defaults) + [x for x in node.args.kw_defaults if x is not None]:
                    if isinstance(d, (ast.List, ast.Dict, ast.Set, ast.ListComp, ast.DictComp, ast.SetComp)) or \
                            (isinstance(d, ast.Call) and isinstance(d.func, ast.Name) and d.func.id in ('list', 'dict', 'set')):
                        bad.append(f'{os.path.relpath(path, REPO)}:{node.lineno}')
    if bad:
        return 'mutable default argument(s): ' + ', '.join(bad)


def s_no_global_state():
    bad = []
    for path in _pkg_files():
        tree = ast.parse(open(path, encoding='utf8').read())
        for node in ast.walk(tree):
            if isinstance(node, (ast.Global, ast.Nonlocal)):
                bad.append(f'{os.path.relpath(path, REPO)}:{node.lineno}')
            if isinstance(node, ast.Call) and isinstance(node.func, ast.Attribute) and \
                    node.func.attr in ('enable_packrat', 'enablePackrat', 'enable_left_recursion'):
                bad.append(f'{os.path.relpath(path, REPO)}:{node.lineno} packrat')
    # class-level mutable attributes of the model / blueprint / parser classes
    import pydbml.parser.blueprints as BP
    import pydbml.parser.parser as P
    import pydbml.database as D
    import pydbml.classes as C
    for mod in (BP, P, D):
        for n, c in vars(mod).items():
            if inspect.isclass(c) and c.__module__ == mod.__name__:
                for an, av in vars(c).items():
                    if isinstance(av, (list, dict, set)) and not an.startswith('__'):
                        bad.append(f'{c.__name__}.{an} is a class-level {type(av).__name__}')
    for n in C.__all__:
        c = getattr(C, n)
        for an, av in vars(c).items():
            if isinstance(av, (list, dict, set)) and not an.startswith('__') and an != 'dont_compare_fields' \
                    and an != 'required_attributes':
                bad.append(f'{c.__name__}.{an} is a class-level {type(av).__name__}')
    if bad:
        return 'state that outlives a call: ' + ', '.join(bad)


def s_funnel():
    from pydbml.parser.parser import PyDBMLParser
    body = [ast.unparse(s) for s in _fn_ast(PyDBMLParser.parse).body]
    want = ['self._set_syntax()', 'self._syntax.parse_string(self.source, parseAll=True)',
            'self.build_database()', 'return self.database']
    if body != want:
        return f'PyDBMLParser.parse is {body}, expected {want}'


def s_no_handlers():
    """No try/except on the way from the entry points to the raise sites (C06: the error escapes)."""
    from pydbml.parser.parser import PyDBMLParser, PyDBML
    import pydbml.parser.blueprints as BP
    fns = [PyDBMLParser.parse, PyDBMLParser.build_database, PyDBMLParser.parse_blueprint, PyDBMLParser._set_syntax,
           PyDBMLParser.locate_table, PyDBML.parse, PyDBML.parse_file, PyDBML.__new__]
    for n, c in vars(BP).items():
        if inspect.isclass(c) and c.__module__ == BP.__name__ and 'build' in c.__dict__:
            fns.append(c.__dict__['build'])
    for f in fns:
        f = getattr(f, '__func__', f)
        for node in ast.walk(_fn_ast(f)):
            if isinstance(node, ast.Try):
                return f'{f.__qualname__} contains a try statement'


def _bound_to(action, parser) -> bool:
    """pyparsing wraps actions (_trim_arity): look through closures for the bound method"""
    seen = set()
    todo = [action]
    while todo:
        a = todo.pop()
        if id(a) in seen:
            continue
        seen.add(id(a))
        if getattr(a, '__self__', None) is parser and getattr(a, '__name__', '') == 'parse_blueprint':
            return True
        for c in getattr(a, '__closure__', None) or ():
            try:
                todo.append(c.cell_contents)
            except ValueError:
                pass
        w = getattr(a, '__wrapped__', None)
        if w is not None:
            todo.append(w)
    return False


def _flat(e, cls, top=True):
    """operands of a left-nested a+b+c / a|b|c chain (inner nodes are anonymous and action-free)"""
    if type(e) is cls and (top or (not e.resultsName and not e.parseAction)):
        return [y for x in e.exprs for y in _flat(x, cls, False)]
    return [e]


def _syntax_of(allow):
    from pydbml.parser.parser import PyDBMLParser
    p = PyDBMLParser('', allow_properties=allow)
    p._set_syntax()
    return p, p._syntax


def s_top_level_shape():
    import pyparsing as pp
    import pydbml.definitions.table as T
    import pydbml.definitions.reference as R
    import pydbml.definitions.enum as EN
    import pydbml.definitions.table_group as TG
    import pydbml.definitions.project as PR
    import pydbml.definitions.sticky_note as SN
    for allow in (False, True):
        p, syn = _syntax_of(allow)
        parts = _flat(syn, pp.And)
        if not isinstance(syn, pp.And) or len(parts) != 3:
            return f'_syntax is not a sequence of three parts but of {len(parts)}'
        rep, tail, end = parts
        if not isinstance(rep, pp.ZeroOrMore) or not isinstance(rep.expr, pp.MatchFirst) or \
                len(_flat(rep.expr, pp.MatchFirst)) != 6:
            return 'first part is not zero-or-more of a six-way choice'
        if not isinstance(end, pp.StringEnd):
            return 'last part is not StringEnd'
        if not isinstance(tail, pp.ZeroOrMore):
            return 'middle part is not zero-or-more'
        base = [T.table_with_properties if allow else T.table, R.ref, EN.enum, TG.table_group, PR.project, SN.sticky_note]
        names = ['table_with_properties' if allow else 'table', 'ref', 'enum', 'table_group', 'project', 'sticky_note']
        for got, b in zip(_flat(rep.expr, pp.MatchFirst), base):
            nm = names[base.index(b)]
            if got is b:
                return f'the module-level grammar rule {nm} is used directly (not a copy)'
            if type(got) is not type(b) or getattr(got, 'exprs', None) is None or \
                    [type(x) for x in got.exprs] != [type(x) for x in b.exprs] or \
                    [a for a in got.parseAction[:len(b.parseAction)]] != list(b.parseAction):
                return f'alternative {base.index(b)} is not a copy of {nm}'
            if not any(_bound_to(a, p) for a in got.parseAction):
                return f'the parser\'s collecting action is not attached to its copy of {nm}'
            if len(got.parseAction) != len(b.parseAction) + 1:
                return f'copy of {nm} carries {len(got.parseAction)} actions, module-level rule {len(b.parseAction)}'
        tl = tail.expr
        if not isinstance(tl, pp.MatchFirst) or len(tl.exprs) != 2 or getattr(tl.exprs[0], 'match', None) != '\n':
            return 'the trailer is not (newline | comment)*'


def s_module_rules_untouched():
    """Constructing parsers and setting their syntax never adds an action to a module-level rule."""
    import pydbml.definitions.table as T
    import pydbml.definitions.reference as R
    import pydbml.definitions.enum as EN
    import pydbml.definitions.table_group as TG
    import pydbml.definitions.project as PR
    import pydbml.definitions.sticky_note as SN
    rules = [T.table, T.table_with_properties, R.ref, R.ref_short, R.ref_long, EN.enum, TG.table_group, PR.project,
             SN.sticky_note]
    before = [len(r.parseAction) for r in rules]
    for allow in (False, True, False):
        _syntax_of(allow)
    after = [len(r.parseAction) for r in rules]
    if before != after:
        return f'parse-action counts of module-level rules changed: {before} -> {after}'


def _literals(expr) -> List[str]:
    import pyparsing as pp
    out = []
    seen = set()

    def walk(e):
        if id(e) in seen:
            return
        seen.add(id(e))
        if isinstance(e, (pp.Literal, pp.CaselessLiteral, pp.Keyword)):
            out.append(e.match)
        for sub in getattr(e, 'exprs', []) or []:
            walk(sub)
        if getattr(e, 'expr', None) is not None:
            walk(e.expr)
    walk(expr)
    return out


def s_closed_sets():
    import pyparsing as pp
    import pydbml.definitions.index as IX
    import pydbml.definitions.reference as R
    import pydbml.definitions.common as CM
    types_ = sorted(x.lower() for x in _literals(IX.index_type) if x.isalnum())
    if types_ != ['brin', 'btree', 'gin', 'gist', 'hash', 'spgist']:
        return f'index types are {types_}'
    acts = sorted(x.lower() for x in _literals(R.on_option))
    if acts != ['cascade', 'no action', 'restrict', 'set default', 'set null']:
        return f'reference actions are {acts}'
    rel = R.relation
    ops = None
    if isinstance(rel, pp.Regex):
        import re
        ops = sorted(o for o in ['>', '<', '-', '<>', '>>', '=>', '=', '<-', '->', '><', '--'] if re.fullmatch(rel.pattern, o))
    else:
        ops = sorted(_literals(rel))
    if ops != ['-', '<', '<>', '>']:
        return f'relation operators are {ops}'
    hc = CM.hex_color
    ok3 = ok6 = True
    for text, want in (('#abc', True), ('#abcdef', True), ('#ab', False), ('#abcd', False), ('#abcde', False),
                       ('#abcdefa', False), ('#ggg', False), ('#12345g', False), ('abc', False)):
        try:
            r = hc.parse_string(text, parse_all=True)
            got = True
        except pp.ParseBaseException:
            got = False
        if got != want:
            return f'hex_color {"accepts" if got else "rejects"} {text!r}'


def s_property_grammar_diff():
    """table_with_properties == table except one more alternative in the body choice and the column
    settings that admit properties (C15: enabling the option changes nothing else)."""
    import pydbml.definitions.table as T

    import pyparsing as pp

    def body_alts(el):
        return [sub for sub in _flat(el, pp.And) if isinstance(sub, pp.MatchFirst)]

    def uses(tbl, body):
        seen = set()

        def walk(e):
            if id(e) in seen:
                return False
            seen.add(id(e))
            if e is body:
                return True
            return any(walk(x) for x in (getattr(e, 'exprs', None) or [])) or \
                (getattr(e, 'expr', None) is not None and walk(e.expr))
        return walk(tbl)
    if not uses(T.table, T.table_body) or uses(T.table, T.table_body_with_properties):
        return 'table does not use exactly table_body'
    if not uses(T.table_with_properties, T.table_body_with_properties) or uses(T.table_with_properties, T.table_body):
        return 'table_with_properties does not use exactly table_body_with_properties'
    if T.table_body.expr is not T.table_element or T.table_body_with_properties.expr is not T.table_element_with_property:
        return 'the table bodies are not repetitions of the table elements'
    a, b = body_alts(T.table_element), body_alts(T.table_element_with_property)
    if len(a) != 1 or len(b) != 1:
        return f'cannot locate the table body choice ({len(a)}, {len(b)})'
    ea, eb = _flat(a[0], pp.MatchFirst), _flat(b[0], pp.MatchFirst)
    na, nb = [str(x) for x in ea], [str(x) for x in eb]
    if len(nb) != len(na) + 1:
        return f'body choice has {len(na)} alternatives without and {len(nb)} with properties'
    if [x.resultsName for x in ea] != ['columns', 'note', 'indexes'] or \
            [x.resultsName for x in eb] != ['columns', 'note', 'indexes', 'property']:
        return f'body alternatives are named {[x.resultsName for x in ea]} / {[x.resultsName for x in eb]}'
    if na[1:] != nb[1:3]:
        return 'the note / indexes alternatives differ between the two table grammars'


def s_default_whitespace():
    import pyparsing as pp
    import pydbml.parser.parser  # noqa: F401  (sets it)
    if set(pp.ParserElement.DEFAULT_WHITE_CHARS) != set(' \t\r'):
        return f'default whitespace is {pp.ParserElement.DEFAULT_WHITE_CHARS!r} (a newline must be significant)'


CHECKS: List[Tuple[str, Tuple[str, ...], Callable[[], Any], str]] = [
    ('S.registry.sql', ('C16', 'C03'), s_registry_sql, 'the SQL renderer registry is exactly {model class: its handler}'),
    ('S.registry.dbml', ('C16', 'C02'), s_registry_dbml, 'the DBML renderer registry is exactly {model class: its handler}'),
    ('S.registry.dispatch', ('C16',), s_registries_separate, 'each default renderer owns its registry; BaseRenderer.render dispatches on the exact type, falling back to the empty string'),
    ('S.setattr', ('C09', 'C10'), s_setattr_passthrough, 'SQLObject.__setattr__ is a pure pass-through (attribute stores are plain stores)'),
    ('S.eq-fields', ('C06', 'C09'), s_compare_fields, 'structural equality compares every attribute except the back-pointers (and, for references, inline-ness and comment)'),
    ('S.required', ('C17',), s_required_attributes, 'required_attributes cover the attributes whose absence must be refused'),
    ('S.no-mutable-defaults', ('C11', 'C18', 'C16'), s_no_mutable_defaults, 'no function of pydbml has a mutable default argument'),
    ('S.no-global-state', ('C11',), s_no_global_state, 'no global/nonlocal statement, no packrat cache, no class-level mutable attribute on model/blueprint/parser classes'),
    ('S.funnel', ('C07', 'C08'), s_funnel, 'PyDBMLParser.parse = set syntax; parse the whole source (parseAll); build; return'),
    ('S.no-handlers', ('C06', 'C07'), s_no_handlers, 'no try/except between the entry points and the raise sites'),
    ('S.top-shape', ('C07', 'C11', 'C15'), s_top_level_shape, '_syntax = (six copies of the top-level rules)* (newline|comment)* StringEnd, copies carry the collecting action, the table rule follows the option'),
    ('S.rules-untouched', ('C11',), s_module_rules_untouched, 'module-level grammar rules keep their action lists across parser constructions'),
    ('S.closed-sets', ('C07',), s_closed_sets, 'index types, reference operators, reference actions and colours are exactly the documented sets'),
    ('S.property-grammar', ('C15',), s_property_grammar_diff, 'the two table grammars differ only by the property alternative'),
    ('S.whitespace', ('C07', 'C01'), s_default_whitespace, 'newline is not default whitespace'),
]


def run_static(prop: str) -> List[OblResult]:
    out = []
    for oid, props, fn, text in CHECKS:
        if prop not in props:
            continue
        r = OblResult(id=f'{prop}.{oid}', kind='S', verdict=DISCHARGED, backend='static', detail=text,
                      function=fn.__name__)
        try:
            msg = fn()
        except Exception as e:      # the extraction itself failed: a checker problem unless the code changed shape
            import traceback
            msg = 'extraction failed: ' + traceback.format_exc()[-400:]
        if msg:
            r.verdict = REFUTED
            r.detail = msg
            r.failures.append(Failure(obligation=r.id, key=oid, message=f'{text}: {msg}',
                                      recipe={'static': oid}, native=True))
        out.append(r)
    return out


def replay_static(oid: str):
    for i, props, fn, text in CHECKS:
        if oid.endswith(i):
            msg = fn()
            return (i, msg) if msg else None
    raise SystemExit(f'no static obligation {oid}')
