"""S obligations: statements about mechanically extracted program *data* (class constants, renderer
registries, the live pyparsing element graph, the shape of a few ASTs), decided exactly by
evaluation.  No solver, no bound: the data is finite."""
from __future__ import annotations

import ast
import inspect
import os
from typing import Any, Callable, Dict, List, Tuple

from lib.common import OblResult, DISCHARGED, REFUTED, UNDECIDED, ERROR, Failure, REPO


def _pkg_files() -> List[str]:
    out = []
    for dp, dn, fn in os.walk(os.path.join(REPO, 'pydbml')):
        for f in sorted(fn):
            if f.endswith('.py'):
                out.append(os.path.join(dp, f))
    return sorted(out)


def _fn_ast(fn) -> ast.FunctionDef:
    from pyvc.engine import func_ast
    return func_ast(fn)


# every check returns None (holds) or a message
def s_registry_sql():
    from pydbml.renderer.sql.default import DefaultSQLRenderer as R
    from pydbml.classes import Column, Enum, EnumItem, Expression, Index, Note, Reference, Table
    want = {Column: 'render_column', Enum: 'render_enum', EnumItem: 'render_enum_item', Expression: 'render_expression',
            Index: 'render_index', Note: 'render_note', Reference: 'render_reference', Table: 'render_table'}
    got = {k: v.__name__ for k, v in R.model_renderers.items()}
    if got != want:
        return f'SQL registry {got} != {want}'
    for k, v in R.model_renderers.items():
        if not v.__module__.startswith('pydbml.renderer.sql.default'):
            return f'SQL handler of {k.__name__} lives in {v.__module__}'


def s_registry_dbml():
    from pydbml.renderer.dbml.default import DefaultDBMLRenderer as R
    from pydbml.classes import (Column, Enum, EnumItem, Expression, Index, Note, Reference, Table, Project,
                                StickyNote, TableGroup)
    want = {Column: 'render_column', Enum: 'render_enum', EnumItem: 'render_enum_item', Expression: 'render_expression',
            Index: 'render_index', Note: 'render_note', Reference: 'render_reference', Table: 'render_table',
            Project: 'render_project', StickyNote: 'render_sticky_note', TableGroup: 'render_table_group'}
    got = {k: v.__name__ for k, v in R.model_renderers.items()}
    if got != want:
        return f'DBML registry {got} != {want}'
    for k, v in R.model_renderers.items():
        if not v.__module__.startswith('pydbml.renderer.dbml.default'):
            return f'DBML handler of {k.__name__} lives in {v.__module__}'


def s_registries_separate():
    from pydbml.renderer.sql.default import DefaultSQLRenderer as A
    from pydbml.renderer.dbml.default import DefaultDBMLRenderer as B
    from pydbml.renderer.base import BaseRenderer
    if A.model_renderers is B.model_renderers:
        return 'the two default renderer classes share one registry dict'
    if 'model_renderers' not in A.__dict__ or 'model_renderers' not in B.__dict__:
        return 'a default renderer class does not own its registry'
    src = ast.unparse(_fn_ast(BaseRenderer.render.__func__).body[-1])
    if src != 'return cls.model_renderers.get(type(model), cls._unsupported_renderer)(model)':
        return 'BaseRenderer.render is not the exact-type dispatch: ' + src
    from pydbml.renderer.base import unsupported_renderer
    if unsupported_renderer(object()) != '':
        return 'unsupported_renderer does not return the empty string'


def s_setattr_passthrough():
    from pydbml._classes.base import SQLObject
    from pyvc.verify import registry
    if not registry().setattr_passthrough(SQLObject):
        return 'SQLObject.__setattr__ is not exactly super().__setattr__(name, value)'


def s_compare_fields():
    from pydbml.classes import Table, Column, Index, Note, Reference, Enum, EnumItem, Expression
    want = {Table: ('database',), Column: ('table',), Index: ('table',), Note: ('parent',),
            Reference: ('database', '_inline', 'comment'), Enum: (), EnumItem: (), Expression: ()}
    for k, v in want.items():
        if tuple(k.dont_compare_fields) != v:
            return f'{k.__name__}.dont_compare_fields = {k.dont_compare_fields!r}, expected {v!r}'
    # the generic __eq__ compares every other attribute: check its AST
    from pydbml._classes.base import SQLObject
    src = ast.unparse(_fn_ast(SQLObject.__eq__))
    for needle in ('isinstance(other, self.__class__)', 'dict(self.__dict__)', 'dict(other.__dict__)',
                   'for field in self.dont_compare_fields', 'return self_dict == other_dict'):
        if needle not in src:
            return f'SQLObject.__eq__ lost `{needle}`'


def s_required_attributes():
    from pydbml.classes import Table, Column, Enum, EnumItem, Index
    want = {Table: {'name', 'schema'}, Column: {'name', 'type'}, Enum: {'name', 'schema'}, EnumItem: {'name'},
            Index: {'table'}}
    for k, v in want.items():
        if not v <= set(k.required_attributes):
            return f'{k.__name__}.required_attributes = {k.required_attributes!r} lacks {sorted(v - set(k.required_attributes))}'


def s_no_mutable_defaults():
    bad = []
    for path in _pkg_files():
        tree = ast.parse(open(path, encoding='utf8').read())
        for node in ast.walk(tree):
            if isinstance(node, (ast.FunctionDef, ast.Lambda, ast.AsyncFunctionDef)):
                for d in list(node.args.defaults) + [x for x in node.args.kw_defaults if x is not None]:
                    if isinstance(d, (ast.List, ast.Dict, ast.Set, ast.ListComp, ast.DictComp, ast.SetComp)) or \
                            (isinstance(d, ast.Call) and isinstance(d.func, ast.Name) and d.func.id in ('list', 'dict', 'set')):
                        bad.append(f'{os.path.relpath(path, REPO)}:{node.lineno}')
    if bad:
        return 'mutable default argument(s): ' + ', '.join(bad)


def s_no_global_state():
    bad = []
    for path in _pkg_files():
        tree = ast.parse(open(path, encoding='utf8').read())
        for node in ast.walk(tree):
            if isinstance(node, (ast.Global, ast.Nonlocal)):
                bad.append(f'{os.path.relpath(path, REPO)}:{node.lineno}')
            if isinstance(node, ast.Call) and isinstance(node.func, ast.Attribute) and \
                    node.func.attr in ('enable_packrat', 'enablePackrat', 'enable_left_recursion'):
                bad.append(f'{os.path.relpath(path, REPO)}:{node.lineno} packrat')
    # class-level mutable attributes of the model / blueprint / parser classes
    import pydbml.parser.blueprints as BP
    import pydbml.parser.parser as P
    import pydbml.database as D
    import pydbml.classes as C
    for mod in (BP, P, D):
        for n, c in vars(mod).items():
            if inspect.isclass(c) and c.__module__ == mod.__name__:
                for an, av in vars(c).items():
                    if isinstance(av, (list, dict, set)) and not an.startswith('__'):
                        bad.append(f'{c.__name__}.{an} is a class-level {type(av).__name__}')
    for n in C.__all__:
        c = getattr(C, n)
        for an, av in vars(c).items():
            if isinstance(av, (list, dict, set)) and not an.startswith('__') and an != 'dont_compare_fields' \
                    and an != 'required_attributes':
                bad.append(f'{c.__name__}.{an} is a class-level {type(av).__name__}')
    if bad:
        return 'state that outlives a call: ' + ', '.join(bad)


def s_funnel():
    from pydbml.parser.parser import PyDBMLParser
    body = [ast.unparse(s) for s in _fn_ast(PyDBMLParser.parse).body]
    want = ['self._set_syntax()', 'self._syntax.parse_string(self.source, parseAll=True)',
            'self.build_database()', 'return self.database']
    if body != want:
        return f'PyDBMLParser.parse is {body}, expected {want}'


def s_no_handlers():
    """No try/except on the way from the entry points to the raise sites (C06: the error escapes)."""
    from pydbml.parser.parser import PyDBMLParser, PyDBML
    import pydbml.parser.blueprints as BP
    fns = [PyDBMLParser.parse, PyDBMLParser.build_database, PyDBMLParser.parse_blueprint, PyDBMLParser._set_syntax,
           PyDBMLParser.locate_table, PyDBML.parse, PyDBML.parse_file, PyDBML.__new__]
    for n, c in vars(BP).items():
        if inspect.isclass(c) and c.__module__ == BP.__name__ and 'build' in c.__dict__:
            fns.append(c.__dict__['build'])
    for f in fns:
        f = getattr(f, '__func__', f)
        for node in ast.walk(_fn_ast(f)):
            if isinstance(node, ast.Try):
                return f'{f.__qualname__} contains a try statement'


def _bound_to(action, parser) -> bool:
    """pyparsing wraps actions (_trim_arity): look through closures for the bound method"""
    seen = set()
    todo = [action]
    while todo:
        a = todo.pop()
        if id(a) in seen:
            continue
        seen.add(id(a))
        if getattr(a, '__self__', None) is parser and getattr(a, '__name__', '') == 'parse_blueprint':
            return True
        for c in getattr(a, '__closure__', None) or ():
            try:
                todo.append(c.cell_contents)
            except ValueError:
                pass
        w = getattr(a, '__wrapped__', None)
        if w is not None:
            todo.append(w)
    return False


def _flat(e, cls, top=True):
    """operands of a left-nested a+b+c / a|b|c chain (inner nodes are anonymous and action-free)"""
    if type(e) is cls and (top or (not e.resultsName and not e.parseAction)):
        return [y for x in e.exprs for y in _flat(x, cls, False)]
    return [e]


def _syntax_of(allow):
    from pydbml.parser.parser import PyDBMLParser
    p = PyDBMLParser('', allow_properties=allow)
    p._set_syntax()
    return p, p._syntax


def s_top_level_shape():
    import pyparsing as pp
    import pydbml.definitions.table as T
    import pydbml.definitions.reference as R
    import pydbml.definitions.enum as EN
    import pydbml.definitions.table_group as TG
    import pydbml.definitions.project as PR
    import pydbml.definitions.sticky_note as SN
    for allow in (False, True):
        p, syn = _syntax_of(allow)
        parts = _flat(syn, pp.And)
        if not isinstance(syn, pp.And) or len(parts) != 3:
            return f'_syntax is not a sequence of three parts but of {len(parts)}'
        rep, tail, end = parts
        if not isinstance(rep, pp.ZeroOrMore) or not isinstance(rep.expr, pp.MatchFirst) or \
                len(_flat(rep.expr, pp.MatchFirst)) != 6:
            return 'first part is not zero-or-more of a six-way choice'
        if not isinstance(end, pp.StringEnd):
            return 'last part is not StringEnd'
        if not isinstance(tail, pp.ZeroOrMore):
            return 'middle part is not zero-or-more'
        base = [T.table_with_properties if allow else T.table, R.ref, EN.enum, TG.table_group, PR.project, SN.sticky_note]
        names = ['table_with_properties' if allow else 'table', 'ref', 'enum', 'table_group', 'project', 'sticky_note']
        for got, b in zip(_flat(rep.expr, pp.MatchFirst), base):
            nm = names[base.index(b)]
            if got is b:
                return f'the module-level grammar rule {nm} is used directly (not a copy)'
            if type(got) is not type(b) or getattr(got, 'exprs', None) is None or \
                    [type(x) for x in got.exprs] != [type(x) for x in b.exprs] or \
                    [a for a in got.parseAction[:len(b.parseAction)]] != list(b.parseAction):
                return f'alternative {base.index(b)} is not a copy of {nm}'
            if not any(_bound_to(a, p) for a in got.parseAction):
                return f'the parser\'s collecting action is not attached to its copy of {nm}'
            if len(got.parseAction) != len(b.parseAction) + 1:
                return f'copy of {nm} carries {len(got.parseAction)} actions, module-level rule {len(b.parseAction)}'
        tl = tail.expr
        if not isinstance(tl, pp.MatchFirst) or len(tl.exprs) != 2 or getattr(tl.exprs[0], 'match', None) != '\n':
            return 'the trailer is not (newline | comment)*'


def s_module_rules_untouched():
    """Constructing parsers and setting their syntax never adds an action to a module-level rule."""
    import pydbml.definitions.table as T
    import pydbml.definitions.reference as R
    import pydbml.definitions.enum as EN
    import pydbml.definitions.table_group as TG
    import pydbml.definitions.project as PR
    import pydbml.definitions.sticky_note as SN
    rules = [T.table, T.table_with_properties, R.ref, R.ref_short, R.ref_long, EN.enum, TG.table_group, PR.project,
             SN.sticky_note]
    before = [len(r.parseAction) for r in rules]
    for allow in (False, True, False):
        _syntax_of(allow)
    after = [len(r.parseAction) for r in rules]
    if before != after:
        return f'parse-action counts of module-level rules changed: {before} -> {after}'


def _literals(expr) -> List[str]:
    import pyparsing as pp
    out = []
    seen = set()

    def walk(e):
        if id(e) in seen:
            return
        seen.add(id(e))
        if isinstance(e, (pp.Literal, pp.CaselessLiteral, pp.Keyword)):
            out.append(e.match)
        for sub in getattr(e, 'exprs', []) or []:
            walk(sub)
        if getattr(e, 'expr', None) is not None:
            walk(e.expr)
    walk(expr)
    return out


def s_closed_sets():
    import pyparsing as pp
    import pydbml.definitions.index as IX
    import pydbml.definitions.reference as R
    import pydbml.definitions.common as CM
    types_ = sorted(x.lower() for x in _literals(IX.index_type) if x.isalnum())
    if types_ != ['brin', 'btree', 'gin', 'gist', 'hash', 'spgist']:
        return f'index types are {types_}'
    acts = sorted(x.lower() for x in _literals(R.on_option))
    if acts != ['cascade', 'no action', 'restrict', 'set default', 'set null']:
        return f'reference actions are {acts}'
    rel = R.relation
    ops = None
    if isinstance(rel, pp.Regex):
        import re
        ops = sorted(o for o in ['>', '<', '-', '<>', '>>', '=>', '=', '<-', '->', '><', '--'] if re.fullmatch(rel.pattern, o))
    else:
        ops = sorted(_literals(rel))
    if ops != ['-', '<', '<>', '>']:
        return f'relation operators are {ops}'
    hc = CM.hex_color
    ok3 = ok6 = True
    for text, want in (('#abc', True), ('#abcdef', True), ('#ab', False), ('#abcd', False), ('#abcde', False),
                       ('#abcdefa', False), ('#ggg', False), ('#12345g', False), ('abc', False)):
        try:
            r = hc.parse_string(text, parse_all=True)
            got = True
        except pp.ParseBaseException:
            got = False
        if got != want:
            return f'hex_color {"accepts" if got else "rejects"} {text!r}'


def s_property_grammar_diff():
    """table_with_properties == table except one more alternative in the body choice and the column
    settings that admit properties (C15: enabling the option changes nothing else)."""
    import pydbml.definitions.table as T

    import pyparsing as pp

    def body_alts(el):
        return [sub for sub in _flat(el, pp.And) if isinstance(sub, pp.MatchFirst)]

    def uses(tbl, body):
        seen = set()

        def walk(e):
            if id(e) in seen:
                return False
            seen.add(id(e))
            if e is body:
                return True
            return any(walk(x) for x in (getattr(e, 'exprs', None) or [])) or \
                (getattr(e, 'expr', None) is not None and walk(e.expr))
        return walk(tbl)
    if not uses(T.table, T.table_body) or uses(T.table, T.table_body_with_properties):
        return 'table does not use exactly table_body'
    if not uses(T.table_with_properties, T.table_body_with_properties) or uses(T.table_with_properties, T.table_body):
        return 'table_with_properties does not use exactly table_body_with_properties'
    if T.table_body.expr is not T.table_element or T.table_body_with_properties.expr is not T.table_element_with_property:
        return 'the table bodies are not repetitions of the table elements'
    a, b = body_alts(T.table_element), body_alts(T.table_element_with_property)
    if len(a) != 1 or len(b) != 1:
        return f'cannot locate the table body choice ({len(a)}, {len(b)})'
    ea, eb = _flat(a[0], pp.MatchFirst), _flat(b[0], pp.MatchFirst)
    na, nb = [str(x) for x in ea], [str(x) for x in eb]
    if len(nb) != len(na) + 1:
        return f'body choice has {len(na)} alternatives without and {len(nb)} with properties'
    if [x.resultsName for x in ea] != ['columns', 'note', 'indexes'] or \
            [x.resultsName for x in eb] != ['columns', 'note', 'indexes', 'property']:
        return f'body alternatives are named {[x.resultsName for x in ea]} / {[x.resultsName for x in eb]}'
    if na[1:] != nb[1:3]:
        return 'the note / indexes alternatives differ between the two table grammars'


def s_default_whitespace():
    import pyparsing as pp
    import pydbml.parser.parser  # noqa: F401  (sets it)
    if set(pp.ParserElement.DEFAULT_WHITE_CHARS) != set(' \t\r'):
        return f'default whitespace is {pp.ParserElement.DEFAULT_WHITE_CHARS!r} (a newline must be significant)'


def s_no_memo():
    """Nothing remembers a result between calls: no functools cache, no weak/ordinary container at
    module level, no descriptor other than property on the model classes."""
    import collections.abc as abc
    import importlib
    import pkgutil
    import pydbml
    bad = []
    for path in _pkg_files():
        tree = ast.parse(open(path, encoding='utf8').read())
        for node in ast.walk(tree):
            ident = node.id if isinstance(node, ast.Name) else node.attr if isinstance(node, ast.Attribute) else \
                None
            if ident in ('lru_cache', 'cache', 'cached_property', 'WeakKeyDictionary', 'WeakValueDictionary',
                         'WeakSet', 'singledispatch'):
                bad.append(f'{os.path.relpath(path, REPO)}:{node.lineno} uses {ident}')
            if isinstance(node, ast.ImportFrom) and any(a.name in ('lru_cache', 'cache', 'cached_property',
                                                                   'WeakKeyDictionary', 'WeakValueDictionary', 'WeakSet')
                                                        for a in node.names):
                bad.append(f'{os.path.relpath(path, REPO)}:{node.lineno} imports a cache')
    for m in pkgutil.walk_packages(pydbml.__path__, 'pydbml.'):
        mod = importlib.import_module(m.name)
        for n, v in vars(mod).items():
            if n.startswith('__') or isinstance(v, type):
                continue
            if isinstance(v, (abc.MutableMapping, abc.MutableSequence, abc.MutableSet)):
                bad.append(f'{m.name}.{n} is a module-level {type(v).__name__}')
    import pydbml.classes as C
    import pydbml.database as D
    for c in [getattr(C, n) for n in C.__all__] + [D.Database]:
        for k in c.__mro__:
            if not k.__module__.startswith('pydbml'):
                continue
            for an, av in vars(k).items():
                if hasattr(av, '__get__') and not isinstance(av, (property, staticmethod, classmethod)) and \
                        not inspect.isfunction(av) and not an.startswith('__'):
                    bad.append(f'{k.__name__}.{an} is a {type(av).__name__} descriptor')
    if bad:
        return 'memoisation or shared state: ' + ', '.join(sorted(set(bad)))


def s_dispatch_through_cls():
    """Methods of the renderer classes call handlers through `cls`, never through a class named
    literally, so that a subclass configured on the database is the one that renders."""
    from pydbml.renderer.base import BaseRenderer
    from pydbml.renderer.sql.default.renderer import DefaultSQLRenderer
    from pydbml.renderer.dbml.default.renderer import DefaultDBMLRenderer
    names = {'BaseRenderer', 'DefaultSQLRenderer', 'DefaultDBMLRenderer'}
    for c in (BaseRenderer, DefaultSQLRenderer, DefaultDBMLRenderer):
        for an, av in vars(c).items():
            f = getattr(av, '__func__', av)
            if not inspect.isfunction(f):
                continue
            tree = _fn_ast(f)
            for node in ast.walk(tree):
                if isinstance(node, ast.Name) and node.id in names:
                    return f'{c.__name__}.{an} names the class {node.id} instead of dispatching through cls'
            if an == 'render_db' and c is not BaseRenderer:
                calls = [n for n in ast.walk(tree) if isinstance(n, ast.Call) and isinstance(n.func, ast.Attribute)
                         and n.func.attr == 'render']
                if not calls or any(not (isinstance(n.func.value, ast.Name) and n.func.value.id == 'cls') for n in calls):
                    return f'{c.__name__}.render_db does not render its pieces with cls.render'
    # the element side: SQLObject.sql / DBMLObject.dbml pick the database's class when attached
    from pydbml._classes.base import SQLObject, DBMLObject
    for c, attr, rn in ((SQLObject, 'sql', 'sql_renderer'), (DBMLObject, 'dbml', 'dbml_renderer')):
        src = ast.unparse(_fn_ast(vars(c)[attr].fget))
        if rn not in src or '.render(self)' not in src:
            return f'{c.__name__}.{attr} does not render through the database\'s {rn}'


def _qs_attrs(q):
    g = lambda *names: next((getattr(q, n) for n in names if hasattr(q, n)), None)
    return {'quote': g('quote_char', 'quoteChar'), 'end': g('end_quote_char', 'endQuoteChar'),
            'esc': g('esc_char', 'escChar'), 'multiline': bool(g('multiline')),
            'convert_ws': bool(g('convert_whitespace_escapes', 'convertWhitespaceEscapes')),
            'unquote': bool(g('unquote_results', 'unquoteResults'))}


def s_string_tokens():
    """The string and identifier tokens are the documented ones (C07: an unterminated string is an error
    because only the triple-quoted form may span lines; C13: escapes)."""
    import pyparsing as pp
    import pydbml.definitions.generic as G
    sl = G.string_literal
    alts = _flat(sl, pp.Or)
    if not isinstance(sl, pp.Or) or len(alts) != 3 or not all(isinstance(a, pp.QuotedString) for a in alts):
        return 'string_literal is not a longest-match choice of three quoted-string forms'
    got = sorted((a['quote'], a['esc'], a['multiline'], a['unquote']) for a in map(_qs_attrs, alts))
    want = sorted([("'", '\\', False, True), ('"', '\\', False, True), ("'''", '\\', True, True)])
    if got != want:
        return f'string_literal forms are {got}, expected {want}'
    nm = _flat(G.name, pp.MatchFirst)
    if len(nm) != 2 or not isinstance(nm[0], pp.Word) or not isinstance(nm[1], pp.QuotedString):
        return 'name is not (word | double-quoted string)'
    a = _qs_attrs(nm[1])
    if (a['quote'], a['multiline'], a['esc'] or None) != ('"', False, None):
        return f'quoted identifiers are {a}'
    w = nm[0]
    chars = set(getattr(w, 'initChars', None) or getattr(w, 'init_chars', ''))
    import string
    if chars != set(string.ascii_letters + string.digits + '_'):
        return 'bare identifiers are not exactly letters, digits and underscore'
    # behaviour of the three forms on the boundary cases (exact evaluation of the live elements)
    for text, ok in (("'a'", True), ('"a"', True), ("'''a\nb'''", True), ("'a\nb'", False), ('"a\nb"', False),
                     ("'a", False), ('"a', False), ("'''a", False), ("'a\\'b'", True)):
        try:
            sl.parse_string(text, parse_all=True)
            r = True
        except pp.ParseBaseException:
            r = False
        if r != ok:
            return f'string_literal {"accepts" if r else "rejects"} {text!r}'


def s_comment_token():
    """The comment token is `//` + everything up to the end of the line, or `/*` + everything up to the first `*/`
    (C07: a comment never reaches into the next line, so it cannot hide a fault there; C14: what is captured as
    the comment text is exactly that span)."""
    import pyparsing as pp
    import pydbml.definitions.common as C
    why = _comment_shape(C.comment)
    if why is None:
        return None
    # another way of writing the token is not a violation by itself: evaluate it on the boundary words
    import itertools
    for n in range(0, 4):
        for w in itertools.product('/*\\\na ', repeat=n):
            for op in ('//', '/*'):
                text = op + ''.join(w)
                if op == '//':
                    want = text.find('\n')
                    want = len(text) if want < 0 else want
                else:
                    k = text.find('*/', 2)
                    want = None if k < 0 else k + 2
                got = None
                try:
                    for _t, st, en in C.comment.scan_string(text, max_matches=1):
                        got = en if st == 0 else None
                except pp.ParseBaseException:
                    got = None
                if got != want:
                    return f'{why}; and on {text!r} it matches up to {got} where the documented span ends at {want}'
    return ('undecided', why + '; its spans agree with the documented ones on every word of length <= 3 (bounded: '
            'see C07.B.comment-token)')


def _comment_shape(comment):
    import pyparsing as pp
    alts = _flat(comment, pp.MatchFirst)
    if not isinstance(comment, pp.MatchFirst) or len(alts) != 2:
        return 'comment is not a choice of exactly two forms (line comment | block comment)'
    line, block = (_flat(a, pp.And) for a in alts)

    def lit(e):
        e = e.expr if isinstance(e, pp.Suppress) else None
        return e.match if type(e) is pp.Literal else None
    if len(line) != 2 or lit(line[0]) != '//' or type(line[1]) is not pp.SkipTo or type(line[1].expr) is not pp.LineEnd:
        return 'line comment is not Suppress("//") + SkipTo(LineEnd())'
    if len(block) != 3 or lit(block[0]) != '/*' or type(block[1]) is not pp.SkipTo or lit(block[2]) != '*/' \
            or lit(block[1].expr) != '*/':
        return 'block comment is not Suppress("/*") + SkipTo("*/") + Suppress("*/")'
    for e in (line[1], block[1]):
        if getattr(e, 'ignoreExpr', None) is not None or getattr(e, 'failOn', None) is not None \
                or getattr(e, 'includeMatch', False):
            return 'the SkipTo of a comment form has an ignore / fail_on / include option'
    for x in [comment] + alts + line + block:
        if x.parseAction:
            return f'a parse action is attached to the comment token ({x})'


class _NoLang(Exception):
    pass


def _pp_language(e, combined=False):
    """z3 regular expression of the texts a (small) pyparsing token expression can match as a whole, for the element
    kinds below; anything else: _NoLang (the obligation is then undecided, never violated)."""
    import pyparsing as pp
    import z3
    sv = z3.StringVal
    if isinstance(e, pp.Combine):
        return _pp_language(e.expr, True)
    if isinstance(e, pp.Word):
        if getattr(e, 'minLen', 1) != 1 or getattr(e, 'maxLen', 0) not in (0, pp.core._MAX_INT) \
                or (e.bodyChars != e.initChars) or getattr(e, 'notChars', None) or getattr(e, 'asKeyword', False):
            raise _NoLang('Word with length bounds / body characters')
        cs = sorted(e.initChars)
        return z3.Plus(z3.Union(*[z3.Re(sv(c)) for c in cs]) if len(cs) > 1 else z3.Re(sv(cs[0])))
    if isinstance(e, pp.CaselessLiteral):          # subclass of Literal: test first
        parts = [z3.Union(z3.Re(sv(c.lower())), z3.Re(sv(c.upper()))) if c.lower() != c.upper() else z3.Re(sv(c))
                 for c in e.match]
        return parts[0] if len(parts) == 1 else z3.Concat(*parts)
    if isinstance(e, pp.Literal):
        return z3.Re(sv(e.match))
    if isinstance(e, pp.Regex):
        from . import regex as RX
        try:
            return RX.to_z3(e.pattern, e.flags)
        except RX.Untranslatable as ex:
            raise _NoLang(f'Regex {e.pattern!r}: {ex}')
    if isinstance(e, (pp.Or, pp.MatchFirst)):
        # as a *language* both are the union (MatchFirst may hide alternatives: an over-approximation, which is the
        # safe direction for "every matched text is converted without error")
        ls = [_pp_language(x, combined) for x in e.exprs]
        return ls[0] if len(ls) == 1 else z3.Union(*ls)
    if isinstance(e, pp.And):
        if not combined:
            raise _NoLang('sequence outside Combine (whitespace may be skipped between the parts)')
        ls = [_pp_language(x, combined) for x in e.exprs if type(x).__name__ != '_ErrorStop']
        return ls[0] if len(ls) == 1 else z3.Concat(*ls)
    if isinstance(e, pp.Opt):
        return z3.Option(_pp_language(e.expr, combined))
    if isinstance(e, pp.ZeroOrMore):
        if getattr(e, 'not_ender', None) is not None:
            raise _NoLang('repetition with stop_on')
        return z3.Star(_pp_language(e.expr, combined))
    if isinstance(e, pp.OneOrMore):
        if getattr(e, 'not_ender', None) is not None:
            raise _NoLang('repetition with stop_on')
        return z3.Plus(_pp_language(e.expr, combined))
    raise _NoLang(type(e).__name__)


def s_number_token():
    """Every text the live `number_literal` token can match is converted by its parse action without error: the
    action computes float(t) when t contains '.', else int(t); so the token language (extracted from the pyparsing
    element graph as a regular expression) must be included in  [+-]?digits  |  [+-]?(digits '.' digits* | '.' digits)
    ([eE][+-]?digits)?  — inclusion decided by z3's regex solver for all texts.  A witness is replayed on the real
    parser as a column default before anything is reported (C08: no ValueError escapes; C01: a number keeps its
    literal kind)."""
    import z3
    import pydbml.definitions.generic as G
    try:
        lang = _pp_language(G.number_literal)
    except _NoLang as ex:
        return ('undecided', f'the number token is built from an element kind outside the translated subset: {ex}')
    sv = z3.StringVal
    digit = z3.Range(sv('0'), sv('9'))
    digits = z3.Plus(digit)
    sign = z3.Option(z3.Union(z3.Re(sv('+')), z3.Re(sv('-'))))
    exp = z3.Option(z3.Concat(z3.Union(z3.Re(sv('e')), z3.Re(sv('E'))), sign, digits))
    safe_int = z3.Concat(sign, digits)
    safe_float = z3.Concat(sign, z3.Union(z3.Concat(digits, z3.Re(sv('.')), z3.Star(digit)),
                                          z3.Concat(z3.Re(sv('.')), digits)), exp)
    s = z3.String('t')
    sol = z3.Solver()
    sol.set('timeout', 20000)
    sol.add(z3.InRe(s, lang), z3.Not(z3.InRe(s, z3.Union(safe_int, safe_float))))
    r = sol.check()
    if r == z3.unsat:
        # not vacuous: the token language is not empty
        chk = z3.Solver()
        chk.add(z3.InRe(s, lang))
        if chk.check() != z3.sat:
            return 'the number token matches nothing'
        return None
    if r != z3.sat:
        return ('undecided', 'solver: ' + sol.reason_unknown())
    w = sol.model()[s].as_string()
    # replay on the real parser
    import pyparsing as pp
    from pydbml import PyDBML
    import pydbml.exceptions as X
    doc = 'Table t {\n  c int [default: %s]\n}\n' % w
    try:
        PyDBML(doc)
    except (pp.ParseBaseException, SyntaxError) as e:
        return ('undecided', f'the token can match {w!r}, which int()/float() would refuse, but the parser refuses the document first')
    except Exception as e:
        if isinstance(e, tuple(v for v in vars(X).values() if isinstance(v, type) and issubclass(v, Exception))):
            return ('undecided', f'the token can match {w!r}; the document is refused with {type(e).__name__}')
        return f'the number token matches {w!r}; parsing {doc!r} escapes with {type(e).__name__}: {e}'
    return ('undecided', f'the token can match {w!r} but the document parses')


def _shape(e, depth=0, seen=None):
    """structural fingerprint of a pyparsing element graph (types, literals, results names, action names)"""
    import pyparsing as pp
    seen = seen if seen is not None else {}
    if id(e) in seen:
        return ('cycle', seen[id(e)])
    seen[id(e)] = len(seen)
    head = [type(e).__name__, e.resultsName, bool(getattr(e, 'modalResults', True)),
            tuple(getattr(a, '__name__', type(a).__name__) for a in e.parseAction)]
    for attr in ('match', 'pattern', 'initCharsOrig', 'init_chars', 'quote_char', 'quoteChar', 'multiline', 'adjacent',
                 'minLen', 'maxLen', 'not_chars', 'notChars'):
        if hasattr(e, attr):
            v = getattr(e, attr)
            head.append((attr, v if isinstance(v, (str, int, bool, type(None))) else str(v)))
    kids = []
    for sub in getattr(e, 'exprs', None) or []:
        kids.append(_shape(sub, depth + 1, seen))
    if getattr(e, 'expr', None) is not None:
        kids.append(_shape(e.expr, depth + 1, seen))
    return (tuple(head), tuple(kids))


def _diff(a, b, path, out, limit=12):
    if len(out) >= limit:
        return
    if a[0] == 'cycle' or b[0] == 'cycle':
        if (a[0] == 'cycle') != (b[0] == 'cycle'):
            out.append((path, 'cycle'))
        return
    if a[0] != b[0]:
        out.append((path, f'{a[0][:2]} vs {b[0][:2]}'))
        return
    if len(a[1]) != len(b[1]):
        out.append((path, f'{a[0][0]}: {len(a[1])} vs {len(b[1])} operands'))
        return
    for i, (x, y) in enumerate(zip(a[1], b[1])):
        _diff(x, y, path + (i,), out, limit)


def s_property_column_grammar():
    """table_column_with_properties is table_column with column_settings_with_properties in place of
    column_settings, and the latter adds exactly one alternative (C15: nothing else changes)."""
    import pyparsing as pp
    import pydbml.definitions.column as CO
    oa, ob = _flat(CO.table_column, pp.And), _flat(CO.table_column_with_properties, pp.And)
    if len(oa) != len(ob):
        return f'the column rules have {len(oa)} and {len(ob)} parts'
    if tuple(getattr(x, '__name__', '') for x in CO.table_column.parseAction) != \
            tuple(getattr(x, '__name__', '') for x in CO.table_column_with_properties.parseAction):
        return 'the two column rules carry different parse actions'
    differing = [k for k, (x, y) in enumerate(zip(oa, ob)) if _shape(x) != _shape(y)]
    if len(differing) != 1:
        return f'the column rules differ in parts {differing} (expected: only the settings part)'
    x, y = oa[differing[0]], ob[differing[0]]
    rn = lambda e: e.resultsName or getattr(getattr(e, 'expr', None), 'resultsName', None)
    if type(x) is not type(y) or rn(x) != rn(y) or rn(y) != 'settings':
        return f'the differing part is {type(x).__name__}({rn(x)}) vs {type(y).__name__}({rn(y)})'

    def names(e, seen):
        if id(e) in seen:
            return set()
        seen.add(id(e))
        out = {e.resultsName} if e.resultsName else set()
        for sub in getattr(e, 'exprs', None) or []:
            out |= names(sub, seen)
        if getattr(e, 'expr', None) is not None:
            out |= names(e.expr, seen)
        return out
    na, nb = names(x, set()), names(y, set())
    if nb != na | {'property'}:
        return f'results names of the settings part: {sorted(na)} without, {sorted(nb)} with properties'
    if not set(_literals(x)) <= set(_literals(y)):
        return 'a literal of the ordinary settings is missing from the settings with properties'
    if CO.column_setting_with_property.exprs[0] is not CO.column_setting:
        return 'column_setting_with_property does not start with the ordinary column_setting'


CHECKS: List[Tuple[str, Tuple[str, ...], Callable[[], Any], str]] = [
    ('S.registry.sql', ('C16', 'C03'), s_registry_sql, 'the SQL renderer registry is exactly {model class: its handler}'),
    ('S.registry.dbml', ('C16', 'C02'), s_registry_dbml, 'the DBML renderer registry is exactly {model class: its handler}'),
    ('S.registry.dispatch', ('C16',), s_registries_separate, 'each default renderer owns its registry; BaseRenderer.render dispatches on the exact type, falling back to the empty string'),
    ('S.setattr', ('C09', 'C10'), s_setattr_passthrough, 'SQLObject.__setattr__ is a pure pass-through (attribute stores are plain stores)'),
    ('S.eq-fields', ('C06', 'C09', 'C10'), s_compare_fields, 'structural equality compares every attribute except the back-pointers (and, for references, inline-ness and comment)'),
    ('S.required', ('C17',), s_required_attributes, 'required_attributes cover the attributes whose absence must be refused'),
    ('S.no-mutable-defaults', ('C11', 'C18', 'C16'), s_no_mutable_defaults, 'no function of pydbml has a mutable default argument'),
    ('S.no-global-state', ('C11',), s_no_global_state, 'no global/nonlocal statement, no packrat cache, no class-level mutable attribute on model/blueprint/parser classes'),
    ('S.funnel', ('C07', 'C08'), s_funnel, 'PyDBMLParser.parse = set syntax; parse the whole source (parseAll); build; return'),
    ('S.no-handlers', ('C06', 'C07'), s_no_handlers, 'no try/except between the entry points and the raise sites'),
    ('S.top-shape', ('C07', 'C11', 'C15'), s_top_level_shape, '_syntax = (six copies of the top-level rules)* (newline|comment)* StringEnd, copies carry the collecting action, the table rule follows the option'),
    ('S.rules-untouched', ('C11',), s_module_rules_untouched, 'module-level grammar rules keep their action lists across parser constructions'),
    ('S.closed-sets', ('C07',), s_closed_sets, 'index types, reference operators, reference actions and colours are exactly the documented sets'),
    ('S.property-grammar', ('C15',), s_property_grammar_diff, 'the two table grammars differ only by the property alternative'),
    ('S.no-memo', ('C10', 'C11', 'C18', 'C16'), s_no_memo, 'no cache decorator, weak or module-level container, or non-property descriptor: every rendering and lookup is recomputed'),
    ('S.dispatch-through-cls', ('C16',), s_dispatch_through_cls, 'renderer methods dispatch through cls; elements render through the owning database\'s renderer class'),
    ('S.string-tokens', ('C07', 'C13'), s_string_tokens, 'string literal = one of three quoted forms (only the triple-quoted one spans lines, backslash escapes); names are words or double-quoted'),
    ('S.comment-token', ('C07', 'C14'), s_comment_token, 'comment = Suppress("//") + SkipTo(LineEnd()) | Suppress("/*") + SkipTo("*/") + Suppress("*/"), no options, no parse action: a comment ends with its line or at the first */'),
    ('S.property-column-grammar', ('C15',), s_property_column_grammar, 'the column grammars with and without properties differ by exactly one added settings alternative'),
    ('S.whitespace', ('C07', 'C01'), s_default_whitespace, 'newline is not default whitespace'),
    ('S.number-token', ('C08', 'C01'), s_number_token, 'every text the number token can match is converted by its action without error (token language, extracted from the live grammar as a regular expression, included in what int()/float() accept; z3 regex solver)'),
]


def run_static(prop: str) -> List[OblResult]:
    out = []
    for oid, props, fn, text in CHECKS:
        if prop not in props:
            continue
        r = OblResult(id=f'{prop}.{oid}', kind='S', verdict=DISCHARGED, backend='static', detail=text,
                      function=fn.__name__)
        try:
            msg = fn()
        except Exception as e:      # the extraction itself failed: a checker problem unless the code changed shape
            import traceback
            msg = 'extraction failed: ' + traceback.format_exc()[-400:]
        if isinstance(msg, tuple) and msg and msg[0] == 'undecided':
            r.verdict = UNDECIDED
            r.detail = msg[1]
            out.append(r)
            continue
        if msg:
            r.verdict = REFUTED
            r.detail = msg
            r.failures.append(Failure(obligation=r.id, key=oid, message=f'{text}: {msg}',
                                      recipe={'static': oid}, native=True))
        out.append(r)
    return out


def replay_static(oid: str):
    for i, props, fn, text in CHECKS:
        if oid.endswith(i):
            msg = fn()
            return (i, msg) if msg else None
    raise SystemExit(f'no static obligation {oid}')
