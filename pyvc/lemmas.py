"""L obligations: lemmas over spec functions only, proved by explicit induction.

The solver does no induction by itself, so each lemma is split into a base case and a step case;
the step case assumes the induction hypothesis for the tail `t` and proves the claim for `c ++ t`
(`c` one character).  The recursive *definitions* (one unfolding per leading character) are the
trusted reading of the library routine named in each lemma; they are instantiated at exactly the
terms the step needs, so every query is quantifier-free and is decided in milliseconds.

What the lemmas are used for: the engine's model of `str.format` on a brace-escaped text
(`builtins.str_format`, fact `undoubled`) is L.format-unescape; the C14 statement "every line of a
rendered comment starts with the comment marker" is L.comment-prefix applied to the `returns`
clause of `pydbml.tools:comment`; L.dbml-literal-roundtrip connects the P contract of
`prepare_text_for_dbml` (the rendered literal is esc(text)) with what the grammar's QuotedString
reads back (C13, C02).
"""
from __future__ import annotations

import time
from typing import Callable, List, Tuple

import z3

from lib.common import OblResult, DISCHARGED, REFUTED, UNDECIDED, Failure

S = z3.StringSort()
B = z3.BoolSort()


def _str(x):
    return z3.StringVal(x)


def _prove(hyps, goal, timeout=10000) -> Tuple[str, str]:
    s = z3.Solver()
    s.set('timeout', 3000)
    for h in hyps:
        s.add(h)
    s.add(z3.Not(goal))
    r = s.check()
    if r == z3.unsat:
        return DISCHARGED, ''
    if r == z3.sat:
        return REFUTED, str(s.model())[:600]
    # second opinion: cvc5 decides many string queries z3 leaves open
    import subprocess
    import tempfile
    text = '(set-logic ALL)\n' + s.sexpr() + '(check-sat)\n'
    with tempfile.NamedTemporaryFile('w', suffix='.smt2', delete=False) as f:
        f.write(text)
    try:
        o = subprocess.run(['/usr/bin/cvc5', '--strings-exp', f'--tlimit={timeout}', f.name], capture_output=True,
                           text=True, timeout=timeout / 1000 + 5).stdout.strip()
    except Exception as e:      # noqa
        o = 'unknown'
    finally:
        import os
        os.unlink(f.name)
    if o == 'unsat':
        return DISCHARGED, 'cvc5'
    return UNDECIDED, s.reason_unknown()


def _vacuity(hyps, timeout=10000) -> bool:
    """the hypotheses must be satisfiable, or the lemma holds for no reason"""
    s = z3.Solver()
    s.set('timeout', timeout)
    for h in hyps:
        s.add(h)
    return s.check() == z3.sat


# ---------------------------------------------------------------- L.format-unescape
def lemma_format_unescape():
    """fmt(esc(t)) == t  where esc = .replace('{','{{').replace('}','}}') and fmt = str.format
    without arguments on a text whose only braces are doubled."""
    esc = z3.Function('esc', S, S)
    fmt = z3.Function('fmt', S, S)
    c, t = z3.String('c'), z3.String('t')
    X = z3.If(c == _str('{'), _str('{{'), z3.If(c == _str('}'), _str('}}'), c))
    u = esc(t)
    defs = [
        z3.Length(c) == 1,
        esc(_str('')) == _str(''), fmt(_str('')) == _str(''),
        # the two replace calls act character-wise (the output of the first contains no '}')
        esc(z3.Concat(c, t)) == z3.Concat(X, u),
        # str.format: '{{' -> '{', '}}' -> '}', any other non-brace character is copied
        fmt(z3.Concat(_str('{{'), u)) == z3.Concat(_str('{'), fmt(u)),
        fmt(z3.Concat(_str('}}'), u)) == z3.Concat(_str('}'), fmt(u)),
        z3.Implies(z3.And(c != _str('{'), c != _str('}')), fmt(z3.Concat(c, u)) == z3.Concat(c, fmt(u))),
    ]
    ih = fmt(esc(t)) == t
    yield 'base', defs, fmt(esc(_str(''))) == _str('')
    yield 'step', defs + [ih], fmt(esc(z3.Concat(c, t))) == z3.Concat(c, t)


# ---------------------------------------------------------------- L.comment-prefix
def lemma_comment_prefix():
    """each rendered comment line `comb + ' ' + line` starts with comb, and stays one line"""
    comb, line = z3.String('comb'), z3.String('line')
    out = z3.Concat(comb, _str(' '), line)
    nl = _str('\n')
    yield 'prefix', [], z3.PrefixOf(comb, out)
    yield 'one-line', [z3.Not(z3.Contains(line, nl)), z3.Not(z3.Contains(comb, nl))], z3.Not(z3.Contains(out, nl))
    yield 'keeps-text', [], z3.SuffixOf(line, out)


# ---------------------------------------------------------------- L.dbml-literal-roundtrip
def extracted_sub_pairs(fn):
    """(pattern, template, [(literal, replacement)...]) read from the *source* of a function of the shape
    `pattern = re.compile(<constant>); return pattern.sub(<constant>, <its parameter>)` (docstring allowed), through
    the same source extraction the P obligations use.  Any other shape: Untranslatable."""
    import ast
    from .engine import func_ast
    from . import regex as RX
    node = func_ast(fn)
    body = [b for b in node.body if not (isinstance(b, ast.Expr) and isinstance(b.value, ast.Constant))]
    params = [a.arg for a in node.args.args]
    try:
        asg, ret = body
        assert isinstance(asg, ast.Assign) and len(asg.targets) == 1 and isinstance(asg.targets[0], ast.Name)
        call = asg.value
        assert isinstance(call, ast.Call) and ast.unparse(call.func) == 're.compile' and len(call.args) == 1 \
            and not call.keywords and isinstance(call.args[0], ast.Constant) and isinstance(call.args[0].value, str)
        assert isinstance(ret, ast.Return) and isinstance(ret.value, ast.Call)
        sub = ret.value
        assert ast.unparse(sub.func) == asg.targets[0].id + '.sub' and len(sub.args) == 2 and not sub.keywords
        assert isinstance(sub.args[0], ast.Constant) and isinstance(sub.args[0].value, str)
        assert isinstance(sub.args[1], ast.Name) and sub.args[1].id == params[0] and len(params) == 1
    except (AssertionError, ValueError):
        raise RX.Untranslatable('the function is not `pattern = re.compile(CONST); return pattern.sub(CONST, param)`')
    pat, tpl = call.args[0].value, sub.args[0].value
    return pat, tpl, RX.alt_literal_sub(pat, tpl)


def _dbml_pairs():
    from pydbml.renderer.dbml.default.utils import prepare_text_for_dbml as real
    return extracted_sub_pairs(real)


Q3 = "'" * 3


def lemma_dbml_literal():
    """For a text with no run of three quotes: reading the literal '<esc(text)>' with pyparsing's
    QuotedString (escape character backslash, whitespace escapes not converted) gives text back,
    and the literal does not end early (no unescaped quote inside).

    `esc` is NOT a hand-written reading: its one-step unfolding is generated from the pattern and the template
    found in the source of prepare_text_for_dbml on this run (extracted_sub_pairs / pyvc.regex.alt_literal_sub:
    ordered alternation of literals, the first alternative that is a prefix of the rest is replaced, otherwise the
    character is copied).  `unesc`/`bare` are the reading of pyparsing's QuotedString(esc_char=backslash)."""
    pat, tpl, pairs = _dbml_pairs()
    esc = z3.Function('esc', S, S)
    unesc = z3.Function('unesc', S, S)
    bare = z3.Function('bare', S, B)            # the string contains an unescaped quote
    c, t = z3.String('c'), z3.String('t')
    bs, q, q3 = _str('\\'), _str("'"), _str(Q3)
    special = z3.Or(c == bs, c == q)
    w = z3.Concat(c, t)
    u = esc(t)
    # generated unfolding of esc at c ++ t: first alternative (in pattern order) that is a prefix of c ++ t
    unfold = z3.Concat(c, u)
    side = []
    for k, (lit, rep) in reversed(list(enumerate(pairs))):
        if len(lit) == 1:
            unfold = z3.If(c == _str(lit), z3.Concat(_str(rep), u), unfold)
        else:
            rest = z3.String(f'rest{k}')
            side.append(z3.Implies(z3.PrefixOf(_str(lit), w), w == z3.Concat(_str(lit), rest)))
            unfold = z3.If(z3.PrefixOf(_str(lit), w), z3.Concat(_str(rep), esc(rest)), unfold)
    no3 = z3.Not(z3.Contains(w, q3))
    defs = side + [
        z3.Length(c) == 1, no3,
        esc(_str('')) == _str(''), unesc(_str('')) == _str(''), z3.Not(bare(_str(''))),
        esc(w) == unfold,
        # QuotedString(esc_char=backslash): backslash + d reads as d; anything else is copied
        unesc(z3.Concat(bs, c, u)) == z3.Concat(c, unesc(u)),
        z3.Implies(z3.Not(special), unesc(z3.Concat(c, u)) == z3.Concat(c, unesc(u))),
        bare(z3.Concat(bs, c, u)) == bare(u),
        z3.Implies(z3.Not(special), bare(z3.Concat(c, u)) == bare(u)),
        bare(z3.Concat(q, u)),                      # an unescaped quote at the front ends the literal early
    ]
    ih_ok = z3.Not(z3.Contains(t, q3))              # the tail has no run of three quotes either: hypothesis applies
    yield 'base', defs, z3.And(unesc(esc(_str(''))) == _str(''), z3.Not(bare(esc(_str('')))))
    yield 'tail-has-no-triple', [z3.Length(c) == 1, no3], ih_ok
    yield 'step-roundtrip', defs + [z3.Implies(ih_ok, unesc(esc(t)) == t)], unesc(esc(w)) == w
    yield 'step-no-early-end', defs + [z3.Implies(ih_ok, z3.Not(bare(esc(t))))], z3.Not(bare(esc(w)))


# ---------------------------------------------------------------- L.sql-literal
def lemma_sql_literal():
    """esc(t) = (t without backslash-newline pairs).replace("'", '"') contains no single quote, so the
    SQL literal '<esc(t)>' ends where the renderer ends it (C13/C03 literal neutralisation)."""
    esc = z3.Function('esc', S, S)
    c, t = z3.String('c'), z3.String('t')
    q, dq, bs, nl = _str("'"), _str('"'), _str('\\'), _str('\n')
    u = esc(t)
    cont = z3.And(c == bs, z3.PrefixOf(nl, t))          # line continuation: both characters vanish
    defs = [
        z3.Length(c) == 1,
        esc(_str('')) == _str(''),
        z3.Implies(z3.Not(cont), esc(z3.Concat(c, t)) == z3.Concat(z3.If(c == q, dq, c), u)),
        z3.Implies(cont, esc(z3.Concat(c, t)) == esc(z3.SubString(t, 1, z3.Length(t) - 1))),
    ]
    yield 'base', [esc(_str('')) == _str('')], z3.Not(z3.Contains(esc(_str('')), q))
    # strong induction: the hypothesis is available for every shorter text (t and its tail t2)
    x = z3.If(c == q, dq, c)
    yield 'step-char', [z3.Length(c) == 1, esc(z3.Concat(c, t)) == z3.Concat(x, u),
                        z3.Not(z3.Contains(u, q))], z3.Not(z3.Contains(esc(z3.Concat(c, t)), q))
    t2 = z3.String('t2')
    yield 'step-continuation', [z3.Length(c) == 1, cont, t == z3.Concat(nl, t2), esc(z3.Concat(c, t)) == esc(t2),
                                z3.Not(z3.Contains(esc(t2), q))], z3.Not(z3.Contains(esc(z3.Concat(c, t)), q))


LEMMAS: List[Tuple[str, Tuple[str, ...], Callable, str]] = [
    ('L.format-unescape', ('C13', 'C08', 'C14'), lemma_format_unescape,
     'str.format undoes the brace doubling of prepare_text_for_sql (induction on the text)'),
    ('L.comment-prefix', ('C14',), lemma_comment_prefix,
     'every line produced by tools.comment starts with the marker, is one line, and ends with the original line'),
    ('L.dbml-literal-roundtrip', ('C13', 'C02'), lemma_dbml_literal,
     'for texts without a run of three quotes, the single-quoted literal of prepare_text_for_dbml reads back as the text and does not end early'),
    ('L.sql-literal', ('C13', 'C03'), lemma_sql_literal,
     'the text placed inside an SQL note literal contains no single quote'),
]


# ---------------------------------------------------------------- definitions vs. the real routines
def _words(alphabet: str, n: int):
    import itertools
    for k in range(n + 1):
        for w in itertools.product(alphabet, repeat=k):
            yield ''.join(w)


def defs_format_unescape(w):
    from pydbml.renderer.sql.default.reference import escape_braces as real
    if w:
        c, t = w[0], w[1:]
        x = {'{': '{{', '}': '}}'}.get(c, c)
        if real(c + t) != x + real(t):
            return f'escape_braces({c + t!r}) = {real(c + t)!r} is not {x!r} + escape_braces({t!r})'
    if real(w).format() != w:
        return f'str.format does not undo the brace doubling on {w!r}'


def defs_dbml_literal(w):
    import re
    from pydbml.renderer.dbml.default.utils import prepare_text_for_dbml as real
    from pydbml.definitions.generic import string_literal
    from . import regex as RX
    # (1) the reading of re.sub on an ordered alternation of literals (pyvc/regex.py) against CPython, on every
    #     word (runs of three quotes included), and the extracted pattern against the function itself
    try:
        pat, tpl, pairs = _dbml_pairs()
    except RX.Untranslatable:
        pairs = None            # the function no longer has the extractable shape: the lemma is undecided, not wrong
    if pairs is not None:
        want = RX.sub_reference(pairs, w)
        if want != re.compile(pat).sub(tpl, w):
            return f're.compile({pat!r}).sub({tpl!r}, {w!r}) = {re.compile(pat).sub(tpl, w)!r}; the reading gives {want!r}'
        if want != real(w):
            return f'prepare_text_for_dbml({w!r}) = {real(w)!r} is not what its extracted pattern gives: {want!r}'
    if Q3 in w or '\n' in w:
        return None
    # (2) the reading of QuotedString: the single-quoted literal reads back as the text
    back = string_literal.parse_string("'" + real(w) + "'", parse_all=True)[0]
    if back != w:
        return f'the literal of {w!r} reads back as {back!r}'


def defs_sql_literal(w):
    from pydbml.classes import Note
    from pydbml.renderer.sql.default.note import prepare_text_for_sql as real
    got = real(Note(w))
    if "'" in got:
        return f'prepare_text_for_sql leaves a quote in {got!r} (text {w!r})'
    if w:
        c, t = w[0], w[1:]
        if not (c == '\\' and t[:1] == '\n') and not (c == '\n' and False):
            x = '"' if c == "'" else c
            if got != x + real(Note(t)):
                return f'prepare_text_for_sql({w!r}) = {got!r} is not {x!r} + prepare_text_for_sql({t!r})'


DEFS = {
    'L.format-unescape': (defs_format_unescape, "a'{}\\"),
    'L.dbml-literal-roundtrip': (defs_dbml_literal, "a'\\\n \""),
    'L.sql-literal': (defs_sql_literal, "a'\\\n"),
}
DEF_BOUND = 5


def run_lemmas(prop: str) -> List[OblResult]:
    out = []
    for lid, props, gen, text in LEMMAS:
        if prop in props and lid in DEFS:
            fn, alphabet = DEFS[lid]
            t0 = time.time()
            r = OblResult(id=f'{prop}.B.lemma-defs.{lid}', kind='B', verdict=DISCHARGED, backend='bounded',
                          function=fn.__name__, exhaustive=True,
                          rule='the one-character unfolding used as the definition in the lemma agrees with the real '
                               'routine; non-trivial = non-empty word',
                          bound=f'every word of length <= {DEF_BOUND} over {alphabet!r}')
            n = 0
            for w in _words(alphabet, DEF_BOUND):
                n += 1
                try:
                    msg = fn(w)
                except Exception as e:
                    msg = f'{type(e).__name__}: {e}'[:300]
                if msg:
                    r.verdict = REFUTED
                    r.detail = msg
                    r.failures.append(Failure(obligation=r.id, key='definition', message=msg, recipe={'word': w},
                                              native=True))
                    break
            r.evaluations = n
            r.distinct_nontrivial = n - 1
            r.samples = [{'word': "a'"}]
            r.seconds = round(time.time() - t0, 3)
            out.append(r)
    for lid, props, gen, text in LEMMAS:
        if prop not in props:
            continue
        try:
            cases = list(gen())
        except Exception as e:      # the definitions could not be extracted from the source: undecided, never a violation
            out.append(OblResult(id=f'{prop}.{lid}.definition', kind='L', verdict=UNDECIDED, backend='z3-5.1.0',
                                 function=gen.__name__,
                                 detail=f'the definitions of the lemma cannot be extracted from the current source: '
                                        f'{type(e).__name__}: {e}'[:300]))
            continue
        for case, hyps, goal in cases:
            t0 = time.time()
            r = OblResult(id=f'{prop}.{lid}.{case}', kind='L', verdict=DISCHARGED, backend='z3-5.1.0',
                          detail=text, function=gen.__name__)
            if not _vacuity(hyps):
                r.verdict, r.detail = UNDECIDED, 'hypotheses of the lemma are not satisfiable (vacuous)'
            else:
                v, why = _prove(hyps, goal)
                r.verdict = v
                if why == 'cvc5':
                    r.backend = 'cvc5-1.0.3'
                if v == REFUTED:
                    r.detail = f'{text}: counter-model {why}'
                    r.failures.append(Failure(obligation=r.id, key=case, message=r.detail, recipe={'lemma': lid},
                                              native=False, solver_output=why))
                elif v == UNDECIDED:
                    r.detail = 'solver: ' + why
            r.seconds = round(time.time() - t0, 4)
            out.append(r)
    return out


if __name__ == '__main__':
    for p in ('C13', 'C14', 'C02', 'C03', 'C08'):
        for r in run_lemmas(p):
            print(r.id, r.verdict, r.seconds, r.detail[:100] if r.verdict != DISCHARGED else '')
