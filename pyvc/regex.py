"""Mechanical translation of the regular expressions that occur in /repo to SMT.

Two shapes are given meaning; anything else raises `Untranslatable` (the caller is then undecided):

1. `re.fullmatch(<constant pattern>, s[, flags])` used for its truth value: the pattern is parsed by
   CPython's own regex parser (`re._parser.parse` — the same tree `re.compile` builds its matcher
   from) and translated node by node to a z3 regular expression; the call is `InRe(s, R)`.
   Supported nodes: literals, character classes (ranges, literals, negation, \\d \\w \\s categories over
   ASCII), `.` (any character but newline; any character with re.DOTALL), greedy and lazy repeats
   (`* + ? {m,n}` — laziness does not change *whether* a full match exists), groups (capturing or not),
   alternation.  Not supported: anchors, look-around, back-references, flags other than DOTALL
   (in particular IGNORECASE), Unicode categories (\\w is ASCII here: patterns using \\w \\d \\s on str are
   refused unless re.ASCII is given).

2. `re.compile(<alternation of non-empty literals>).sub(<template>, text)` where the template consists
   of literal characters and `\\1` and the whole pattern is one group: CPython scans left to right and at
   each position takes the *first* alternative that is a prefix of the rest (alternation is ordered),
   appends the expanded template and continues after the match; where no alternative matches, the
   character is copied.  `alt_literal_sub(pattern, template)` returns that reading as data
   `[(literal, replacement), ...]` in priority order, from which pyvc.lemmas generates the one-step
   unfolding of the function.  (Trusted: this description of re.sub on such patterns; it is compared
   with CPython on every run by the bounded `lemma-defs` obligations.)

The spec side (`pyvc.speclib.matches`) builds its regular expressions from combinators written in the
contract, independently of the pattern text, so `code pattern == spec language` is a real obligation
(decided by z3's regex solver)."""
from __future__ import annotations

import re
from typing import List, Tuple

import z3

try:                                    # Python 3.11+: re._parser / re._constants
    from re import _parser as sre_parse
    from re import _constants as sre_c
except ImportError:                     # pragma: no cover
    import sre_parse                    # type: ignore
    import sre_constants as sre_c       # type: ignore


class Untranslatable(Exception):
    pass


S = z3.StringSort()
RE = z3.ReSort(S)

_ASCII_CATS = {
    'CATEGORY_DIGIT': [('0', '9')],
    'CATEGORY_WORD': [('0', '9'), ('a', 'z'), ('A', 'Z'), ('_', '_')],
    'CATEGORY_SPACE': [(' ', ' '), ('\t', '\r')],
}


def _chr(c: int):
    return z3.Re(z3.StringVal(chr(c)))


def _ranges(rs):
    parts = [z3.Range(z3.StringVal(a), z3.StringVal(b)) if a != b else z3.Re(z3.StringVal(a)) for a, b in rs]
    return parts[0] if len(parts) == 1 else z3.Union(*parts)


def _anychar():
    return z3.AllChar(RE)


def _tr(items, flags: int):
    parts = []
    for op, av in items:
        name = str(op)
        if name == 'LITERAL':
            parts.append(_chr(av))
        elif name == 'NOT_LITERAL':
            parts.append(z3.Diff(_anychar(), _chr(av)))
        elif name == 'ANY':
            parts.append(_anychar() if flags & re.DOTALL else z3.Diff(_anychar(), z3.Re(z3.StringVal('\n'))))
        elif name == 'IN':
            neg = False
            alts = []
            for o2, a2 in av:
                n2 = str(o2)
                if n2 == 'NEGATE':
                    neg = True
                elif n2 == 'LITERAL':
                    alts.append(_chr(a2))
                elif n2 == 'RANGE':
                    alts.append(z3.Range(z3.StringVal(chr(a2[0])), z3.StringVal(chr(a2[1]))))
                elif n2 == 'CATEGORY':
                    cat = str(a2)
                    if not flags & re.ASCII:
                        raise Untranslatable(f'Unicode category {cat} (no re.ASCII)')
                    base = cat.replace('_NOT', '')
                    if base not in _ASCII_CATS:
                        raise Untranslatable(cat)
                    r = _ranges(_ASCII_CATS[base])
                    alts.append(z3.Diff(_anychar(), r) if '_NOT_' in cat else r)
                else:
                    raise Untranslatable(f'class item {n2}')
            r = alts[0] if len(alts) == 1 else z3.Union(*alts)
            parts.append(z3.Diff(_anychar(), r) if neg else r)
        elif name in ('MAX_REPEAT', 'MIN_REPEAT', 'POSSESSIVE_REPEAT'):
            if name == 'POSSESSIVE_REPEAT':
                raise Untranslatable('possessive repeat')
            lo, hi, sub = av
            r = _tr(sub, flags)
            if hi == sre_c.MAXREPEAT:
                if lo == 0:
                    parts.append(z3.Star(r))
                elif lo == 1:
                    parts.append(z3.Plus(r))
                else:
                    parts.append(z3.Concat(z3.Loop(r, lo, lo), z3.Star(r)))
            elif lo == 0 and hi == 1:
                parts.append(z3.Option(r))
            else:
                parts.append(z3.Loop(r, lo, hi))
        elif name == 'SUBPATTERN':
            group, add_flags, del_flags, sub = av
            if add_flags or del_flags:
                raise Untranslatable('inline flags')
            parts.append(_tr(sub, flags))
        elif name == 'BRANCH':
            _, branches = av
            bs = [_tr(b, flags) for b in branches]
            parts.append(bs[0] if len(bs) == 1 else z3.Union(*bs))
        else:
            raise Untranslatable(f'regex node {name}')
    if not parts:
        return z3.Re(z3.StringVal(''))
    return parts[0] if len(parts) == 1 else z3.Concat(*parts)


def to_z3(pattern: str, flags: int = 0):
    """z3 regular expression with the language {s | re.fullmatch(pattern, s, flags)}"""
    if flags & ~(re.DOTALL | re.ASCII):
        raise Untranslatable(f'flags {flags!r}')
    try:
        tree = sre_parse.parse(pattern, flags)
    except re.error as e:
        raise Untranslatable(f'pattern does not compile: {e}')
    if tree.state.flags & (re.IGNORECASE | re.MULTILINE | re.VERBOSE | re.LOCALE):
        raise Untranslatable('inline flags')
    return _tr(list(tree), flags | (tree.state.flags & (re.DOTALL | re.ASCII)))


def fullmatch(pattern: str, s, flags: int = 0):
    return z3.InRe(s, to_z3(pattern, flags))


# ------------------------------------------------------------------------------------------ shape 2
def alt_literal_sub(pattern: str, template: str) -> List[Tuple[str, str]]:
    """[(literal, replacement)] in priority order for `re.compile(pattern).sub(template, ·)`, or Untranslatable"""
    tree = list(sre_parse.parse(pattern))
    whole_is_group1 = len(tree) == 1 and str(tree[0][0]) == 'SUBPATTERN' and tree[0][1][0] == 1

    def expand(items) -> List[str]:
        """the literal words of a concatenation of literals / literal classes / alternations, in the matcher's
        priority order (lexicographic over the choices, left to right).  CPython's parser hoists a common prefix
        out of an alternation and turns a|b into [ab]; both are re-expanded here."""
        words = ['']
        for op, av in items:
            name = str(op)
            if name == 'LITERAL':
                alts = [chr(av)]
            elif name == 'IN' and all(str(o) == 'LITERAL' for o, _ in av):
                alts = [chr(a) for _, a in av]
            elif name == 'BRANCH':
                alts = [w for br in av[1] for w in expand(list(br))]
            elif name == 'SUBPATTERN':
                if av[1] or av[2]:
                    raise Untranslatable('inline flags')
                alts = expand(list(av[3]))
            else:
                raise Untranslatable(f'alternative is not a literal: {name}')
            words = [w + a for w in words for a in alts]
        return words

    lits = expand(tree)
    if any(l == '' for l in lits) or len(set(lits)) != len(lits):
        raise Untranslatable('empty or repeated alternative')
    # sre_parse factors a common prefix out of an alternation ('''|' -> '(?:''|)); refuse what we did not re-expand
    chk = re.compile(pattern)
    for l in lits:
        if not chk.fullmatch(l):
            raise Untranslatable('literal extraction disagrees with re')
    # template: literal characters and \1 (= the whole match, since the whole pattern is group 1)
    tpl = sre_parse.parse_template(template, re.compile(pattern))
    out = []
    for l in lits:
        m = chk.fullmatch(l)
        out.append((l, m.expand(template)))
    if not whole_is_group1 and '\\1' in template.replace('\\\\', ''):
        raise Untranslatable('template refers to a group that is not the whole match')
    return out


def sub_reference(pairs: List[Tuple[str, str]], text: str) -> str:
    """the reading of re.sub documented above, executable (used by the bounded cross-check)"""
    out = []
    i = 0
    while i < len(text):
        for l, r in pairs:
            if text.startswith(l, i):
                out.append(r)
                i += len(l)
                break
        else:
            out.append(text[i])
            i += 1
    return ''.join(out)
