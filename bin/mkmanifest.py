#!/usr/bin/env python3
"""Regenerate MANIFEST.json from the table below (single source of truth for the interface)."""
import json, os, sys
HERE = os.path.dirname(os.path.dirname(os.path.abspath(__file__)))

P_NOTE = ('Level is `other` because at least one clause of every property is only reached by a bounded stand-in (B) or a static '
          'evaluation (S); the P/L obligations are discharged by z3 (cvc5 for one lemma step) for all inputs. Trusted base: PyVC '
          '(self-built VC generator over the real ASTs, /verif/pyvc; semantics assumed are listed in DESIGN.md 2.4), z3 5.1.0, the '
          'typed-heap invariant of contracts/types.py, the builtin models of pyvc/builtins.py, exact model classes, effect-free '
          'error-message formatting, assumed (tier none) contracts of the regex helpers. Bounded stand-ins run the real code over the '
          'stated finite domains and are never counted as proved. A refuted P obligation is a VIOLATION only with a natively replayed '
          'input or when it was discharged on the committed tree (ledger); undecided is never a violation.')

CHECKS = {
 'C01': ('other', 'P: all 16 parse actions (blueprint = exactly the tokens, optional parts None, trailing comment wins), the collecting action parse_blueprint (4 loop invariants), every blueprint builder '
         '(ColumnBlueprint.build: enum linking by last-dot split; ReferenceBlueprint.build: endpoints are the listed tables\' own Column objects; TableGroup/Enum/Index/Note/Project builders; '
         'get_reference_blueprints with nested invariants), constructors incl. the loops of Table.__init__/Enum.__init__, adders and Table.__getitem__ are discharged by z3 for all inputs; '
         'TableBlueprint.build (3 loop invariants) and the second phase build_database (5 loop invariants) are verified in the thorough tier (minutes); S: newline is significant; '
         'B (bounded, never counted as proved): view(parse(surface(m, spelling))) == m over exhaustive per-element feature products and seeded documents, spelling invariance, alias shadowing. '
         'The pyparsing matcher is outside the verifier\'s reach (DESIGN.md 2.7, 4)', '3/C01',
         'contracts on parse actions, builders and constructors (PyVC + z3) + bounded run-time contract on the real parser'),
 'C02': ('other', 'P: 28 DBML element renderers (every one: expression, note, sticky note, enum, column, index, reference in both forms, table header/indexes/table, table group, project) equal canonical-text spec functions; Table.get_refs/Column.get_refs verified; quote_name_if_needed/quote_type_if_needed verified (regular expression translated to SMT from CPython\'s parse tree and proved equal to the bare-spelling language written in the contract); locate_table; L (unfolding generated from the pattern extracted from the source): the single-quoted literal of prepare_text_for_dbml reads back unchanged (induction; definitions checked against the real routines, bounded); '
         'B (bounded): parse(db.dbml) has the same view and rendering is a fixpoint over API-built models of the DBML-expressible domain and the repository documents', '3/C02',
         'renderer contracts (PyVC + z3), induction lemma (z3/cvc5), bounded round-trip oracle on the real renderer+parser'),
 'C03': ('other', 'P: every SQL element renderer (column, index, enum, enum item, expression, note, table body/components/table) equals the DDL spec function of the model, schema-qualified names included; '
         'L: no single quote survives in an SQL note literal; B (bounded): read_ddl(db.sql) == ddl(view(db)) with an independent SQL reader', '3/C03',
         'renderer contracts (PyVC + z3) + bounded run-time contract with independent DDL reader'),
 'C04': ('other', 'P: reference SQL (inline clause and ALTER TABLE templates, direction by type, constraint name, actions, brace-safe formatting), key-holder selection get_references_for_sql, inline xor ALTER; '
         'B (bounded): every reference exactly once, direction, join tables, read back from db.sql. Many-to-many SQL and join_table are not under contract', '3/C04',
         'renderer contracts (PyVC + z3) + bounded run-time contract with independent DDL reader'),
 'C05': ('other', 'P: adders store identity back-pointers, Database.table_dict is computed and maps current names to the listed objects themselves, locate_table resolves schema.name before aliases, '
         'ReferenceBlueprint.build/ColumnBlueprint.build link to the listed objects (identity), note setters point back; B (bounded): identity predicates on parsed databases with varied addressing', '3/C05',
         'identity-link contracts (PyVC + z3) + bounded identity checks on parsed databases'),
 'C06': ('other', 'P: exceptional postconditions (raises iff rule broken, pre-existing heap unchanged) of Database.add_table/add_enum/add_table_group/add_reference/add, Table.__getitem__, locate_table; '
         'S: equality compares every field except back-pointers/inline/comment, no try between entry points and raise sites; B (bounded): every rule x both declaration orders x position x spelling raises the rule\'s error', '3/C06',
         'exceptional postconditions (PyVC + z3), static evaluation, bounded rule matrix'),
 'C07': ('other', 'S (exact evaluation of the live grammar graph and ASTs): parse = set syntax; parse_string(source, parseAll=True); build; _syntax = (six copied rules)* (newline|comment)* StringEnd; closed literal sets; '
         'the three string forms (only the triple-quoted one spans lines); no handlers. B (bounded, exhaustive over fault kinds x sites of the base documents): every injected fault raises a pyparsing exception, open strings, no leak. '
         'The accepted language of the pyparsing grammar is outside a contract verifier\'s reach (DESIGN.md 2.7)', '3/C07', 'static-exact obligations on the grammar + bounded fault-injection contract on the real parser'),
 'C08': ('other', 'P: the exception-freedom obligations of every function under contract (no path ends in an undeclared exception; every partial operation guarded; callee preconditions hold), about 120 functions; '
         'L: str.format undoes brace doubling; B (bounded): outcome of parse/.dbml/.sql is in the allowed exception set over exhaustive token soups, site fills and seeded mutations. pyparsing\'s own termination is not proved', '3/C08',
         'exception-freedom VCs (PyVC + z3) + bounded run-time contract on the real entry points'),
 'C09': ('other', 'P: the representation invariant is proved preserved by every Database method and by Table.add_column/delete_column/add_index/delete_index, with exact list effects, '
         'exceptional postconditions and frames (rejected operations leave the heap unchanged), unbounded in container size; lookup under current names is the proved postcondition of the computed index. '
         'B (bounded): the same invariants as run-time contracts around exhaustive short and seeded long histories (also covers renames and double-add)', '3/C09',
         'class-invariant + frame contracts (PyVC + z3), bounded history twin'),
 'C10': ('other', 'P: the element renderers are pure functions of the current heap (empty frame, result = spec function of current attribute values); S: no cache decorator, weak/module-level container or non-property descriptor anywhere in pydbml; '
         'B (bounded): after seeded edit sequences (also with renderings evaluated before the edit) renderings equal those of a database rebuilt from the final view', '3/C10',
         'purity/functional contracts (PyVC + z3), static no-memo obligation, bounded metamorphic run-time contract'),
 'C11': ('other', 'P: constructors and parse actions allocate every container they store (fresh()) and write nothing else (frames); S: no mutable default arguments, no global/nonlocal/class-level mutable state, '
         'module-level grammar rules keep their action lists, parser copies carry the collecting action; B (bounded): history independence, no shared mutable objects between parses, thread runs (schedules not enumerated), reclamation by weakref', '3/C11',
         'freshness/frame contracts (PyVC + z3), static obligations, bounded history/thread/weakref runs'),
 'C12': ('other', 'P: PyDBML.__new__ (str, Path, stream), PyDBML.parse, PyDBML.parse_file, PyDBMLParser.__init__ and remove_bom: every route equals one funnel applied to the text with one leading BOM removed, options forwarded, other source types refused with TypeError; '
         'B (bounded, exhaustive over routes x BOM x options): all seven entry points agree', '3/C12', 'entry-point contracts (PyVC + z3) + bounded run-time contract over all routes'),
 'C13': ('other', 'P: escaping helpers (quote_string, note_option_to_dbml, doublequote_string, prepare_text_for_sql, render_note) and note normalisation composition; L: three induction lemmas (DBML literal round trip, SQL literal neutralisation, format/brace), '
         'definitions checked exhaustively on short words (bounded); S: string token forms; B (bounded): normalisation contract exhaustively over short strings, 12 text sites x styles round trip. The regex helpers are assumed contracts (bounded only)', '3/C13',
         'contracts + induction lemmas (z3, cvc5) + bounded run-time contracts'),
 'C14': ('other', 'P: tools.comment / comment_to_sql / comment_to_dbml prefix every line; every parse action gives the trailing comment priority over the leading ones; L: prefix lemma; '
         'B (bounded): capture per element kind and placement, inertness under comment insertion at every allowed position, rendering as comment lines', '3/C14', 'comment contracts (PyVC + z3), lemma, bounded capture/inertness checks'),
 'C15': ('other', 'P: Database.__init__ and the parser store the flag, column/table render gates show properties iff the owning database allows them, constructors keep the caller\'s dict; '
         'S: the table rule follows the option and the two table/column grammars differ by exactly the property alternative; B (bounded): accept/reject/same/flip contracts over generated documents incl. legacy constraint spellings', '3/C15',
         'contracts + static grammar diff + bounded accept/reject/flip checks'),
 'C16': ('other', 'P: element renderers and the registry dispatch (exact-type lookup, empty-string fallback), Database.__init__ stores the renderer classes; S: registries are exactly {class: handler}, separate per renderer, methods dispatch through cls, no memoisation; '
         'B (bounded): custom and subclassed renderer classes are used for database and elements, default pieces appear exactly once, purity under shuffled repeated evaluation. SQL render_db is under contract in the thorough tier only (2 obligations undecided)', '3/C16',
         'dispatch contracts (PyVC + z3), static registry obligations, bounded run-time contract with instrumented renderer classes'),
 'C17': ('other', 'P: exceptional postconditions of check_attributes_for_sql, Reference._validate/table1/table2, validate_for_sql, validate_for_dbml, DBML render_reference (TableNotFoundError / DBMLError iff ...), Table.get_refs (UnknownDatabaseError), Column.get_refs (TableNotFoundError); S: required_attributes cover the statement\'s attributes; '
         'B (bounded, exhaustive over element kinds x missing attribute x construction route): the stated exception is raised', '3/C17', 'exceptional postconditions (PyVC + z3) + bounded exhaustive refusal matrix'),
 'C18': ('other', 'P: reorder_tables_for_sql returns a fresh permutation of its argument (sorted() trusted as a permutation; order unmodelled) and writes nothing; S: no memoisation; '
         'B (bounded, exhaustive over all DAGs up to 4 tables and most 5-table DAGs): permutation, determinism also after edits, and target-before-holder order read back from db.sql; '
         'the ordering clause FAILS on the unchanged tree and is a listed known finding (test_reorder_tables pins the heuristic)', '3/C18', 'permutation contract (PyVC + z3), bounded exhaustive DAG enumeration with independent DDL reader'),
}
NOT_APPLICABLE = {
}

def main():
    props = [json.loads(l)['id'] for l in open(os.path.join(HERE, 'properties.jsonl'))]
    checks = []
    for p in props:
        if p not in CHECKS:
            continue
        cat, text, ref, tech = CHECKS[p]
        checks.append({
            'property_id': p,
            'quick_cmd': f'bin/vcheck {p} --tier quick',
            'thorough_cmd': f'bin/vcheck {p} --tier thorough',
            'evidence_file': f'evidence/{p}.json',
            'replay_cmd_template': f'bin/vcheck {p} --replay {{path}}',
            'engine': 'pyvc+bounded',
            'level_claimed': {'category': cat, 'text': text, 'design_ref': 'DESIGN.md section ' + ref},
            'level_note': P_NOTE,
            'technique': tech,
        })
    na = [{'property_id': p, 'reason': r} for p, r in NOT_APPLICABLE.items() if p not in CHECKS]
    for p in props:
        if p not in CHECKS and p not in NOT_APPLICABLE:
            na.append({'property_id': p, 'reason': 'check under construction'})
    m = {
        'version': 1,
        'setup_cmd': 'bin/setup.sh',
        'hooks': {
            'guard': 'PYDBML_VERIF',
            'enable': 'no hooks are needed: contracts are sidecar files under /verif/contracts and /repo is read, not instrumented',
            'baseline_off_cmd': 'cd /repo && /venv/bin/python -m pytest -q -p no:cacheprovider',
            'source_commits': [],
            'add_only': True,
        },
        'engines': [
            {'name': 'pyvc', 'path': 'pyvc/', 'serves_properties': sorted(CHECKS),
             'kind_free_text': 'self-built verification-condition generator: symbolic execution of the real function ASTs against sidecar contracts, discharged by z3'},
            {'name': 'bounded', 'path': 'lib/bounded.py', 'serves_properties': sorted(CHECKS),
             'kind_free_text': 'bounded stand-in: run-time contracts on the real code over enumerated finite domains (never counted as proved)'},
        ],
        'checks': checks,
        'notes': 'Contract-based deductive verification (PyVC + z3) with bounded stand-ins where the verifier cannot reach; see DESIGN.md. '
                 'Genuine defects repaired in /repo are listed as fixed: lines in known_findings.txt.',
        'not_applicable': na,
    }
    json.dump(m, open(os.path.join(HERE, 'MANIFEST.json'), 'w'), indent=1)
    print('MANIFEST.json written:', len(checks), 'checks,', len(na), 'not applicable')

if __name__ == '__main__':
    main()
