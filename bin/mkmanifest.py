#!/usr/bin/env python3
"""Regenerate MANIFEST.json from the table below (single source of truth for the interface)."""
import json, os, sys
HERE = os.path.dirname(os.path.dirname(os.path.abspath(__file__)))

P_NOTE = ('Trusted base: PyVC (self-built VC generator over the real ASTs, /verif/pyvc; semantics assumed are listed in '
          'DESIGN.md 2.4), z3 5.1.0, the typed-heap invariant of contracts/types.py, the builtin models of '
          'pyvc/builtins.py, exact model classes, effect-free error-message formatting. Bounded stand-ins (B) run the '
          'real code over the stated finite domains and are never counted as proved.')

CHECKS = {
 'C01': ('other', 'P: constructors/adders that the builders call are proved against contracts (contracts/table.py, database.py); '
         'B (bounded, labelled as such): view(parse(surface(m, spelling))) == m over exhaustive per-element feature products and seeded documents, '
         'spelling invariance; the pyparsing engine itself is outside a contract verifier\'s reach (DESIGN.md 2.7)', '3/C01',
         'contracts on constructors (PyVC+z3) + bounded run-time contract on the real parser'),
 'C02': ('other', 'B (bounded): parse(db.dbml) has the same view and rendering is a fixpoint, over API-built models of the DBML-expressible domain and the repository documents; '
         'P obligations on the DBML renderers are being added', '3/C02', 'bounded run-time contract (round trip oracle) on the real renderer+parser'),
 'C03': ('other', 'B (bounded): read_ddl(db.sql) == ddl(view(db)) with an independent SQL reader over enumerated and seeded API-built models', '3/C03',
         'bounded run-time contract with independent DDL reader'),
 'C04': ('other', 'B (bounded): every reference exactly once, direction, inline xor ALTER, constraint names, actions, join tables, read back from db.sql', '3/C04',
         'bounded run-time contract with independent DDL reader'),
 'C05': ('other', 'P: lookup/back-pointer contracts (Database.table_dict, __getitem__, add_*, Table.add_column/add_index/__getitem__, note setters) discharged by z3; '
         'B (bounded): identity predicates on parsed databases with varied addressing', '3/C05', 'contracts (PyVC+z3) + bounded identity checks on parsed databases'),
 'C06': ('other', 'P: exceptional postconditions (raises iff rule broken, heap unchanged) of Database.add_table/add_enum/add_table_group/add_reference/add and Table.__getitem__ discharged by z3; '
         'B (bounded): every rule x both declaration orders x position x spelling on seeded base schemas raises the rule\'s error', '3/C06', 'exceptional postconditions (PyVC+z3)'),
 'C07': ('other', 'B (bounded, exhaustive over fault kinds x sites of the base documents): every injected fault of the statement\'s kinds makes the parse raise a pyparsing exception; a later parse is unaffected (no leak). '
         'The accepted language of the pyparsing grammar is outside a contract verifier\'s reach (DESIGN.md 2.7)', '3/C07', 'bounded fault-injection contract on the real parser'),
 'C08': ('other', 'B (bounded): outcome of parse/.dbml/.sql is in the allowed exception set over exhaustive token soups, site fills and seeded mutations', '3/C08',
         'bounded run-time contract on the real entry points'),
 'C09': ('other', 'P: the representation invariant is proved preserved by every Database method and by Table.add_column/delete_column/add_index/delete_index, with exact list effects, '
         'exceptional postconditions and frames (rejected operations leave the heap unchanged), unbounded in container size; lookup under current names is the proved postcondition of the computed index. '
         'B (bounded): the same invariants as run-time contracts around exhaustive short and seeded long histories (also covers renames and double-add)', '3/C09',
         'class-invariant + frame contracts (PyVC+z3), bounded history twin'),
 'C10': ('other', 'B (bounded): after seeded edit sequences, renderings equal those of a database rebuilt from the final view', '3/C10', 'bounded metamorphic run-time contract'),
 'C11': ('other', 'B (bounded): history independence, no shared mutable objects between parses, stable parse-action lists, thread runs (schedules not enumerated), reclamation by weakref; '
         'P: constructors allocate every container they store (fresh()) ', '3/C11', 'freshness contracts (PyVC+z3) + bounded history/thread/weakref runs'),
 'C12': ('other', 'B (bounded, exhaustive over routes x BOM x options): all seven entry points agree; constructor type refusal', '3/C12', 'bounded run-time contract over all routes'),
 'C13': ('other', 'B (bounded): normalisation contract exhaustively over short strings, three string styles, 12 text sites round trip, SQL literal neutralisation', '3/C13',
         'bounded run-time contracts; escaping lemmas to be added'),
 'C14': ('other', 'P: tools.comment / comment_to_sql prefix every line (discharged by z3), parse-action comment priority; B (bounded): capture per element kind and placement, '
         'inertness under comment insertion at every allowed position, rendering as comment lines and statement non-pollution', '3/C14', 'comment-prefix contract (PyVC+z3) + bounded capture/inertness checks'),
 'C15': ('other', 'P: Database.__init__ stores the flag; B (bounded): accept/reject/same/flip contracts over generated documents', '3/C15', 'contracts + bounded accept/reject/flip checks'),
 'C16': ('other', 'B (bounded): custom renderer classes are used for database and elements, unhandled types render empty, default pieces appear exactly once, purity under shuffled repeated evaluation; '
         'P: Database.__init__ stores the renderer classes', '3/C16', 'bounded run-time contract with instrumented renderer classes'),
 'C17': ('other', 'B (bounded, exhaustive over element kinds x missing attribute x construction route): the stated exception is raised', '3/C17', 'bounded exhaustive refusal matrix'),
 'C18': ('other', 'B (bounded, exhaustive over all DAGs up to 4 tables and most 5-table DAGs): permutation, determinism, and target-before-holder order read back from db.sql; '
         'the ordering clause fails on the unchanged tree and is a listed known finding (test_reorder_tables pins the heuristic)', '3/C18', 'bounded exhaustive DAG enumeration with independent DDL reader'),
}
NOT_APPLICABLE = {
}

def main():
    props = [json.loads(l)['id'] for l in open(os.path.join(HERE, 'properties.jsonl'))]
    checks = []
    for p in props:
        if p not in CHECKS:
            continue
        cat, text, ref, tech = CHECKS[p]
        checks.append({
            'property_id': p,
            'quick_cmd': f'bin/vcheck {p} --tier quick',
            'thorough_cmd': f'bin/vcheck {p} --tier thorough',
            'evidence_file': f'evidence/{p}.json',
            'replay_cmd_template': f'bin/vcheck {p} --replay {{path}}',
            'engine': 'pyvc+bounded',
            'level_claimed': {'category': cat, 'text': text, 'design_ref': 'DESIGN.md section ' + ref},
            'level_note': P_NOTE,
            'technique': tech,
        })
    na = [{'property_id': p, 'reason': r} for p, r in NOT_APPLICABLE.items() if p not in CHECKS]
    for p in props:
        if p not in CHECKS and p not in NOT_APPLICABLE:
            na.append({'property_id': p, 'reason': 'check under construction'})
    m = {
        'version': 1,
        'setup_cmd': 'bin/setup.sh',
        'hooks': {
            'guard': 'PYDBML_VERIF',
            'enable': 'no hooks are needed: contracts are sidecar files under /verif/contracts and /repo is read, not instrumented',
            'baseline_off_cmd': 'cd /repo && /venv/bin/python -m pytest -q -p no:cacheprovider',
            'source_commits': [],
            'add_only': True,
        },
        'engines': [
            {'name': 'pyvc', 'path': 'pyvc/', 'serves_properties': sorted(CHECKS),
             'kind_free_text': 'self-built verification-condition generator: symbolic execution of the real function ASTs against sidecar contracts, discharged by z3'},
            {'name': 'bounded', 'path': 'lib/bounded.py', 'serves_properties': sorted(CHECKS),
             'kind_free_text': 'bounded stand-in: run-time contracts on the real code over enumerated finite domains (never counted as proved)'},
        ],
        'checks': checks,
        'notes': 'Contract-based deductive verification (PyVC + z3) with bounded stand-ins where the verifier cannot reach; see DESIGN.md. '
                 'Genuine defects repaired in /repo are listed as fixed: lines in known_findings.txt.',
        'not_applicable': na,
    }
    json.dump(m, open(os.path.join(HERE, 'MANIFEST.json'), 'w'), indent=1)
    print('MANIFEST.json written:', len(checks), 'checks,', len(na), 'not applicable')

if __name__ == '__main__':
    main()
