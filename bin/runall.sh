#!/bin/sh
# run every registered check (quick tier by default) and summarise
HERE="$(cd "$(dirname "$0")/.." && pwd)"; cd "$HERE"
TIER="${1:-quick}"
for p in $(python3 -c "import json;print(' '.join(c['property_id'] for c in json.load(open('MANIFEST.json'))['checks']))"); do
  s=$(date +%s)
  out=$(bin/vcheck $p --tier $TIER 2>&1); rc=$?
  e=$(date +%s)
  echo "$p exit=$rc $((e-s))s $(echo "$out" | grep -c '^VIOLATION') violations, $(echo "$out" | grep -c '^KNOWN-FINDING') known; $(echo "$out" | grep '^\[' | cut -c1-150)"
  echo "$out" | grep -E "^VIOLATION|CHECKER-ERROR|undecided:" | cut -c1-220 | head -8
done
