#!/bin/sh
# Build the overlay venv /verif/.venv (python 3.12 from /venv + solver wheels). Offline.
set -e
HERE="$(cd "$(dirname "$0")/.." && pwd)"
V="$HERE/.venv"
if [ -x "$V/bin/python" ] && "$V/bin/python" -c "import z3, jsonschema, pyparsing" 2>/dev/null; then
  exit 0
fi
rm -rf "$V"
/venv/bin/python -m venv --without-pip "$V"
SP="$V/lib/python3.12/site-packages"
echo "import site; site.addsitedir('/venv/lib/python3.12/site-packages')" > "$SP/_base.pth"
PIP_NO_INDEX=1 /venv/bin/python -m pip --python "$V/bin/python" install -q --no-index \
  --find-links /opt/veriftools/wheels z3-solver cvc5 crosshair-tool deal icontract jsonschema >/dev/null
"$V/bin/python" -c "import z3, jsonschema, pyparsing; print('verif venv ok', z3.get_version_string())"
