#!/bin/sh
# run the registered check of each seeded change against /repo with the change applied, then undo it
HERE="$(cd "$(dirname "$0")/.." && pwd)"; cd "$HERE"
TIER="${TIER:-quick}"
for d in "$@"; do
  id=$(basename $d); prop=$(echo $id | cut -c1-3)
  if ! git -C /repo diff --quiet; then echo "/repo is dirty; abort"; exit 2; fi
  git -C /repo apply $d/patch.diff || { echo "$id: patch does not apply"; continue; }
  s=$(date +%s)
  out=$(bin/vcheck $prop --tier $TIER 2>&1); rc=$?
  e=$(date +%s)
  git -C /repo checkout -- .
  nv=$(echo "$out" | grep -c '^VIOLATION')
  echo "$id ($prop): exit=$rc violations=$nv $((e-s))s"
  echo "$out" | grep '^VIOLATION' | sed 's/replay=[^ ]* //' | cut -c1-200 | head -4
done
