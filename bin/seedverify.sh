#!/bin/sh
# confirm a seeded change in a scratch worktree: tests pass with it, demo fails with it and passes without
WT=/tmp/wt_verify
for d in "$@"; do
  id=$(basename $d)
  git -C $WT checkout -q -- . ; git -C $WT clean -fdq
  if ! git -C $WT apply $d/patch.diff 2>/dev/null; then echo "$id: PATCH DOES NOT APPLY"; continue; fi
  t=$(cd $WT && /venv/bin/python -m pytest -q -p no:cacheprovider 2>&1 | tail -1)
  (cd $WT && PYTHONPATH=$WT /venv/bin/python $d/demo.py >/dev/null 2>&1); with=$?
  git -C $WT checkout -q -- .
  (cd $WT && PYTHONPATH=$WT /venv/bin/python $d/demo.py >/dev/null 2>&1); without=$?
  echo "$id: tests=[$t] demo_with_patch=$with demo_without=$without"
done
