#!/usr/bin/env python3
"""Print the per-property "as built" table (markdown) from the committed evidence files and the
contract registry.  DESIGN.md section A.3 is this script's output; rerun after bin/runall.sh."""
import json
import os
import sys

HERE = os.path.dirname(os.path.dirname(os.path.abspath(__file__)))
sys.path.insert(0, HERE)
sys.path.insert(0, os.environ.get('VERIF_REPO', '/repo'))


def main():
    from pyvc.runner import load_all_contracts
    contracts = load_all_contracts()
    props = [json.loads(l)['id'] for l in open(os.path.join(HERE, 'properties.jsonl'))]
    tot = {'P': 0, 'L': 0, 'S': 0, 'B': 0}
    for p in props:
        ev = json.load(open(os.path.join(HERE, 'evidence', f'{p}.json')))
        cov = ev['coverage']
        bk = cov.get('by_kind', {})
        quick = sorted(t for t, c in contracts.items() if p in c.property_ids and not c.inline and c.tier == 'quick')
        thorough = sorted(t for t, c in contracts.items() if p in c.property_ids and not c.inline and c.tier == 'thorough')
        trusted = sorted(t for t, c in contracts.items() if p in c.property_ids and c.tier == 'none')
        print(f'#### {p}  (evidence tier={ev["tier"]}, wall {ev["wall_s"]} s, solver {cov.get("solver_s")} s)')
        print()
        for k in ('P', 'L', 'S', 'B'):
            d = bk.get(k, {})
            if d:
                print(f'* {k}: ' + ', '.join(f'{v} {n}' for n, v in sorted(d.items())))
                tot[k] += d.get('discharged', 0)
        short = lambda t: t.replace('pydbml.', '').replace('renderer.', 'r.').replace('.default', '')
        if quick:
            print(f'* functions under contract, verified every run ({len(quick)}): ' + ', '.join(f'`{short(t)}`' for t in quick))
        if thorough:
            print(f'* verified in the thorough tier only: ' + ', '.join(f'`{short(t)}`' for t in thorough))
        if trusted:
            print(f'* contracts assumed, not verified (trusted): ' + ', '.join(f'`{short(t)}`' for t in trusted))
        b = [x for x in cov.get('bounded', []) if '.contract-twin.' not in x['id']]
        if b:
            print('* bounded stand-ins: ' + '; '.join(
                f'`{x["id"].split(".B.")[1]}` ({x["evaluations"]} cases' + (', exhaustive in bound' if x['exhaustive'] else '') + ')'
                for x in b))
        tw = [x for x in cov.get('bounded', []) if '.contract-twin.' in x['id']]
        if tw:
            print(f'* run-time contract twins on the real functions: {len(tw)} functions, {sum(x["evaluations"] for x in tw)} calls')
        if cov.get('undecided'):
            print('* undecided: ' + '; '.join(u['id'] for u in cov['undecided']))
        if cov.get('known_findings'):
            print(f'* listed known findings reproduced: {len(cov["known_findings"])}')
        print()
    print('Totals of discharged obligations (an obligation that serves several properties is counted under each): '
          + ', '.join(f'{k} {v}' for k, v in tot.items()))


if __name__ == '__main__':
    main()
