#!/usr/bin/env python3
"""seedtable.py [-j N] <seeded/ID>... : run bin/seedwt.sh on each seeded change (N lanes side by side), record the
outcome in seeded/results.json and print the rows of DESIGN.md section 7.  Nothing here is evidence for a property:
it records which obligations of the registered quick check report each seeded change."""
import json, os, re, subprocess, sys, time
from concurrent.futures import ThreadPoolExecutor

HERE = os.path.dirname(os.path.dirname(os.path.abspath(__file__)))
RES = os.path.join(HERE, 'seeded', 'results.json')


def run(d):
    d = os.path.abspath(d)
    sid = os.path.basename(d)
    t0 = time.time()
    p = subprocess.run([os.path.join(HERE, 'bin', 'seedwt.sh'), d], capture_output=True, text=True,
                       env=dict(os.environ, SEEDWT_FULL='1'))
    out = p.stdout + p.stderr
    m = re.search(r'exit=(\d+) violations=(\d+) (\d+)s', out)
    obls = re.findall(r'^VIOLATION property=\S+ obligation=(\S+) key=(\S+)(.*)$', out, re.M)
    kinds, names = [], []
    for ob, key, rest in obls:
        parts = ob.split('.', 2)
        kind = parts[1] if len(parts) > 2 else '?'
        name = parts[2] if len(parts) > 2 else ob
        if name.startswith('contract-twin.'):
            kind = 'twin'
            name = 'twin:' + name.split(':')[-1]
        elif kind == 'P':
            name = 'P:' + name.split(':')[-1]
        if kind not in kinds:
            kinds.append(kind)
        if name not in names:
            names.append(name)
    files = []
    try:
        files = json.load(open(os.path.join(d, 'meta.json'))).get('files', [])
    except Exception:
        pass
    return sid, {'exit': int(m.group(1)) if m else None, 'violations': int(m.group(2)) if m else None,
                 'seconds': int(m.group(3)) if m else int(time.time() - t0), 'caught_by': kinds,
                 'obligations': names, 'files': files, 'raw_tail': out[-400:] if not m else ''}


def main():
    args = sys.argv[1:]
    j = 3
    if args and args[0] == '-j':
        j = int(args[1]); args = args[2:]
    res = json.load(open(RES)) if os.path.exists(RES) else {}
    with ThreadPoolExecutor(j) as ex:
        for sid, r in ex.map(run, args):
            res[sid] = r
            json.dump(res, open(RES, 'w'), indent=1, sort_keys=True)
            order = {'P': 0, 'twin': 1, 'S': 2, 'B': 3}
            kinds = '/'.join(sorted(r['caught_by'], key=lambda k: order.get(k, 9))) or '—'
            print(f"| {sid} | {', '.join(f.replace('pydbml/', '') for f in r['files'])} | exit {r['exit']} | {kinds} | "
                  f"{'; '.join(r['obligations'][:4])}{' …' if len(r['obligations']) > 4 else ''} | {r['seconds']}s |", flush=True)


if __name__ == '__main__':
    main()
