#!/usr/bin/env python3
"""Run every seeded change through its property's quick check (apply to /repo, check, undo) and print
the markdown table of DESIGN.md section 7.  Usage: bin/seedtable.py [ids...]   (needs a clean /repo)"""
import json, os, re, subprocess, sys, time
HERE = os.path.dirname(os.path.dirname(os.path.abspath(__file__)))
ids = sys.argv[1:] or sorted(os.listdir(os.path.join(HERE, 'seeded')))
rows = []
for i in ids:
    d = os.path.join(HERE, 'seeded', i)
    prop = i[:3]
    if subprocess.run(['git', '-C', '/repo', 'diff', '--quiet']).returncode != 0:
        sys.exit('/repo is dirty')
    if subprocess.run(['git', '-C', '/repo', 'apply', os.path.join(d, 'patch.diff')]).returncode != 0:
        rows.append((i, 'patch does not apply', '', '')); continue
    t0 = time.time()
    try:
        p = subprocess.run([os.path.join(HERE, 'bin', 'vcheck'), prop, '--tier', 'quick'], capture_output=True, text=True)
    finally:
        subprocess.run(['git', '-C', '/repo', 'checkout', '--', '.'])
    obs = []
    for line in p.stdout.splitlines():
        m = re.match(r'VIOLATION property=\S+ replay=\S+ obligation=(\S+) key=(\S+)( no-failing-input-found)?', line)
        if m:
            obs.append((m.group(1), m.group(2), bool(m.group(3))))
    kinds = []
    names = []
    for ob, key, nf in obs:
        k = 'twin' if '.B.contract-twin.' in ob else ob.split('.')[1]
        if k not in kinds:
            kinds.append(k)
        short = ob.split('.', 2)[2] if k != 'twin' else 'twin:' + ob.rsplit(':', 1)[-1]
        short = short.replace('pydbml.', '')
        if k == 'P':
            short = 'P:' + ob.split(':')[-1]
        if short not in names:
            names.append(short)
    files = sorted(set(re.findall(r'^\+\+\+ b/(\S+)', open(os.path.join(d, 'patch.diff')).read(), re.M)))
    rows.append((i, ', '.join(f.replace('pydbml/', '') for f in files), f'exit {p.returncode}', '/'.join(kinds) or '—',
                 '; '.join(names[:4]) + (' …' if len(names) > 4 else ''), f'{time.time() - t0:.0f}s'))
    print(rows[-1], file=sys.stderr, flush=True)
print('| change | touches | result | caught by | obligations (first four) | time |')
print('|---|---|---|---|---|---|')
for r in rows:
    print('| ' + ' | '.join(r) + ' |')
missed = [r[0] for r in rows if r[2] != 'exit 1']
print()
print(f'{len(rows) - len(missed)} of {len(rows)} detected.' + (f' Missed: {missed}' if missed else ''))
