#!/bin/sh
# seedwt.sh <seeded/ID>... : run the property's quick check against a scratch worktree of /repo with the seeded change
# applied (VERIF_REPO), writing evidence/replays under /tmp/seedout_<ID> (VERIF_OUT) so /verif/evidence is untouched.
# Equivalent to bin/seedrun.sh (apply to /repo, run, undo) but leaves /repo alone, so several can run side by side.
HERE="$(cd "$(dirname "$0")/.." && pwd)"; cd "$HERE"
TIER="${TIER:-quick}"
for d in "$@"; do
  d=$(cd "$d" && pwd); id=$(basename $d); prop=$(echo $id | cut -c1-3)
  WT=/tmp/seedwt_$id; OUT=/tmp/seedout_$id
  git -C /repo worktree remove --force $WT 2>/dev/null; rm -rf $WT $OUT; mkdir -p $OUT/evidence $OUT/replays
  git -C /repo worktree add -q --detach $WT HEAD || { echo "$id: no worktree"; continue; }
  git -C $WT apply $d/patch.diff || { echo "$id: patch does not apply"; git -C /repo worktree remove --force $WT; continue; }
  s=$(date +%s)
  out=$(VERIF_REPO=$WT VERIF_OUT=$OUT bin/vcheck $prop --tier $TIER 2>&1); rc=$?
  e=$(date +%s)
  git -C /repo worktree remove --force $WT; rm -rf $OUT
  nv=$(echo "$out" | grep -c '^VIOLATION')
  echo "$id ($prop): exit=$rc violations=$nv $((e-s))s"
  echo "$out" | grep '^VIOLATION' | sed 's/replay=[^ ]* //' | cut -c1-220 | head -${SEEDWT_FULL:+4}5
done
