#!/usr/bin/env python3
"""Rewrite the rounds 4-5 table of DESIGN.md section 7 from seeded/results.json."""
import json, os, re
HERE = os.path.dirname(os.path.dirname(os.path.abspath(__file__)))
res = json.load(open(os.path.join(HERE, 'seeded', 'results.json')))
order = {'P': 0, 'twin': 1, 'S': 2, 'B': 3}
rows = ['| change | touches | result | caught by | obligations (first four) | time |', '|---|---|---|---|---|---|']
for sid in sorted(res, key=lambda s: (s[4], s[:3])):
    r = res[sid]
    kinds = '/'.join(sorted(r['caught_by'], key=lambda k: order.get(k, 9))) or '(see note)'
    rows.append(f"| {sid} | {', '.join(f.replace('pydbml/', '') for f in r['files'])} | exit {r['exit']} | {kinds} | "
                f"{'; '.join(r['obligations'][:4])}{' …' if len(r['obligations']) > 4 else ''} | {r['seconds']}s |")
p = os.path.join(HERE, 'DESIGN.md')
s = open(p).read()
s = re.sub(r'<!-- rounds45:begin -->.*?<!-- rounds45:end -->',
           '<!-- rounds45:begin -->\n' + '\n'.join(rows) + '\n<!-- rounds45:end -->', s, flags=re.S)
open(p, 'w').write(s)
print(len(rows) - 2, 'rows')
