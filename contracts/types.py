"""Declared attribute types of the model classes (the *typed-heap* invariant).

This is part of every contract's precondition ("the heap is well-typed"): a read of `obj.f`
may assume the declared type, and every store `obj.f = v` in a verified function generates a
`type:<Class>.<f>` obligation that `v` conforms.  So the table is not an unchecked assumption
about the code: constructors and mutators are proved to preserve it; what *is* assumed is that
client code outside pydbml also respects it (the property statements speak of "values DBML can
express").  Type language: str int bool float None Any Cls(class object) <ClassName>
Optional[T] Union[A,B,..] List[T] Dict[T] (string keys) Tuple.
"""

FIELDS = {
    'Database': {
        'sql_renderer': 'Cls', 'dbml_renderer': 'Cls',
        'tables': 'List[Table]', 'table_dict': 'Dict[Table]', 'refs': 'List[Reference]',
        'enums': 'List[Enum]', 'table_groups': 'List[TableGroup]', 'sticky_notes': 'List[StickyNote]',
        'project': 'Optional[Project]', 'allow_properties': 'bool',
    },
    'Table': {
        'database': 'Optional[Database]', 'name': 'Optional[str]', 'schema': 'Optional[str]',
        'columns': 'List[Column]', 'indexes': 'List[Index]', 'alias': 'Optional[str]',
        '_note': 'Note', 'header_color': 'Optional[str]', 'comment': 'Optional[str]',
        'abstract': 'bool', 'properties': 'Dict[str]',
    },
    'Column': {
        'name': 'Optional[str]', 'type': 'Union[None,str,Enum]', 'unique': 'bool', 'not_null': 'bool',
        'pk': 'bool', 'autoinc': 'bool', 'comment': 'Optional[str]', '_note': 'Note',
        'properties': 'Dict[str]', 'default': 'Union[None,str,int,bool,float,Expression]',
        'table': 'Optional[Table]',
    },
    'Index': {
        'subjects': 'List[Union[str,Column,Expression]]', 'table': 'Optional[Table]',
        'name': 'Optional[str]', 'unique': 'bool', 'type': 'Optional[str]', 'pk': 'bool',
        '_note': 'Note', 'comment': 'Optional[str]',
    },
    'Enum': {
        'database': 'Optional[Database]', 'name': 'Optional[str]', 'schema': 'Optional[str]',
        'comment': 'Optional[str]', 'items': 'List[EnumItem]',
    },
    'EnumItem': {'name': 'Optional[str]', '_note': 'Note', 'comment': 'Optional[str]'},
    'Note': {'text': 'str', 'parent': 'Any'},
    'StickyNote': {'name': 'str', 'text': 'str', 'database': 'Optional[Database]'},
    'Project': {
        'database': 'Optional[Database]', 'name': 'str', 'items': 'Dict[str]', '_note': 'Note',
        'comment': 'Optional[str]',
    },
    'TableGroup': {
        'database': 'Optional[Database]', 'name': 'str', 'items': 'List[Table]',
        'comment': 'Optional[str]', '_note': 'Optional[Note]', 'color': 'Optional[str]',
    },
    'Expression': {'text': 'str'},
    'Reference': {
        'database': 'Optional[Database]', 'type': 'Optional[str]', 'col1': 'List[Column]',
        'col2': 'List[Column]', 'name': 'Optional[str]', 'comment': 'Optional[str]',
        'on_update': 'Optional[str]', 'on_delete': 'Optional[str]', '_inline': 'bool',
    },
    # parser side
    'PyDBMLParser': {
        'database': 'Optional[Database]', 'ref_blueprints': 'List[ReferenceBlueprint]',
        'table_groups': 'List[TableGroupBlueprint]', 'source': 'str', 'tables': 'List[TableBlueprint]',
        'refs': 'List[ReferenceBlueprint]', 'enums': 'List[EnumBlueprint]',
        'project': 'Optional[ProjectBlueprint]', 'sticky_notes': 'List[StickyNoteBlueprint]',
        '_allow_properties': 'bool', '_sql_renderer': 'Cls', '_dbml_renderer': 'Cls', '_syntax': 'Any',
    },
    'NoteBlueprint': {'text': 'str', 'parser': 'Optional[PyDBMLParser]'},
    'StickyNoteBlueprint': {'name': 'str', 'text': 'str', 'parser': 'Optional[PyDBMLParser]'},
    'ExpressionBlueprint': {'text': 'str', 'parser': 'Optional[PyDBMLParser]'},
    'ReferenceBlueprint': {
        'type': 'str', 'inline': 'bool', 'name': 'Optional[str]', 'schema1': 'str',
        'table1': 'Optional[str]', 'col1': 'Optional[str]', 'schema2': 'str',
        'table2': 'Optional[str]', 'col2': 'Optional[str]', 'comment': 'Optional[str]',
        'on_update': 'Optional[str]', 'on_delete': 'Optional[str]', 'parser': 'Optional[PyDBMLParser]',
    },
    'ColumnBlueprint': {
        'name': 'str', 'type': 'Union[str,Enum]', 'unique': 'bool', 'not_null': 'bool', 'pk': 'bool',
        'autoinc': 'bool', 'default': 'Union[None,str,int,bool,float,ExpressionBlueprint,Expression]',
        'note': 'Optional[NoteBlueprint]', 'ref_blueprints': 'Optional[List[ReferenceBlueprint]]',
        'comment': 'Optional[str]', 'properties': 'Optional[Dict[str]]',
        'parser': 'Optional[PyDBMLParser]',
    },
    'IndexBlueprint': {
        'subject_names': 'List[Union[str,ExpressionBlueprint]]', 'name': 'Optional[str]',
        'unique': 'bool', 'type': 'Optional[str]', 'pk': 'bool', 'note': 'Optional[NoteBlueprint]',
        'comment': 'Optional[str]', 'parser': 'Optional[PyDBMLParser]', 'table': 'None',
    },
    'TableBlueprint': {
        'name': 'str', 'schema': 'str', 'columns': 'Optional[List[ColumnBlueprint]]',
        'indexes': 'Optional[List[IndexBlueprint]]', 'alias': 'Optional[str]',
        'note': 'Optional[NoteBlueprint]', 'header_color': 'Optional[str]',
        'comment': 'Optional[str]', 'properties': 'Optional[Dict[str]]',
        'parser': 'Optional[PyDBMLParser]',
    },
    'EnumItemBlueprint': {
        'name': 'str', 'note': 'Optional[NoteBlueprint]', 'comment': 'Optional[str]',
        'parser': 'Optional[PyDBMLParser]',
    },
    'EnumBlueprint': {
        'name': 'str', 'items': 'List[EnumItemBlueprint]', 'schema': 'str',
        'comment': 'Optional[str]', 'parser': 'Optional[PyDBMLParser]',
    },
    'ProjectBlueprint': {
        'name': 'str', 'items': 'Optional[Dict[str]]', 'note': 'Optional[NoteBlueprint]',
        'comment': 'Optional[str]', 'parser': 'Optional[PyDBMLParser]',
    },
    'TableGroupBlueprint': {
        'name': 'str', 'items': 'List[str]', 'comment': 'Optional[str]',
        'note': 'Optional[NoteBlueprint]', 'color': 'Optional[str]',
        'parser': 'Optional[PyDBMLParser]',
    },
}

# classes that exist only as heap shapes (no user subclassing is modelled: assumption A-EXACT)
FIELDS['PyDBML'] = {}
FIELDS['Path'] = {}
FIELDS['TextIOWrapper'] = {}
FIELDS['OtherSource'] = {}
CLASS_NAMES = sorted(FIELDS) + ['list', 'dict', 'tuple', 'ParseResults', 'object']


class OtherSource:
    """stands for any object that is not a str, Path or text stream (C12: refused with TypeError)"""
