"""Contracts for pydbml/parser/parser.py entry points (C12) and small parser methods (C05, C06, C15, C16)."""
from pyvc.verify import contract, loc, loc_list
from pyvc.speclib import fresh, old, abstract
from pathlib import Path
from io import TextIOWrapper
from pydbml.parser.parser import PyDBML, PyDBMLParser
from pydbml.renderer.sql.default import DefaultSQLRenderer
from pydbml.renderer.dbml.default import DefaultDBMLRenderer
from pydbml.tools import remove_bom


@abstract('Database', heap=False)
def parse_of(source, allow_properties, sql_renderer, dbml_renderer):
    """the database that PyDBMLParser(source, options).parse() returns (or the exception it raises):
    the single funnel every entry point must go through"""
    return PyDBMLParser(source, allow_properties=allow_properties, sql_renderer=sql_renderer,
                        dbml_renderer=dbml_renderer).parse()


@abstract('str', heap=False)
def text_of(source):
    """the text read from a path (utf8) or from an open text stream"""
    if isinstance(source, TextIOWrapper):
        return source.read()
    with open(source, encoding='utf8') as f:
        return f.read()


def strip_one_bom(text):
    return text[1:] if text[:1] == '﻿' else text


@contract('pydbml.tools:remove_bom')
class c_remove_bom:
    # C07: exactly one leading byte-order mark is dropped; a second one is a stray token and must reach the grammar
    properties = ('C12', 'C07')
    params = {'source': 'str'}
    pure = True
    ret = 'str'

    def returns(source):
        return strip_one_bom(source)

    def ensures_one_bom(source, result):
        return result == strip_one_bom(source)


@contract('pydbml.parser.parser:PyDBMLParser.__init__')
class parser_init:
    properties = ('C11', 'C12', 'C15', 'C16')
    params = {'self': 'PyDBMLParser', 'source': 'str', 'allow_properties': 'bool', 'sql_renderer': 'Cls',
              'dbml_renderer': 'Cls'}

    def modifies(self, source, allow_properties, sql_renderer, dbml_renderer):
        return [loc(self, 'database'), loc(self, 'ref_blueprints'), loc(self, 'table_groups'), loc(self, 'source'),
                loc(self, 'tables'), loc(self, 'refs'), loc(self, 'enums'), loc(self, 'project'),
                loc(self, 'sticky_notes'), loc(self, '_allow_properties'), loc(self, '_sql_renderer'),
                loc(self, '_dbml_renderer')]

    def ensures_options(self, source, allow_properties, sql_renderer, dbml_renderer, result):
        return (self.source == source and self._allow_properties is allow_properties
                and self._sql_renderer is sql_renderer and self._dbml_renderer is dbml_renderer
                and self.database is None and self.project is None)

    def ensures_fresh_empty_lists(self, source, allow_properties, sql_renderer, dbml_renderer, result):
        # C11: nothing is shared with earlier parsers
        return (fresh(self.tables) and fresh(self.refs) and fresh(self.enums) and fresh(self.table_groups)
                and fresh(self.sticky_notes) and fresh(self.ref_blueprints)
                and len(self.tables) == 0 and len(self.refs) == 0 and len(self.enums) == 0
                and len(self.table_groups) == 0 and len(self.sticky_notes) == 0 and len(self.ref_blueprints) == 0)


@contract('pydbml.parser.parser:PyDBMLParser.parse')
class parser_parse:
    """Abstracted at its call sites as the funnel parse_of(source, options)."""
    tier = 'none'
    params = {'self': 'PyDBMLParser'}
    ret = 'Database'
    allowed = ('Exception',)

    def modifies(self):
        return [loc(self, 'database'), loc(self, '_syntax'), loc_list(self.tables), loc_list(self.refs),
                loc_list(self.enums), loc_list(self.table_groups), loc_list(self.sticky_notes),
                loc_list(self.ref_blueprints), loc(self, 'project')]

    def returns(self):
        return parse_of(old(self.source), old(self._allow_properties), old(self._sql_renderer), old(self._dbml_renderer))


@contract('pydbml.parser.parser:PyDBML.parse')
class pydbml_parse:
    properties = ('C12', 'C15', 'C16')
    params = {'text': 'str', 'allow_properties': 'bool', 'sql_renderer': 'Cls', 'dbml_renderer': 'Cls'}
    ret = 'Database'
    allowed = ('Exception',)

    def modifies(text, allow_properties, sql_renderer, dbml_renderer):
        return []

    def returns(text, allow_properties, sql_renderer, dbml_renderer):
        return parse_of(strip_one_bom(text), allow_properties, sql_renderer, dbml_renderer)

    def ensures_funnel(text, allow_properties, sql_renderer, dbml_renderer, result):
        return result is parse_of(strip_one_bom(text), allow_properties, sql_renderer, dbml_renderer)


@contract('pydbml.parser.parser:PyDBML.parse_file')
class pydbml_parse_file:
    properties = ('C12',)
    params = {'file': 'Union[str,Path,TextIOWrapper]'}
    ret = 'Database'
    allowed = ('Exception',)

    def modifies(file):
        return []

    def ensures_funnel(file, result):
        return result is parse_of(strip_one_bom(text_of(file)), False, DefaultSQLRenderer, DefaultDBMLRenderer)


@contract('pydbml.parser.parser:PyDBML.__new__')
class pydbml_new:
    """Every supported source kind goes through the same funnel with exactly one leading BOM removed
    and the options forwarded; no source gives a bare instance; any other source type is refused
    before anything is parsed."""
    properties = ('C12', 'C15', 'C16')
    params = {'cls': PyDBML, 'source_': 'Union[None,str,Path,TextIOWrapper,OtherSource,int,bool]',
              'allow_properties': 'bool', 'sql_renderer': 'Cls', 'dbml_renderer': 'Cls'}
    allowed = ('Exception',)

    def modifies(cls, source_, allow_properties, sql_renderer, dbml_renderer):
        return []

    def raises_TypeError(cls, source_, allow_properties, sql_renderer, dbml_renderer):
        return source_ is not None and not isinstance(source_, str) and not isinstance(source_, Path) \
            and not isinstance(source_, TextIOWrapper)

    def ensures_instance_when_no_source(cls, source_, allow_properties, sql_renderer, dbml_renderer, result):
        return source_ is not None or (isinstance(result, PyDBML) and fresh(result))

    def ensures_funnel_str(cls, source_, allow_properties, sql_renderer, dbml_renderer, result):
        return not isinstance(source_, str) or \
            result is parse_of(strip_one_bom(source_), allow_properties, sql_renderer, dbml_renderer)

    def ensures_funnel_file(cls, source_, allow_properties, sql_renderer, dbml_renderer, result):
        return not (isinstance(source_, Path) or isinstance(source_, TextIOWrapper)) or \
            result is parse_of(strip_one_bom(text_of(source_)), allow_properties, sql_renderer, dbml_renderer)


# ------------------------------------------------------------------------------------------ the collecting action
from pyvc.verify import loc_list, loc_cls      # noqa: E402
from pyvc.verify import loc as field_at      # noqa: E402  (the action's own parameter is called `loc`)
from pyvc.speclib import old      # noqa: E402,F811
from contracts.database import appended, same_list      # noqa: E402
from contracts.blueprints import col_refs_collected      # noqa: E402
from pydbml.parser.blueprints import (TableBlueprint, ReferenceBlueprint, EnumBlueprint, TableGroupBlueprint,      # noqa: E402
                                      ProjectBlueprint, StickyNoteBlueprint, ColumnBlueprint, IndexBlueprint,
                                      NoteBlueprint, EnumItemBlueprint)


def owned_note(parser, n):
    return n is None or n.parser is parser


def not_a_parser_list(parser, xs):
    return (xs is None or (xs is not parser.refs and xs is not parser.tables and xs is not parser.enums
                           and xs is not parser.table_groups and xs is not parser.sticky_notes))


def tail_tied(parser, xs, old_xs):
    """every element appended to xs since old_xs is tied to the parser (stated per position of xs)"""
    return all(k < len(old_xs) or xs[k].parser is parser for k in range(len(xs)))


def suffix_is(xs, old_xs, ys, i):
    """xs == old_xs + ys[:i]  (by identity)"""
    return (len(xs) == len(old_xs) + i and all(xs[k] is old_xs[k] for k in range(len(old_xs)))
            and all(xs[len(old_xs) + j] is ys[j] for j in range(i)))


@contract('pydbml.parser.parser:PyDBMLParser.parse_blueprint')
class parse_blueprint:
    """The parser's collecting action (C01, C07): the element just parsed is appended to the list of its kind
    (a project is stored), it and everything it contains — columns, indexes, items, their notes, inline
    references — is tied to this parser, a table's inline references are appended to the reference list, and
    the other lists stay as they were.  Four loops are verified by invariant."""
    properties = ('C01', 'C05')
    params = {'self': 'PyDBMLParser', 's': 'str', 'loc': 'int',
              'tok': 'PR(0:Union[TableBlueprint,ReferenceBlueprint,EnumBlueprint,TableGroupBlueprint,ProjectBlueprint,StickyNoteBlueprint])'}

    def requires_columns(self, s, loc, tok):
        return not isinstance(tok[0], TableBlueprint) or tok[0].columns is not None

    min_timeout_ms = 8000

    def requires_distinct_lists(self, s, loc, tok):
        # the parser's five collections are five lists (PyDBMLParser.__init__ creates them so) ...
        return (self.refs is not self.tables and self.refs is not self.enums and self.refs is not self.table_groups
                and self.refs is not self.sticky_notes and self.tables is not self.enums
                and self.tables is not self.table_groups and self.tables is not self.sticky_notes
                and self.enums is not self.table_groups and self.enums is not self.sticky_notes
                and self.table_groups is not self.sticky_notes)

    def requires_private_lists(self, s, loc, tok):
        # ... and no blueprint uses one of them as its own list of columns, indexes, items or inline references
        return ((not isinstance(tok[0], TableBlueprint)
                 or (not_a_parser_list(self, tok[0].columns) and not_a_parser_list(self, tok[0].indexes)
                     and all(not_a_parser_list(self, c.ref_blueprints) for c in tok[0].columns)))
                and (not isinstance(tok[0], EnumBlueprint) or not_a_parser_list(self, tok[0].items)))

    def modifies(self, s, loc, tok):
        return [loc_list(self.tables), loc_list(self.refs), loc_list(self.enums), loc_list(self.table_groups),
                loc_list(self.sticky_notes), field_at(self, 'project'),
                loc_cls(TableBlueprint, 'parser'), loc_cls(ReferenceBlueprint, 'parser'), loc_cls(EnumBlueprint, 'parser'),
                loc_cls(TableGroupBlueprint, 'parser'), loc_cls(ProjectBlueprint, 'parser'),
                loc_cls(StickyNoteBlueprint, 'parser'), loc_cls(ColumnBlueprint, 'parser'),
                loc_cls(IndexBlueprint, 'parser'), loc_cls(NoteBlueprint, 'parser'),
                loc_cls(ReferenceBlueprint, 'schema1'), loc_cls(ReferenceBlueprint, 'table1'),
                loc_cls(ReferenceBlueprint, 'col1')]

    # -- inline references of a table
    def loop0_modifies(self, s, loc, tok):
        return [loc_list(self.refs), loc_cls(ReferenceBlueprint, 'parser')]

    def loop0_invariant(self, s, loc, tok, blueprint, ref_bps, i):
        return (suffix_is(self.refs, old(self.refs), ref_bps, i) and all(ref_bps[j].parser is self for j in range(i))
                and tail_tied(self, self.refs, old(self.refs))
                and appended(self.tables, old(self.tables), blueprint))

    # -- columns
    def loop1_modifies(self, s, loc, tok):
        return [loc_cls(ColumnBlueprint, 'parser'), loc_cls(NoteBlueprint, 'parser')]

    def loop1_invariant(self, s, loc, tok, blueprint, ref_bps, col_bps, i):
        return (suffix_is(self.refs, old(self.refs), ref_bps, len(ref_bps))
                and all(ref_bps[j].parser is self for j in range(len(ref_bps)))
                and tail_tied(self, self.refs, old(self.refs))
                and appended(self.tables, old(self.tables), blueprint)
                and all(col_bps[j].parser is self and owned_note(self, col_bps[j].note) for j in range(i)))

    # -- indexes
    def loop2_modifies(self, s, loc, tok):
        return [loc_cls(IndexBlueprint, 'parser'), loc_cls(NoteBlueprint, 'parser')]

    def loop2_invariant(self, s, loc, tok, blueprint, ref_bps, col_bps, index_bps, i):
        return (suffix_is(self.refs, old(self.refs), ref_bps, len(ref_bps))
                and all(ref_bps[j].parser is self for j in range(len(ref_bps)))
                and tail_tied(self, self.refs, old(self.refs))
                and appended(self.tables, old(self.tables), blueprint)
                and all(col_bps[j].parser is self and owned_note(self, col_bps[j].note) for j in range(len(col_bps)))
                and all(index_bps[j].parser is self and owned_note(self, index_bps[j].note) for j in range(i)))

    # -- enum items
    def loop3_modifies(self, s, loc, tok):
        return [loc_cls(NoteBlueprint, 'parser')]

    def loop3_invariant(self, s, loc, tok, blueprint, i):
        return (appended(self.enums, old(self.enums), blueprint)
                and all(owned_note(self, blueprint.items[j].note) for j in range(i)))

    def ensures_tied(self, s, loc, tok, result):
        return tok[0].parser is self

    def ensures_listed(self, s, loc, tok, result):
        return ((not isinstance(tok[0], TableBlueprint) or appended(self.tables, old(self.tables), tok[0]))
                and (not isinstance(tok[0], ReferenceBlueprint) or appended(self.refs, old(self.refs), tok[0]))
                and (not isinstance(tok[0], EnumBlueprint) or appended(self.enums, old(self.enums), tok[0]))
                and (not isinstance(tok[0], TableGroupBlueprint) or appended(self.table_groups, old(self.table_groups), tok[0]))
                and (not isinstance(tok[0], StickyNoteBlueprint) or appended(self.sticky_notes, old(self.sticky_notes), tok[0]))
                and (not isinstance(tok[0], ProjectBlueprint) or self.project is tok[0]))

    def ensures_others_unchanged(self, s, loc, tok, result):
        return ((isinstance(tok[0], TableBlueprint) or same_list(self.tables, old(self.tables)))
                and (isinstance(tok[0], (ReferenceBlueprint, TableBlueprint)) or same_list(self.refs, old(self.refs)))
                and (isinstance(tok[0], EnumBlueprint) or same_list(self.enums, old(self.enums)))
                and (isinstance(tok[0], TableGroupBlueprint) or same_list(self.table_groups, old(self.table_groups)))
                and (isinstance(tok[0], StickyNoteBlueprint) or same_list(self.sticky_notes, old(self.sticky_notes)))
                and (isinstance(tok[0], ProjectBlueprint) or self.project is old(self.project)))

    def ensures_table_columns_tied(self, s, loc, tok, result):
        return not isinstance(tok[0], TableBlueprint) or \
            all(tok[0].columns[j].parser is self and owned_note(self, tok[0].columns[j].note)
                for j in range(len(tok[0].columns)))

    def ensures_table_indexes_tied(self, s, loc, tok, result):
        return not isinstance(tok[0], TableBlueprint) or tok[0].indexes is None or \
            all(tok[0].indexes[j].parser is self and owned_note(self, tok[0].indexes[j].note)
                for j in range(len(tok[0].indexes)))

    def ensures_table_note_tied(self, s, loc, tok, result):
        return not isinstance(tok[0], TableBlueprint) or owned_note(self, tok[0].note)

    def ensures_inline_refs_collected(self, s, loc, tok, result):
        return not isinstance(tok[0], TableBlueprint) or \
            all(col_refs_collected(self.refs, tok[0].columns[j]) for j in range(len(tok[0].columns)))

    def ensures_inline_refs_tied(self, s, loc, tok, result):
        return not isinstance(tok[0], TableBlueprint) or tail_tied(self, self.refs, old(self.refs))

    def ensures_enum_contents_tied(self, s, loc, tok, result):
        return not isinstance(tok[0], EnumBlueprint) or all(owned_note(self, it.note) for it in tok[0].items)

    def ensures_project_note_tied(self, s, loc, tok, result):
        return not isinstance(tok[0], ProjectBlueprint) or owned_note(self, tok[0].note)


# ------------------------------------------------------------------------------------------ the second phase: build
from contracts.database import db_inv, lists_distinct      # noqa: E402
from pyvc.speclib import fresh      # noqa: E402,F811


def db_configured(parser, db):
    """the database carries the parser's options (C12, C15, C16) and is a database of this call"""
    return (fresh(db) and db.allow_properties is parser._allow_properties and db.sql_renderer is parser._sql_renderer
            and db.dbml_renderer is parser._dbml_renderer and db_inv(db) and lists_distinct(db)
            and fresh(db.tables) and fresh(db.refs) and fresh(db.enums) and fresh(db.table_groups)
            and fresh(db.sticky_notes))


def tables_ready(parser):
    """what TableBlueprint.build needs of every table blueprint that is still to be built"""
    return all(table_ready(parser, t) for t in parser.tables)


def table_ready(parser, t):
    return (t.columns is not None
            and all(isinstance(c.type, str) and c.parser is parser for c in t.columns)
            and all(all(a == b or x is not y for b, y in enumerate(t.columns)) for a, x in enumerate(t.columns)))


def columns_private(parser):
    """no ColumnBlueprint object is a column of two table blueprints"""
    return all(all(a == b or ta.columns is None or tb.columns is None
                   or all(all(x is not y for y in tb.columns) for x in ta.columns)
                   for b, tb in enumerate(parser.tables)) for a, ta in enumerate(parser.tables))


def db_collections(db):
    return [loc_list(db.tables), loc_list(db.refs), loc_list(db.enums), loc_list(db.table_groups),
            loc_list(db.sticky_notes), field_at(db, 'project')]


def enums_built(parser, n):
    return (len(parser.database.enums) == n
            and all(parser.database.enums[j].name == parser.enums[j].name
                    and parser.database.enums[j].schema == parser.enums[j].schema for j in range(n)))


def tables_built(parser, n):
    return (len(parser.database.tables) == n
            and all(parser.database.tables[j].name == parser.tables[j].name
                    and parser.database.tables[j].schema == parser.tables[j].schema for j in range(n)))


def tied(parser):
    return (all(g.parser is parser for g in parser.table_groups) and all(r.parser is parser for r in parser.refs))


def parser_lists_distinct(p):
    return (p.refs is not p.tables and p.refs is not p.enums and p.refs is not p.table_groups
            and p.refs is not p.sticky_notes and p.refs is not p.ref_blueprints and p.tables is not p.enums
            and p.tables is not p.table_groups and p.tables is not p.sticky_notes and p.tables is not p.ref_blueprints
            and p.enums is not p.table_groups and p.enums is not p.sticky_notes and p.enums is not p.ref_blueprints
            and p.table_groups is not p.sticky_notes and p.table_groups is not p.ref_blueprints
            and p.sticky_notes is not p.ref_blueprints)


@contract('pydbml.parser.parser:PyDBMLParser.build_database')
class build_database:
    """The second phase (C01, C05, C12, C15, C16): a new Database configured with the parser's options receives,
    in this order, one enum per enum blueprint, one table per table blueprint, the groups, the sticky notes, the
    project and one reference per reference blueprint; the representation invariant of the database holds at the
    end; a rule violation surfaces as one of the library's exceptions (C06).  Five loops verified by invariant."""
    properties = ('C01',)           # also serves C05/C12/C15/C16; listed once: the proof runs 20-45 min
    tier = 'thorough'
    min_timeout_ms = 30000          # the verdicts must not flip when the machine is busy
    explore_budget_s = 1500
    params = {'self': 'PyDBMLParser'}
    allowed = ('DatabaseValidationError', 'TableNotFoundError', 'ColumnNotFoundError', 'ValidationError', 'RuntimeError')

    def requires_lists(self):
        return parser_lists_distinct(self)

    def requires_tables_ready(self):
        return tables_ready(self)

    def requires_tied(self):
        return tied(self)

    def modifies(self):
        return [field_at(self, 'database'), loc_list(self.ref_blueprints),
                loc_cls(ColumnBlueprint, 'type'), loc_cls(ColumnBlueprint, 'default'),
                loc_cls(ReferenceBlueprint, 'schema1'), loc_cls(ReferenceBlueprint, 'table1'),
                loc_cls(ReferenceBlueprint, 'col1')]

    def requires_private_columns(self):
        return columns_private(self)

    # every loop calls Database.add, whose frame is the five collections and the project slot
    def loop0_modifies(self):
        return db_collections(self.database)

    def loop1_modifies(self):
        return db_collections(self.database) + [
            loc_list(self.ref_blueprints), loc_cls(ColumnBlueprint, 'type'), loc_cls(ColumnBlueprint, 'default'),
            loc_cls(ReferenceBlueprint, 'schema1'), loc_cls(ReferenceBlueprint, 'table1'),
            loc_cls(ReferenceBlueprint, 'col1')]

    def loop2_modifies(self):
        return db_collections(self.database)

    def loop3_modifies(self):
        return db_collections(self.database)

    def loop4_modifies(self):
        return db_collections(self.database)

    # -- enums
    def loop0_invariant(self, i):
        return (db_configured(self, self.database) and parser_lists_distinct(self) and tied(self)
                and tables_ready(self) and columns_private(self)
                and enums_built(self, i)
                and len(self.database.tables) == 0 and len(self.database.refs) == 0
                and len(self.database.table_groups) == 0 and len(self.database.sticky_notes) == 0
                and self.database.project is None)

    # -- tables
    def loop1_invariant(self, i):
        return (db_configured(self, self.database) and parser_lists_distinct(self) and tied(self)
                and columns_private(self)
                and all(j < i or table_ready(self, self.tables[j]) for j in range(len(self.tables)))
                and enums_built(self, len(self.enums)) and tables_built(self, i)
                and len(self.database.refs) == 0 and len(self.database.table_groups) == 0
                and len(self.database.sticky_notes) == 0 and self.database.project is None)

    # -- table groups
    def loop2_invariant(self, i):
        return (db_configured(self, self.database) and parser_lists_distinct(self) and tied(self)
                and enums_built(self, len(self.enums)) and tables_built(self, len(self.tables))
                and len(self.database.table_groups) == i
                and len(self.database.refs) == 0 and len(self.database.sticky_notes) == 0
                and self.database.project is None)

    # -- sticky notes
    def loop3_invariant(self, i):
        return (db_configured(self, self.database) and parser_lists_distinct(self) and tied(self)
                and enums_built(self, len(self.enums)) and tables_built(self, len(self.tables))
                and len(self.database.table_groups) == len(self.table_groups)
                and len(self.database.sticky_notes) == i
                and len(self.database.refs) == 0 and self.database.project is None)

    # -- references
    def loop4_invariant(self, i):
        return (db_configured(self, self.database) and parser_lists_distinct(self) and tied(self)
                and enums_built(self, len(self.enums)) and tables_built(self, len(self.tables))
                and len(self.database.table_groups) == len(self.table_groups)
                and len(self.database.sticky_notes) == len(self.sticky_notes)
                and (self.database.project is None) == (self.project is None)
                and len(self.database.refs) == i)

    def ensures_configured(self, result):
        return db_configured(self, self.database)

    def ensures_enums(self, result):
        return enums_built(self, len(self.enums))

    def ensures_tables(self, result):
        return tables_built(self, len(self.tables))

    def ensures_counts(self, result):
        return (len(self.database.table_groups) == len(self.table_groups)
                and len(self.database.sticky_notes) == len(self.sticky_notes)
                and (self.database.project is None) == (self.project is None)
                and len(self.database.refs) == len(self.refs))
