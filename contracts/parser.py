"""Contracts for pydbml/parser/parser.py entry points (C12) and small parser methods (C05, C06, C15, C16)."""
from pyvc.verify import contract, loc, loc_list
from pyvc.speclib import fresh, old, abstract
from pathlib import Path
from io import TextIOWrapper
from pydbml.parser.parser import PyDBML, PyDBMLParser
from pydbml.renderer.sql.default import DefaultSQLRenderer
from pydbml.renderer.dbml.default import DefaultDBMLRenderer
from pydbml.tools import remove_bom


@abstract('Database', heap=False)
def parse_of(source, allow_properties, sql_renderer, dbml_renderer):
    """the database that PyDBMLParser(source, options).parse() returns (or the exception it raises):
    the single funnel every entry point must go through"""
    return PyDBMLParser(source, allow_properties=allow_properties, sql_renderer=sql_renderer,
                        dbml_renderer=dbml_renderer).parse()


@abstract('str', heap=False)
def text_of(source):
    """the text read from a path (utf8) or from an open text stream"""
    if isinstance(source, TextIOWrapper):
        return source.read()
    with open(source, encoding='utf8') as f:
        return f.read()


def strip_one_bom(text):
    return text[1:] if text[:1] == '﻿' else text


@contract('pydbml.tools:remove_bom')
class c_remove_bom:
    properties = ('C12',)
    params = {'source': 'str'}
    pure = True
    ret = 'str'

    def returns(source):
        return strip_one_bom(source)

    def ensures_one_bom(source, result):
        return result == strip_one_bom(source)


@contract('pydbml.parser.parser:PyDBMLParser.__init__')
class parser_init:
    properties = ('C11', 'C12', 'C15', 'C16')
    params = {'self': 'PyDBMLParser', 'source': 'str', 'allow_properties': 'bool', 'sql_renderer': 'Cls',
              'dbml_renderer': 'Cls'}

    def modifies(self, source, allow_properties, sql_renderer, dbml_renderer):
        return [loc(self, 'database'), loc(self, 'ref_blueprints'), loc(self, 'table_groups'), loc(self, 'source'),
                loc(self, 'tables'), loc(self, 'refs'), loc(self, 'enums'), loc(self, 'project'),
                loc(self, 'sticky_notes'), loc(self, '_allow_properties'), loc(self, '_sql_renderer'),
                loc(self, '_dbml_renderer')]

    def ensures_options(self, source, allow_properties, sql_renderer, dbml_renderer, result):
        return (self.source == source and self._allow_properties is allow_properties
                and self._sql_renderer is sql_renderer and self._dbml_renderer is dbml_renderer
                and self.database is None and self.project is None)

    def ensures_fresh_empty_lists(self, source, allow_properties, sql_renderer, dbml_renderer, result):
        # C11: nothing is shared with earlier parsers
        return (fresh(self.tables) and fresh(self.refs) and fresh(self.enums) and fresh(self.table_groups)
                and fresh(self.sticky_notes) and fresh(self.ref_blueprints)
                and len(self.tables) == 0 and len(self.refs) == 0 and len(self.enums) == 0
                and len(self.table_groups) == 0 and len(self.sticky_notes) == 0 and len(self.ref_blueprints) == 0)


@contract('pydbml.parser.parser:PyDBMLParser.parse')
class parser_parse:
    """Abstracted at its call sites as the funnel parse_of(source, options)."""
    tier = 'none'
    params = {'self': 'PyDBMLParser'}
    ret = 'Database'
    allowed = ('Exception',)

    def modifies(self):
        return [loc(self, 'database'), loc(self, '_syntax'), loc_list(self.tables), loc_list(self.refs),
                loc_list(self.enums), loc_list(self.table_groups), loc_list(self.sticky_notes),
                loc_list(self.ref_blueprints), loc(self, 'project')]

    def returns(self):
        return parse_of(old(self.source), old(self._allow_properties), old(self._sql_renderer), old(self._dbml_renderer))


@contract('pydbml.parser.parser:PyDBML.parse')
class pydbml_parse:
    properties = ('C12', 'C15', 'C16')
    params = {'text': 'str', 'allow_properties': 'bool', 'sql_renderer': 'Cls', 'dbml_renderer': 'Cls'}
    ret = 'Database'
    allowed = ('Exception',)

    def modifies(text, allow_properties, sql_renderer, dbml_renderer):
        return []

    def returns(text, allow_properties, sql_renderer, dbml_renderer):
        return parse_of(strip_one_bom(text), allow_properties, sql_renderer, dbml_renderer)

    def ensures_funnel(text, allow_properties, sql_renderer, dbml_renderer, result):
        return result is parse_of(strip_one_bom(text), allow_properties, sql_renderer, dbml_renderer)


@contract('pydbml.parser.parser:PyDBML.parse_file')
class pydbml_parse_file:
    properties = ('C12',)
    params = {'file': 'Union[str,Path,TextIOWrapper]'}
    ret = 'Database'
    allowed = ('Exception',)

    def modifies(file):
        return []

    def ensures_funnel(file, result):
        return result is parse_of(strip_one_bom(text_of(file)), False, DefaultSQLRenderer, DefaultDBMLRenderer)


@contract('pydbml.parser.parser:PyDBML.__new__')
class pydbml_new:
    """Every supported source kind goes through the same funnel with exactly one leading BOM removed
    and the options forwarded; no source gives a bare instance; any other source type is refused
    before anything is parsed."""
    properties = ('C12', 'C15', 'C16')
    params = {'cls': PyDBML, 'source_': 'Union[None,str,Path,TextIOWrapper,OtherSource,int,bool]',
              'allow_properties': 'bool', 'sql_renderer': 'Cls', 'dbml_renderer': 'Cls'}
    allowed = ('Exception',)

    def modifies(cls, source_, allow_properties, sql_renderer, dbml_renderer):
        return []

    def raises_TypeError(cls, source_, allow_properties, sql_renderer, dbml_renderer):
        return source_ is not None and not isinstance(source_, str) and not isinstance(source_, Path) \
            and not isinstance(source_, TextIOWrapper)

    def ensures_instance_when_no_source(cls, source_, allow_properties, sql_renderer, dbml_renderer, result):
        return source_ is not None or (isinstance(result, PyDBML) and fresh(result))

    def ensures_funnel_str(cls, source_, allow_properties, sql_renderer, dbml_renderer, result):
        return not isinstance(source_, str) or \
            result is parse_of(strip_one_bom(source_), allow_properties, sql_renderer, dbml_renderer)

    def ensures_funnel_file(cls, source_, allow_properties, sql_renderer, dbml_renderer, result):
        return not (isinstance(source_, Path) or isinstance(source_, TextIOWrapper)) or \
            result is parse_of(strip_one_bom(text_of(source_)), allow_properties, sql_renderer, dbml_renderer)
