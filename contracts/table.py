"""Contracts for pydbml/_classes/table.py (C09 one level down, C05 back-pointers, C17 refusals)."""
from pyvc.verify import contract, loc, loc_list, loc_each
from pyvc.speclib import fresh, old, abstract
from pydbml.classes import Column, Index, Table, Expression
from contracts.database import appended, removed_at, same_list


def cols_inv(t):
    return all(c.table is t for c in t.columns)


def idx_inv(t):
    return all(i.table is t for i in t.indexes)


def tbl_inv(t):
    """Every listed column and index points back to the table."""
    return cols_inv(t) and idx_inv(t)


def not_listed(xs, x):
    return all(y is not x for y in xs)


@contract('pydbml._classes.table:Table.full_name')
class full_name:
    inline = True


@contract('pydbml._classes.table:Table.note')
class note_getter:
    inline = True


@contract('pydbml._classes.table:Table.note.setter')
class note_setter:
    properties = ('C05',)
    params = {'self': 'Table', 'val': 'Note'}

    def modifies(self, val):
        return [loc(self, '_note'), loc(val, 'parent')]

    def ensures_linked(self, val, result):
        return self.note is val and val.parent is self


@contract('pydbml._classes.table:Table.add_column')
class add_column:
    properties = ('C09', 'C05')
    params = {'self': 'Table', 'c': 'Union[Column,Index,str,int,None]'}

    def requires_inv(self, c):
        # the column half of the table invariant (the constructor calls this before `indexes` exists)
        return cols_inv(self)

    def requires_not_listed_twice(self, c):
        # adding the very same object twice is the listed known finding C09.B.table-level:double-add
        return not isinstance(c, Column) or not_listed(self.columns, c)

    def raises_TypeError(self, c):
        return not isinstance(c, Column)

    def modifies(self, c):
        return [loc(c, 'table'), loc_list(self.columns)]

    def ensures_owner(self, c, result):
        return c.table is self

    def ensures_appended(self, c, result):
        return appended(self.columns, old(self.columns), c)

    def ensures_inv(self, c, result):
        return cols_inv(self)

    def ensures_indexes_untouched(self, c, result):
        # with the frame (only c.table and the column list change) the index half is preserved
        return not old(idx_inv(self)) or idx_inv(self)


@contract('pydbml._classes.table:Table.delete_column')
class delete_column:
    properties = ('C09', 'C17')
    params = {'self': 'Table', 'c': 'Union[Column,int]'}

    def requires_inv(self, c):
        return tbl_inv(self)

    def requires_distinct(self, c):
        return all(all(i == j or a is not b for j, b in enumerate(self.columns)) for i, a in enumerate(self.columns))

    def raises_ColumnNotFoundError(self, c):
        return isinstance(c, Column) and c not in self.columns

    def raises_IndexError(self, c):
        return isinstance(c, int) and not (-len(self.columns) <= c < len(self.columns))

    def modifies(self, c):
        return [loc_each(self.columns, 'table'), loc_list(self.columns)]

    def ensures_was_listed(self, c, result):
        return result in old(self.columns) and (not isinstance(c, Column) or result is c or result == c)

    def ensures_detached(self, c, result):
        return result.table is None

    def ensures_removed(self, c, result):
        return any(old(self.columns)[k] is result and removed_at(self.columns, old(self.columns), k)
                   for k in range(len(old(self.columns))))

    def ensures_by_position(self, c, result):
        return not isinstance(c, int) or result is old(self.columns)[c if c >= 0 else len(old(self.columns)) + c]

    def ensures_inv(self, c, result):
        return tbl_inv(self)


@contract('pydbml._classes.table:Table.add_index')
class add_index:
    properties = ('C09', 'C05')
    params = {'self': 'Table', 'i': 'Union[Index,Column,str,int,None]'}

    def requires_inv(self, i):
        return idx_inv(self)

    def requires_not_listed_twice(self, i):
        return not isinstance(i, Index) or not_listed(self.indexes, i)

    def raises_TypeError(self, i):
        return not isinstance(i, Index)

    def raises_ColumnNotFoundError(self, i):
        # an index over a foreign column is refused
        return isinstance(i, Index) and any(isinstance(s, Column) and s.table is not self for s in i.subjects)

    def modifies(self, i):
        return [loc(i, 'table'), loc_list(self.indexes)]

    def ensures_owner(self, i, result):
        return i.table is self

    def ensures_appended(self, i, result):
        return appended(self.indexes, old(self.indexes), i)

    def ensures_subjects_own(self, i, result):
        return all(not isinstance(s, Column) or s.table is self for s in i.subjects)

    def ensures_inv(self, i, result):
        return idx_inv(self)

    def ensures_columns_untouched(self, i, result):
        return not old(cols_inv(self)) or cols_inv(self)


@contract('pydbml._classes.table:Table.delete_index')
class delete_index:
    properties = ('C09',)
    params = {'self': 'Table', 'i': 'Union[Index,int]'}

    def requires_inv(self, i):
        return tbl_inv(self)

    def requires_distinct(self, i):
        return all(all(a == b or x is not y for b, y in enumerate(self.indexes)) for a, x in enumerate(self.indexes))

    def raises_IndexNotFoundError(self, i):
        return isinstance(i, Index) and i not in self.indexes

    def raises_IndexError(self, i):
        return isinstance(i, int) and not (-len(self.indexes) <= i < len(self.indexes))

    def modifies(self, i):
        return [loc_each(self.indexes, 'table'), loc_list(self.indexes)]

    def ensures_was_listed(self, i, result):
        return result in old(self.indexes) and (not isinstance(i, Index) or result is i or result == i)

    def ensures_detached(self, i, result):
        return result.table is None

    def ensures_removed(self, i, result):
        return any(old(self.indexes)[k] is result and removed_at(self.indexes, old(self.indexes), k)
                   for k in range(len(old(self.indexes))))

    def ensures_inv(self, i, result):
        return tbl_inv(self)


@abstract('Column')
def column_at(table, k):
    """the column Table.__getitem__ answers with (a name for its result; what it is, is the ensures below)"""
    return table[k]


@contract('pydbml._classes.table:Table.__getitem__')
class tbl_getitem:
    returns_defines = True
    assume_at_call = ('ensures_int', 'ensures_str')

    def returns(self, k):
        return column_at(self, k)

    # C01: ReferenceBlueprint.build and IndexBlueprint.build resolve column names through this lookup
    properties = ('C09', 'C05', 'C06', 'C01')
    params = {'self': 'Table', 'k': 'Union[int,str,None]'}
    pure = True
    ret = 'Column'

    def raises_ColumnNotFoundError(self, k):
        return isinstance(k, str) and not any(c.name == k for c in self.columns)

    def raises_IndexError(self, k):
        return isinstance(k, int) and not (-len(self.columns) <= k < len(self.columns))

    def raises_TypeError(self, k):
        return not isinstance(k, int) and not isinstance(k, str)

    def ensures_int(self, k, result):
        return not isinstance(k, int) or result is self.columns[k if k >= 0 else len(self.columns) + k]

    def ensures_str(self, k, result):
        # the first listed column with that name: an element of the list itself, not a copy
        return not isinstance(k, str) or any(
            self.columns[j] is result and result.name == k and all(self.columns[m].name != k for m in range(j))
            for j in range(len(self.columns)))


@contract('pydbml._classes.table:Table.get')
class tbl_get:
    properties = ('C09',)
    params = {'self': 'Table', 'k': 'Union[int,str]', 'default': 'Optional[Column]'}
    pure = True

    def ensures_found_or_default(self, k, default, result):
        return (result is default and ((isinstance(k, str) and not any(c.name == k for c in self.columns))
                                       or (isinstance(k, int) and not (-len(self.columns) <= k < len(self.columns))))) \
            or (result is not None and result in self.columns and (not isinstance(k, str) or result.name == k))


@contract('pydbml._classes.table:Table.__iter__')
class tbl_iter:
    properties = ('C09',)
    params = {'self': 'Table'}
    pure = True

    def ensures_lists_columns(self, result):
        return same_list(list(result), self.columns)


@contract('pydbml._classes.table:Table._has_composite_pk')
class has_composite_pk:
    inline = True


@contract('pydbml._classes.table:Table.__init__')
class tbl_init:
    """Every call shape: without columns/indexes (the parser's) and with lists of distinct, free-standing
    columns and indexes (Reference.join_table, client code).  The two construction loops are verified by
    invariant: after i rounds the first i given objects are listed, in order, and point back to the table."""
    properties = ('C09', 'C05', 'C01', 'C11')
    params = {'self': 'Table', 'name': 'Optional[str]', 'schema': 'Optional[str]', 'alias': 'Optional[str]',
              'columns': 'Optional[List[Column]]', 'indexes': 'Optional[List[Index]]', 'note': 'Union[None,Note,str]',
              'header_color': 'Optional[str]', 'comment': 'Optional[str]', 'abstract': 'bool',
              'properties': 'Optional[Dict[str]]'}
    # an index over a column of another table is refused by add_index: possible only when indexes are given

    def maybe_ColumnNotFoundError(self, name, schema, alias, columns, indexes, note, header_color, comment, abstract, properties):
        return indexes is not None and len(indexes) > 0

    def requires_distinct_columns(self, name, schema, alias, columns, indexes, note, header_color, comment, abstract, properties):
        return columns is None or all(all(a == b or x is not y for b, y in enumerate(columns)) for a, x in enumerate(columns))

    def requires_distinct_indexes(self, name, schema, alias, columns, indexes, note, header_color, comment, abstract, properties):
        return indexes is None or all(all(a == b or x is not y for b, y in enumerate(indexes)) for a, x in enumerate(indexes))

    def modifies(self, name, schema, alias, columns, indexes, note, header_color, comment, abstract, properties):
        return [loc(self, 'database'), loc(self, 'name'), loc(self, 'schema'), loc(self, 'columns'),
                loc(self, 'indexes'), loc(self, 'alias'), loc(self, '_note'), loc(self, 'header_color'),
                loc(self, 'comment'), loc(self, 'abstract'), loc(self, 'properties')] + \
            ([loc_each(columns, 'table')] if columns is not None else []) + \
            ([loc_each(indexes, 'table')] if indexes is not None else [])

    def loop0_modifies(self, name, schema, alias, columns, indexes, note, header_color, comment, abstract, properties):
        return [loc_list(self.columns), loc_each(columns, 'table')]

    def loop0_invariant(self, name, schema, alias, columns, indexes, note, header_color, comment, abstract, properties, i):
        return (fresh(self.columns) and len(self.columns) == i
                and all(self.columns[j] is columns[j] and columns[j].table is self for j in range(i))
                and self.database is None and self.name is name and self.schema is schema)

    def loop1_modifies(self, name, schema, alias, columns, indexes, note, header_color, comment, abstract, properties):
        return [loc_list(self.indexes), loc_each(indexes, 'table')]

    def loop1_invariant(self, name, schema, alias, columns, indexes, note, header_color, comment, abstract, properties, i):
        return (fresh(self.indexes) and fresh(self.columns) and self.indexes is not self.columns and len(self.indexes) == i
                and all(self.indexes[j] is indexes[j] and indexes[j].table is self for j in range(i))
                and self.database is None and self.name is name and self.schema is schema
                and len(self.columns) == (len(columns) if columns is not None else 0)
                and all(self.columns[j] is columns[j] and columns[j].table is self for j in range(len(self.columns))))

    def ensures_fields(self, name, schema, alias, columns, indexes, note, header_color, comment, abstract, properties, result):
        return (self.name is name and self.schema is schema and self.header_color is header_color
                and self.comment is comment and self.abstract is abstract and self.database is None
                and self.alias == (alias if alias else None))

    def ensures_columns(self, name, schema, alias, columns, indexes, note, header_color, comment, abstract, properties, result):
        return (fresh(self.columns) and len(self.columns) == (len(columns) if columns is not None else 0)
                and all(self.columns[j] is columns[j] for j in range(len(self.columns))))

    def ensures_indexes(self, name, schema, alias, columns, indexes, note, header_color, comment, abstract, properties, result):
        return (fresh(self.indexes) and len(self.indexes) == (len(indexes) if indexes is not None else 0)
                and all(self.indexes[j] is indexes[j] for j in range(len(self.indexes))))

    def ensures_note(self, name, schema, alias, columns, indexes, note, header_color, comment, abstract, properties, result):
        return fresh(self.note) and self.note.parent is self and \
            self.note.text == ('' if note is None else str(note))

    def ensures_properties(self, name, schema, alias, columns, indexes, note, header_color, comment, abstract, properties, result):
        # the caller's dict when it is non-empty, otherwise a dict of this call (never a shared default)
        return (self.properties is properties) if properties else (fresh(self.properties) and len(self.properties) == 0)

    def ensures_inv(self, name, schema, alias, columns, indexes, note, header_color, comment, abstract, properties, result):
        return tbl_inv(self)


# ------------------------------------------------------------------------------------------ references of a table
@contract('pydbml._classes.table:Table.get_refs')
class tbl_get_refs:
    """The references whose FIRST side is this table — the whole table is compared (schema, name, columns …),
    not just its name — in database order; refused when the table has no database (C17, C02)."""
    properties = ('C17', 'C02', 'C10')
    params = {'self': 'Table'}
    pure = True
    ret = 'List[Reference]'
    allowed = ('DBMLError', 'IndexError')       # a reference with an empty or mixed-table side (Reference._validate)

    returns_proved_by = 'ensures_exactly_these'

    def raises_UnknownDatabaseError(self):
        return self.database is None

    def returns(self):
        return [r for r in self.database.refs if r.col1[0].table == self]

    def ensures_exactly_these(self, result):
        return list(result) == [r for r in self.database.refs if r.col1[0].table == self]
