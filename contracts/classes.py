"""Contracts for the model-class constructors and small accessors (C01 field copying, C05 back-pointers,
C11 no shared defaults, C16 renderer choice)."""
from pyvc.verify import contract, loc, loc_list
from pyvc.speclib import fresh, old, abstract
from contracts.database import same_list
from pydbml.classes import (Column, Enum, EnumItem, Expression, Index, Note, Project, Reference, StickyNote,
                            Table, TableGroup)


# ------------------------------------------------------------------------------------------ Note & co
@contract('pydbml._classes.note:Note.__init__')
class note_init:
    properties = ('C01', 'C05', 'C13')
    params = {'self': 'Note', 'text': 'Union[None,str,Note]'}

    def modifies(self, text):
        return [loc(self, 'text'), loc(self, 'parent')]

    def ensures_text(self, text, result):
        return self.text == ('' if text is None else str(text)) and self.parent is None


@contract('pydbml._classes.note:Note.__str__')
class note_str:
    inline = True


@contract('pydbml._classes.note:Note.__bool__')
class note_bool:
    inline = True


@contract('pydbml._classes.expression:Expression.__init__')
class expression_init:
    properties = ('C01',)
    params = {'self': 'Expression', 'text': 'str'}

    def modifies(self, text):
        return [loc(self, 'text')]

    def ensures_text(self, text, result):
        return self.text == text


@contract('pydbml._classes.sticky_note:StickyNote.__init__')
class sticky_init:
    properties = ('C01',)
    params = {'self': 'StickyNote', 'name': 'str', 'text': 'Union[None,str]'}

    def modifies(self, name, text):
        return [loc(self, 'name'), loc(self, 'text'), loc(self, 'database')]

    def ensures_fields(self, name, text, result):
        return self.name == name and self.text == ('' if text is None else text) and self.database is None


# ------------------------------------------------------------------------------------------ Column
@contract('pydbml._classes.column:Column.__init__')
class column_init:
    """Every declared setting is stored as given (a default of 0 / False / '' included), the note is
    a Note of this call that points back to the column, the properties dict is the caller's or a new one."""
    properties = ('C01', 'C05', 'C11', 'C15')
    params = {'self': 'Column', 'name': 'Optional[str]', 'type': 'Union[None,str,Enum]', 'unique': 'bool',
              'not_null': 'bool', 'pk': 'bool', 'autoinc': 'bool',
              'default': 'Union[None,str,int,bool,float,Expression]', 'note': 'Union[None,Note,str]',
              'comment': 'Optional[str]', 'properties': 'Optional[Dict[str]]'}

    def modifies(self, name, type, unique, not_null, pk, autoinc, default, note, comment, properties):
        return [loc(self, 'name'), loc(self, 'type'), loc(self, 'unique'), loc(self, 'not_null'), loc(self, 'pk'),
                loc(self, 'autoinc'), loc(self, 'comment'), loc(self, '_note'), loc(self, 'properties'),
                loc(self, 'default'), loc(self, 'table')]

    def ensures_fields(self, name, type, unique, not_null, pk, autoinc, default, note, comment, properties, result):
        return (self.name is name and self.type is type and self.unique is unique and self.not_null is not_null
                and self.pk is pk and self.autoinc is autoinc and self.default is default
                and self.comment is comment and self.table is None)

    def ensures_note(self, name, type, unique, not_null, pk, autoinc, default, note, comment, properties, result):
        return fresh(self.note) and self.note.parent is self and self.note.text == ('' if note is None else str(note))

    def ensures_properties(self, name, type, unique, not_null, pk, autoinc, default, note, comment, properties, result):
        return (self.properties is properties) if properties else (fresh(self.properties) and len(self.properties) == 0)


@contract('pydbml._classes.column:Column.note')
class column_note_get:
    inline = True


@contract('pydbml._classes.column:Column.note.setter')
class column_note_set:
    properties = ('C05',)
    params = {'self': 'Column', 'val': 'Note'}

    def modifies(self, val):
        return [loc(self, '_note'), loc(val, 'parent')]

    def ensures_linked(self, val, result):
        return self.note is val and val.parent is self


@contract('pydbml._classes.column:Column.database')
class column_database:
    properties = ('C16', 'C05')
    params = {'self': 'Column'}
    pure = True

    def ensures_of_table(self, result):
        return result is (self.table.database if self.table is not None else None)


# ------------------------------------------------------------------------------------------ Index
@contract('pydbml._classes.index:Index.__init__')
class index_init:
    properties = ('C01', 'C05')
    params = {'self': 'Index', 'subjects': 'List[Union[str,Column,Expression]]', 'name': 'Optional[str]',
              'unique': 'bool', 'type': 'Optional[str]', 'pk': 'bool', 'note': 'Union[None,Note,str]',
              'comment': 'Optional[str]'}

    def modifies(self, subjects, name, unique, type, pk, note, comment):
        return [loc(self, 'subjects'), loc(self, 'table'), loc(self, 'name'), loc(self, 'unique'), loc(self, 'type'),
                loc(self, 'pk'), loc(self, '_note'), loc(self, 'comment')]

    def ensures_fields(self, subjects, name, unique, type, pk, note, comment, result):
        return (self.subjects is subjects and self.table is None and self.name == (name if name else None)
                and self.unique is unique and self.type is type and self.pk is pk and self.comment is comment)

    def ensures_note(self, subjects, name, unique, type, pk, note, comment, result):
        return fresh(self.note) and self.note.parent is self and self.note.text == ('' if note is None else str(note))


# ------------------------------------------------------------------------------------------ Enum
@contract('pydbml._classes.enum:EnumItem.__init__')
class enum_item_init:
    properties = ('C01', 'C05')
    params = {'self': 'EnumItem', 'name': 'Optional[str]', 'note': 'Union[None,Note,str]', 'comment': 'Optional[str]'}

    def modifies(self, name, note, comment):
        return [loc(self, 'name'), loc(self, '_note'), loc(self, 'comment')]

    def ensures_fields(self, name, note, comment, result):
        return self.name is name and self.comment is comment

    def ensures_note(self, name, note, comment, result):
        return fresh(self.note) and self.note.parent is self and self.note.text == ('' if note is None else str(note))


# ------------------------------------------------------------------------------------------ Reference
@contract('pydbml._classes.reference:Reference.__init__')
class reference_init:
    """The endpoints are the very Column objects given (in order), in lists of this call.  C04: the kind and the
    inline flag are stored exactly as declared (what decides "inline clause or ALTER" is computed from the *current*
    kind and flag by Reference.inline, so a later change of the kind cannot leave a stale decision behind)."""
    properties = ('C01', 'C05', 'C11', 'C04')
    params = {'self': 'Reference', 'type': 'Optional[str]', 'col1': 'Union[Column,List[Column]]',
              'col2': 'Union[Column,List[Column]]', 'name': 'Optional[str]', 'comment': 'Optional[str]',
              'on_update': 'Optional[str]', 'on_delete': 'Optional[str]', 'inline': 'bool'}

    def modifies(self, type, col1, col2, name, comment, on_update, on_delete, inline):
        return [loc(self, 'database'), loc(self, 'type'), loc(self, 'col1'), loc(self, 'col2'), loc(self, 'name'),
                loc(self, 'comment'), loc(self, 'on_update'), loc(self, 'on_delete'), loc(self, '_inline')]

    def ensures_fields(self, type, col1, col2, name, comment, on_update, on_delete, inline, result):
        return (self.database is None and self.type is type and self.name == (name if name else None)
                and self.comment is comment and self.on_update is on_update and self.on_delete is on_delete
                and self._inline is inline)

    def ensures_endpoints(self, type, col1, col2, name, comment, on_update, on_delete, inline, result):
        return (fresh(self.col1) and fresh(self.col2)
                and (not isinstance(col1, Column) or (len(self.col1) == 1 and self.col1[0] is col1))
                and (isinstance(col1, Column) or (len(self.col1) == len(col1) and all(self.col1[i] is col1[i] for i in range(len(col1)))))
                and (not isinstance(col2, Column) or (len(self.col2) == 1 and self.col2[0] is col2))
                and (isinstance(col2, Column) or (len(self.col2) == len(col2) and all(self.col2[i] is col2[i] for i in range(len(col2))))))


# ------------------------------------------------------------------------------------------ Project / TableGroup
@contract('pydbml._classes.project:Project.__init__')
class project_init:
    properties = ('C01', 'C05', 'C11')
    params = {'self': 'Project', 'name': 'str', 'items': 'Optional[Dict[str]]', 'note': 'Union[None,Note,str]',
              'comment': 'Optional[str]'}

    def modifies(self, name, items, note, comment):
        return [loc(self, 'database'), loc(self, 'name'), loc(self, 'items'), loc(self, '_note'), loc(self, 'comment')]

    def ensures_fields(self, name, items, note, comment, result):
        return self.database is None and self.name == name and self.comment is comment

    def ensures_items(self, name, items, note, comment, result):
        return (self.items is items) if items else (fresh(self.items) and len(self.items) == 0)

    def ensures_note(self, name, items, note, comment, result):
        return fresh(self.note) and self.note.parent is self and self.note.text == ('' if note is None else str(note))


@contract('pydbml._classes.table_group:TableGroup.__init__')
class table_group_init:
    properties = ('C01', 'C05')
    params = {'self': 'TableGroup', 'name': 'str', 'items': 'List[Table]', 'comment': 'Optional[str]',
              'note': 'Optional[Note]', 'color': 'Optional[str]'}

    def modifies(self, name, items, comment, note, color):
        return [loc(self, 'database'), loc(self, 'name'), loc(self, 'items'), loc(self, 'comment'), loc(self, '_note'),
                loc(self, 'color'), loc(note, 'parent')]

    def ensures_fields(self, name, items, comment, note, color, result):
        return (self.database is None and self.name == name and self.items is items and self.comment is comment
                and self.color is color and self.note is note)

    def ensures_note_parent(self, name, items, comment, note, color, result):
        # every note points back to its owner (C05)
        return note is None or note.parent is self


# ------------------------------------------------------------------------------------------ Enum (loop invariant)
@contract('pydbml._classes.enum:Enum.add_item')
class enum_add_item:
    """An EnumItem is appended itself; a string becomes a new item of that name (C01, C09)."""
    properties = ('C01', 'C09', 'C11')
    params = {'self': 'Enum', 'item': 'Union[EnumItem,str]'}

    def modifies(self, item):
        return [loc_list(self.items)]

    def ensures_appended(self, item, result):
        return (len(self.items) == len(old(self.items)) + 1
                and all(self.items[j] is old(self.items)[j] for j in range(len(old(self.items)))))

    def ensures_last(self, item, result):
        return (self.items[len(self.items) - 1] is item) if isinstance(item, EnumItem) else \
            (fresh(self.items[len(self.items) - 1]) and self.items[len(self.items) - 1].name == item)


@contract('pydbml._classes.enum:Enum.__init__')
class enum_init:
    """The items are the given EnumItem objects, in order, in a list of this call (C01, C05, C11)."""
    properties = ('C01', 'C05', 'C11')
    params = {'self': 'Enum', 'name': 'Optional[str]', 'items': 'List[EnumItem]', 'schema': 'Optional[str]',
              'comment': 'Optional[str]'}

    def requires_not_aliased(self, name, items, schema, comment):
        return True

    def modifies(self, name, items, schema, comment):
        return [loc(self, 'database'), loc(self, 'name'), loc(self, 'schema'), loc(self, 'comment'), loc(self, 'items')]

    def loop0_modifies(self, name, items, schema, comment):
        return [loc_list(self.items)]

    def loop0_invariant(self, name, items, schema, comment, i):
        return (fresh(self.items) and len(self.items) == i
                and all(self.items[j] is items[j] for j in range(i))
                and self.database is None and self.name is name and self.schema is schema and self.comment is comment)

    def ensures_fields(self, name, items, schema, comment, result):
        return self.database is None and self.name is name and self.schema is schema and self.comment is comment

    def ensures_items(self, name, items, schema, comment, result):
        return (fresh(self.items) and len(self.items) == len(items)
                and all(self.items[j] is items[j] for j in range(len(items))))


@contract('pydbml._classes.enum:Enum.__getitem__')
class enum_getitem:
    properties = ('C09',)
    params = {'self': 'Enum', 'key': 'int'}
    pure = True
    ret = 'EnumItem'

    def raises_IndexError(self, key):
        return not (-len(self.items) <= key < len(self.items))

    def ensures_positional(self, key, result):
        return result is self.items[key if key >= 0 else len(self.items) + key]


@contract('pydbml._classes.enum:Enum.__iter__')
class enum_iter:
    properties = ('C09',)
    params = {'self': 'Enum'}
    pure = True

    def ensures_lists_items(self, result):
        return same_list(list(result), self.items)


# ------------------------------------------------------------------------------------------ C16: x.sql / x.dbml
from pyvc.speclib import abstract
from pydbml.classes import StickyNote as _StickyNote, TableGroup as _TableGroup, Project as _Project
from pydbml.renderer.dbml.default import DefaultDBMLRenderer as _DBML
from pydbml.renderer.sql.default import DefaultSQLRenderer as _SQL


@abstract('str')
def render_via(R, model):
    """what the renderer class R gives for this element in the current heap"""
    return R.render(model)


def owner_database(x):
    """the database an element is attached to: a column's is its table's; tables, enums, references, groups, the
    project and sticky notes carry their own; the other element kinds are never attached"""
    return ((x.table.database if x.table is not None else None) if isinstance(x, Column) else
            (x.database if (isinstance(x, Table) or isinstance(x, Enum) or isinstance(x, Reference)
                            or isinstance(x, _TableGroup) or isinstance(x, _Project) or isinstance(x, _StickyNote))
             else None))


ELEMENT = 'Union[Table,Column,Enum,Reference,TableGroup,Project,StickyNote,Index,EnumItem,Note,Expression]'
