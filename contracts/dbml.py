"""Contracts for pydbml/renderer/dbml/default/* (C02 canonical text, C13 escaping sites, C14 comment
lines, C15 property gate, C16 dispatch and database pieces, C17 refusals).

As on the SQL side the composite renderers are specified over the *names* of their callees' results
(abstract functions), and the leaves over the model's attributes.  String escaping itself
(prepare_text_for_dbml) is a regular-expression substitution: it is named here (`escaped`) and its
correctness — the escaped text decodes to the stored text and cannot end its literal — is the
business of the lemmas in pyvc/lemmas.py and of the bounded obligation C13.B.sites."""
from textwrap import indent
from pyvc.verify import contract
from pyvc.speclib import fresh, old, abstract, matches, rx_plus, rx_cls, rx_alt, rx_seq, rx_opt, rx_lit, rx_star, rx_any
from pydbml.classes import (Column, Enum, EnumItem, Expression, Index, Note, Project, Reference, StickyNote,
                            Table, TableGroup)
from pydbml.renderer.dbml.default import DefaultDBMLRenderer as _DBML
from pydbml.exceptions import TableNotFoundError, DBMLError
from contracts.classes import render_via, owner_database, ELEMENT


# what a DBML element renderer may refuse a degenerate model with (C17): a reference side that is empty or mixes
# tables, a column or table that is detached, a multi-line name that cannot be double-quoted, an index without subject
REFUSALS = ('DBMLError', 'IndexError', 'UnknownDatabaseError', 'TableNotFoundError', 'ValueError')


# ------------------------------------------------------------------------------------------ names for callee results
@abstract('str', heap=False)
def escaped(text):
    """prepare_text_for_dbml(text): backslashes and single quotes escaped"""
    from pydbml.renderer.dbml.default.utils import prepare_text_for_dbml as f
    return f(text)


@abstract('str', heap=False)
def bare_or_quoted_name(name):
    from pydbml.renderer.dbml.default.utils import quote_name_if_needed as f
    return f(name)


@abstract('str', heap=False)
def bare_or_quoted_type(t):
    from pydbml.renderer.dbml.default.utils import quote_type_if_needed as f
    return f(t)


@abstract('str', heap=False)
def doublequoted(name):
    from pydbml.tools import doublequote_string as f
    return f(name)


@abstract('str')
def rendered_dbml(model):
    """what DefaultDBMLRenderer.render gives for this element in the current heap"""
    return _DBML.render(model)


@abstract('str')
def dbml_of(model):
    """model.dbml: the element rendered through the renderer class its database is configured with"""
    return model.dbml


def dbml_comment(text):
    return '\n'.join('// ' + line for line in text.split('\n')) + '\n'


def dbml_name(m):
    return ('"' + m.name + '"') if m.schema == 'public' else ('"' + m.schema + '"."' + m.name + '"')


def quoted(text):
    """'''-block for multi-line text, '...' otherwise, always through the escaping helper (C13)"""
    return ("'''\n" + escaped(text) + "'''") if '\n' in text else ("'" + escaped(text) + "'")


def note_option(note):
    return ("note: '''" + escaped(note.text) + "'''") if '\n' in note.text else ("note: '" + escaped(note.text) + "'")


# ------------------------------------------------------------------------------------------ helpers under contract
@contract('pydbml.renderer.dbml.default.utils:prepare_text_for_dbml')
class prepare_text_for_dbml:
    tier = 'none'            # a regex substitution: named, not verified here (lemmas + C13.B.sites)
    params = {'text': 'str'}
    pure = True
    ret = 'str'

    def returns(text):
        return escaped(text)


# The bare spellings, written from the property (C02: what is written bare must be read back as the same name or
# type) and from the DBML documentation, not from the pattern text in /repo: a bare identifier is a non-empty word
# of ASCII letters, digits and underscores (the grammar's identifier token, pinned by S.string-tokens); a bare type
# is such a word, optionally followed by a parenthesised argument text or by "[]", or two words joined by one dot.
WORD = rx_plus(rx_cls('a-z', 'A-Z', '0-9', '_'))
BARE_TYPE = rx_alt(rx_seq(WORD, rx_opt(rx_alt(rx_seq(rx_lit('('), rx_star(rx_any()), rx_lit(')')), rx_lit('[]')))),
                   rx_seq(WORD, rx_lit('.'), WORD))


@contract('pydbml.renderer.dbml.default.utils:quote_name_if_needed')
class quote_name_if_needed:
    """the pattern in the real function is translated mechanically (pyvc/regex.py) and proved to accept exactly
    WORD; every other name is wrapped in double quotes unchanged"""
    returns_defines = True
    properties = ('C02', 'C08')
    params = {'name': 'str'}
    pure = True
    ret = 'str'

    def returns(name):
        return bare_or_quoted_name(name)

    def ensures_bare_iff_word(name, result):
        return result == (name if matches(name, WORD) else '"' + name + '"')


@contract('pydbml.renderer.dbml.default.utils:quote_type_if_needed')
class quote_type_if_needed:
    returns_defines = True
    properties = ('C02', 'C08')
    params = {'type_': 'str'}
    pure = True
    ret = 'str'

    def returns(type_):
        return bare_or_quoted_type(type_)

    def ensures_bare_iff_simple_type(type_, result):
        return result == (type_ if matches(type_, BARE_TYPE) else '"' + type_ + '"')


@contract('pydbml.tools:doublequote_string')
class doublequote_string:
    returns_defines = True     # the abstract name IS this function's result; its content is the ensures below
    properties = ('C02', 'C08')
    params = {'source': 'str'}
    pure = True
    ret = 'str'

    def raises_ValueError(source):
        return '\n' in source

    def returns(source):
        return doublequoted(source)

    def ensures_quoted(source, result):
        return result == '"' + source.strip('"').replace('"', '\\"') + '"'


@contract('pydbml.renderer.dbml.default.utils:comment_to_dbml')
class comment_to_dbml:
    properties = ('C14',)
    params = {'val': 'str'}
    pure = True
    ret = 'str'

    def returns(val):
        return dbml_comment(val)

    def ensures_every_line_prefixed(val, result):
        return result == dbml_comment(val)


@contract('pydbml.renderer.dbml.default.utils:quote_string')
class quote_string:
    properties = ('C13', 'C02')
    params = {'text': 'str'}
    pure = True
    ret = 'str'

    def returns(text):
        return quoted(text)

    def ensures_literal(text, result):
        return result == quoted(text)


@contract('pydbml.renderer.dbml.default.utils:note_option_to_dbml')
class note_option_to_dbml:
    properties = ('C13', 'C02')
    params = {'note': 'Note'}
    pure = True
    ret = 'str'

    def returns(note):
        return note_option(note)

    def ensures_literal(note, result):
        return result == note_option(note)


@contract('pydbml.renderer.dbml.default.table:get_full_name_for_dbml')
class get_full_name_for_dbml:
    properties = ('C02',)
    params = {'model': 'Union[Table,Enum]'}
    pure = True
    ret = 'str'

    def requires_named(model):
        return model.name is not None and model.schema is not None

    def returns(model):
        return dbml_name(model)

    def ensures_always_quoted(model, result):
        return result == dbml_name(model)


# ------------------------------------------------------------------------------------------ leaves
@contract('pydbml.renderer.dbml.default.expression:render_expression')
class render_expression:
    properties = ('C02', 'C13')
    params = {'model': 'Expression'}
    pure = True
    ret = 'str'

    def ensures_backticks(model, result):
        return result == '`' + model.text + '`'


@contract('pydbml.renderer.dbml.default.note:render_note')
class render_note:
    properties = ('C02', 'C13')
    params = {'model': 'Note'}
    pure = True
    ret = 'str'

    def ensures_block(model, result):
        return result == 'Note {\n' + indent(quoted(model.text), '    ') + '\n}'


@contract('pydbml.renderer.dbml.default.sticky_note:render_sticky_note')
class render_sticky_note:
    properties = ('C02', 'C13')
    params = {'model': 'StickyNote'}
    pure = True
    ret = 'str'

    def ensures_block(model, result):
        return result == 'Note ' + bare_or_quoted_name(model.name) + ' {\n' + indent(quoted(model.text), '    ') + '\n}'


@contract('pydbml.renderer.dbml.default.enum:render_enum_item')
class render_enum_item:
    properties = ('C02', 'C14')
    params = {'model': 'EnumItem'}
    pure = True
    ret = 'str'

    def requires_named(model):
        return model.name is not None

    def ensures_item(model, result):
        return result == ((dbml_comment(model.comment) if model.comment else '') + '"' + model.name + '"'
                          + ((' [' + note_option(model.note) + ']') if model.note.text else ''))


@contract('pydbml.renderer.dbml.default.enum:render_enum')
class render_enum:
    allowed = REFUSALS         # the element renderers' refusals of degenerate models propagate (C17)
    properties = ('C02', 'C14', 'C16')
    params = {'model': 'Enum'}
    pure = True
    ret = 'str'

    def requires_named(model):
        return model.name is not None and model.schema is not None

    def ensures_block(model, result):
        return result == ((dbml_comment(model.comment) if model.comment else '')
                          + 'Enum ' + dbml_name(model) + ' {\n'
                          + indent('\n'.join(rendered_dbml(i) for i in model.items), '    ') + '\n}')


@contract('pydbml.renderer.base:BaseRenderer.render')
class dbml_render:
    # only for the DBML renderer class; the SQL class has its own contract (contracts/sql.py) and any
    # other class is inlined
    applies = staticmethod(lambda args: args and args[0].k == 'const' and args[0].py is _DBML)
    """BaseRenderer.render reached through the DBML renderer class: the registered handler of the
    element's exact type, or '' for a type without handler (C16).  Named rendered_dbml at call sites."""
    tier = 'none'
    params = {'cls': _DBML, 'model': 'Any'}
    pure = True
    ret = 'str'
    # (assumed to return: the refusals of degenerate models it lets through — REFUSALS — are accounted for in the
    # contracts of all its callers, which allow them, and by the callers' run-time twins on the real code)

    def returns(cls, model):
        return rendered_dbml(model)


# ------------------------------------------------------------------------------------------ C16: which renderer
@contract('pydbml._classes.base:DBMLObject.dbml')
class dbmlobject_dbml:
    """x.dbml is R.render(x) with R the dbml_renderer of the database x is attached to — whatever that database
    contains, an empty one included (for a column: its table's database) — and the default renderer class when x is
    attached to none (C16).  `dbml_of(x)` is the name of the result at call sites; what it is, is the ensures."""
    returns_defines = True
    properties = ('C16',)
    params = {'self': ELEMENT}
    pure = True
    ret = 'str'
    allowed = REFUSALS

    def requires_typed_column(self):
        # a column without a type is outside the typed model (the SQL side refuses it with AttributeMissingError;
        # the DBML column renderer has nothing to write for it)
        return not isinstance(self, Column) or self.type is not None

    def returns(self):
        return dbml_of(self)

    def ensures_configured_renderer(self, result):
        return result == (render_via(owner_database(self).dbml_renderer, self) if owner_database(self) is not None
                          else rendered_dbml(self))


# ------------------------------------------------------------------------------------------ columns
def default_text(val):
    return (val.lower() if (val.lower() == 'null' or val.lower() == 'true' or val.lower() == 'false')
            else "'" + escaped(val) + "'") if isinstance(val, str) else (dbml_of(val) if isinstance(val, Expression) else str(val))


@contract('pydbml.renderer.dbml.default.column:default_to_str')
class default_to_str:
    allowed = REFUSALS         # the element renderers' refusals of degenerate models propagate (C17)
    properties = ('C02', 'C13')
    params = {'val': 'Union[str,int,bool,float,Expression]'}
    pure = True
    ret = 'str'

    def returns(val):
        return default_text(val)

    def ensures_literal_kind(val, result):
        return result == default_text(val)


@abstract('List[Reference]')
def refs_of_column(c):
    return c.get_refs()


@contract('pydbml._classes.column:Column.get_refs')
class column_get_refs:
    """The references of the column's table (by its first side) in which this column is one of the first-side
    columns; refused when the column has no table (C17).  The result is *named* refs_of_column(c) for callers."""
    properties = ('C17', 'C02', 'C10')
    params = {'self': 'Column'}
    pure = True
    ret = 'List[Reference]'
    returns_defines = True
    allowed = ('DBMLError', 'IndexError', 'UnknownDatabaseError')

    def raises_TableNotFoundError(self):
        return self.table is None

    def returns(self):
        return refs_of_column(self)

    def ensures_exactly_these(self, result):
        return list(result) == [r for r in self.table.database.refs if r.col1[0].table == self.table and self in r.col1]


def column_options(c):
    opts = [dbml_of(r) for r in refs_of_column(c) if r._inline and r.type != '<>']
    if c.pk:
        opts.append('pk')
    if c.autoinc:
        opts.append('increment')
    if c.default:
        opts.append('default: ' + default_text(c.default))
    if c.unique:
        opts.append('unique')
    if c.not_null:
        opts.append('not null')
    if c.note.text:
        opts.append(note_option(c.note))
    return opts


def props_shown(owner_db, props):
    """arbitrary properties are rendered exactly when there are some, the owner is attached and the
    database's flag is on *now* (C15)"""
    return len(props) > 0 and owner_db is not None and owner_db.allow_properties


@contract('pydbml.renderer.dbml.default.column:render_options')
class column_render_options:
    returns_defines = True     # the abstract name IS this function's result; its content is the ensures below
    properties = ('C02', 'C15', 'C10', 'C13')
    params = {'model': 'Column'}
    pure = True
    ret = 'str'
    # a reference with an empty or mixed-table first side, a table without database: refused by the model (C17)
    allowed = REFUSALS

    def requires_default_renderable(model):
        return model.table is not None

    def returns(model):
        return the_column_options(model)

    def ensures_gate(model, result):
        # with the flag off (or a detached column) the text is the one without any property
        return props_shown(model.table.database if model.table is not None else None, model.properties) or \
            result == ((' [' + ', '.join(column_options(model)) + ']') if len(column_options(model)) > 0 else '')


@contract('pydbml.renderer.dbml.default.column:render_column')
class dbml_render_column:
    properties = ('C02', 'C14', 'C10')
    params = {'model': 'Column'}
    pure = True
    ret = 'str'
    allowed = REFUSALS

    def requires_named(model):
        return model.table is not None and model.name is not None and model.type is not None and \
            (not isinstance(model.type, Enum) or (model.type.name is not None and model.type.schema is not None))

    def ensures_line(model, result):
        return result == ((dbml_comment(model.comment) if model.comment else '') + '"' + model.name + '" '
                          + (dbml_name(model.type) if isinstance(model.type, Enum) else bare_or_quoted_type(model.type))
                          + the_column_options(model))


@abstract('str')
def the_column_options(c):
    from pydbml.renderer.dbml.default.column import render_options as f
    return f(c)


from contracts.sql import mixed_side, same_table      # noqa: E402


# ------------------------------------------------------------------------------------------ indexes
def index_subject_text(s):
    return bare_or_quoted_name(s.name) if isinstance(s, Column) else (rendered_dbml(s) if isinstance(s, Expression) else s)


@contract('pydbml.renderer.dbml.default.index:render_options')
class index_render_options:
    properties = ('C02', 'C13')
    params = {'model': 'Index'}
    pure = True
    ret = 'str'
    returns_defines = True
    assume_at_call = ()

    def returns(model):
        return the_index_options(model)

    def ensures_all_settings(model, result):
        return result == ''.join([' [' + ', '.join(
            ([("name: '" + escaped(model.name) + "'")] if model.name else [])
            + (['pk'] if model.pk else []) + (['unique'] if model.unique else [])
            + ([('type: ' + model.type)] if model.type else [])
            + ([note_option(model.note)] if model.note.text else [])) + ']'] if (
            model.name or model.pk or model.unique or model.type or model.note.text) else [])


@contract('pydbml.renderer.dbml.default.index:render_subjects')
class index_render_subjects:
    returns_defines = True
    assume_at_call = ('ensures_some_subject',)
    """One subject is written bare; several are a parenthesised, comma-separated list in index order; a column is
    written by its (quoted if needed) name, an expression through the renderer, a plain string as it is (C02)."""
    allowed = REFUSALS         # the element renderers' refusals of degenerate models propagate (C17)
    properties = ('C02', 'C10')
    params = {'source_subjects': 'List[Union[str,Column,Expression]]'}
    pure = True
    ret = 'str'

    def requires_named(source_subjects):
        return all(not isinstance(x, Column) or x.name is not None for x in source_subjects)

    def returns(source_subjects):
        return the_index_subjects(source_subjects)

    def ensures_some_subject(source_subjects, result):
        # (an index without subject is refused with IndexError)
        return len(source_subjects) > 0

    def ensures_many_in_order(source_subjects, result):
        return len(source_subjects) <= 1 or \
            result == '(' + ', '.join(index_subject_text(x) for x in source_subjects) + ')'

    def ensures_single_column(source_subjects, result):
        return not (len(source_subjects) == 1 and isinstance(source_subjects[0], Column)) or \
            result == bare_or_quoted_name(source_subjects[0].name)

    def ensures_single_expression(source_subjects, result):
        return not (len(source_subjects) == 1 and isinstance(source_subjects[0], Expression)) or \
            result == rendered_dbml(source_subjects[0])

    def ensures_single_text(source_subjects, result):
        return not (len(source_subjects) == 1 and isinstance(source_subjects[0], str)) or \
            result == '' + source_subjects[0]


@abstract('str')
def the_index_subjects(subjects):
    from pydbml.renderer.dbml.default.index import render_subjects as f
    return f(subjects)


@abstract('str')
def the_index_options(ix):
    from pydbml.renderer.dbml.default.index import render_options as f
    return f(ix)


@contract('pydbml.renderer.dbml.default.index:render_index')
class dbml_render_index:
    """comment lines, then the subjects, then the settings (C02, C14)."""
    allowed = REFUSALS         # the element renderers' refusals of degenerate models propagate (C17)
    properties = ('C02', 'C14', 'C10')
    params = {'model': 'Index'}
    pure = True
    ret = 'str'

    def requires_named(model):
        return all(not isinstance(x, Column) or x.name is not None for x in model.subjects)

    def ensures_some_subject(model, result):
        return len(model.subjects) > 0

    def ensures_layout(model, result):
        return result == ((dbml_comment(model.comment) if model.comment else '')
                          + the_index_subjects(model.subjects) + the_index_options(model))


# ------------------------------------------------------------------------------------------ references
@contract('pydbml.renderer.dbml.default.reference:validate_for_dbml')
class validate_for_dbml:
    properties = ('C17',)
    params = {'model': 'Reference'}
    pure = True

    def raises_TableNotFoundError(model):
        return not (all(c.table is not None for c in model.col1) and all(c.table is not None for c in model.col2))


@contract('pydbml.renderer.dbml.default.reference:render_col')
class render_col:
    properties = ('C02',)
    params = {'col': 'List[Column]'}
    pure = True
    ret = 'str'

    def requires_named(col):
        return len(col) > 0 and all(c.name is not None for c in col)

    def ensures_quoted_in_order(col, result):
        return result == (('"' + col[0].name + '"') if len(col) == 1 else
                          ('(' + ', '.join('"' + c.name + '"' for c in col) + ')'))


@contract('pydbml.renderer.dbml.default.reference:render_options')
class ref_render_options:
    properties = ('C02',)
    params = {'model': 'Reference'}
    pure = True
    ret = 'str'

    def ensures_actions(model, result):
        return result == ((' [' + ', '.join(
            ([('update: ' + model.on_update)] if model.on_update else [])
            + ([('delete: ' + model.on_delete)] if model.on_delete else [])) + ']')
            if (model.on_update or model.on_delete) else '')


@abstract('str')
def the_inline_ref_setting(r):
    from pydbml.renderer.dbml.default.reference import render_inline_reference as f
    return f(r)


@abstract('str')
def the_ref_block(r):
    from pydbml.renderer.dbml.default.reference import render_not_inline_reference as f
    return f(r)


@contract('pydbml.renderer.dbml.default.reference:render_inline_reference')
class render_inline_reference:
    properties = ('C02', 'C17')
    params = {'model': 'Reference'}
    pure = True
    ret = 'str'
    returns_defines = True      # callers know the result by name; its content is ensures_ref_setting

    def returns(model):
        return the_inline_ref_setting(model)

    def requires_named(model):
        return (model.type is not None and len(model.col1) > 0 and len(model.col2) > 0 and all(c.name is not None for c in model.col2)
                and all(c.table is not None and c.table.name is not None and c.table.schema is not None for c in model.col2))

    def raises_DBMLError(model):
        # a composite reference cannot be inline; a side mixing tables is refused
        return len(model.col2) > 1 or not all(c.table == model.col1[0].table for c in model.col1)

    def ensures_ref_setting(model, result):
        return result == 'ref: ' + model.type + ' ' + dbml_name(model.col2[0].table) + '."' + model.col2[0].name + '"'


def dbml_cols(cols):
    return ('"' + cols[0].name + '"') if len(cols) == 1 else ('(' + ', '.join('"' + c.name + '"' for c in cols) + ')')


def dbml_ref_options(r):
    return ((' [' + ', '.join(([('update: ' + r.on_update)] if r.on_update else [])
                             + ([('delete: ' + r.on_delete)] if r.on_delete else [])) + ']')
            if (r.on_update or r.on_delete) else '')


def side_named(cols):
    """a reference side that can be written: at least one column, all named, each in a named table"""
    return (len(cols) > 0 and all(c.name is not None for c in cols)
            and all(c.table is not None and c.table.name is not None and c.table.schema is not None for c in cols))


def dbml_ref_block(r):
    """the stand-alone form of a reference (C02): comment lines, `Ref [name] {`, the two sides with the
    relation between them, the actions, `}`"""
    return ((dbml_comment(r.comment) if r.comment else '') + 'Ref'
            + ((' ' + bare_or_quoted_name(r.name)) if r.name else '')
            + ' {\n    ' + dbml_name(r.col1[0].table) + '.' + dbml_cols(r.col1) + ' ' + r.type + ' '
            + dbml_name(r.col2[0].table) + '.' + dbml_cols(r.col2) + dbml_ref_options(r) + '\n}')


@contract('pydbml.renderer.dbml.default.reference:render_not_inline_reference')
class render_not_inline_reference:
    properties = ('C02', 'C17')
    params = {'model': 'Reference'}
    pure = True
    ret = 'str'
    returns_defines = True      # callers know the result by name; its content is ensures_block

    def returns(model):
        return the_ref_block(model)

    def requires_sides(model):
        return model.type is not None and side_named(model.col1) and side_named(model.col2)

    def raises_DBMLError(model):
        # a side that mixes columns of several tables is refused (C17)
        return mixed_side(model)

    def ensures_block(model, result):
        return result == dbml_ref_block(model)


def is_inline(r):
    """Reference.inline: declared inline and not many-to-many (a many-to-many reference is always a block)"""
    return r._inline and r.type != '<>'


@contract('pydbml.renderer.dbml.default.reference:render_reference')
class dbml_render_reference:
    """C17: a reference with a column that belongs to no table is refused (TableNotFoundError), one whose side
    mixes tables too (DBMLError); C02: an inline reference is the `ref:` setting, any other the stand-alone block."""
    properties = ('C02', 'C17', 'C10')
    params = {'model': 'Reference'}
    pure = True
    ret = 'str'

    def requires_named(model):
        return (model.type is not None and len(model.col1) > 0 and len(model.col2) > 0
                and all(c.name is not None for c in model.col1) and all(c.name is not None for c in model.col2)
                and all(c.table is None or (c.table.name is not None and c.table.schema is not None) for c in model.col1)
                and all(c.table is None or (c.table.name is not None and c.table.schema is not None) for c in model.col2))

    def raises_TableNotFoundError(model):
        return not (all(c.table is not None for c in model.col1) and all(c.table is not None for c in model.col2))

    def raises_DBMLError(model):
        return (all(c.table is not None for c in model.col1) and all(c.table is not None for c in model.col2)
                and ((is_inline(model) and (len(model.col2) > 1 or not same_table(model.col1)))
                     or (not is_inline(model) and mixed_side(model))))

    def ensures_inline_setting(model, result):
        # what render_inline_reference gives (its own contract: `ref: <type> <table>."<column>"`)
        return not is_inline(model) or result == the_inline_ref_setting(model)

    def ensures_block(model, result):
        # what render_not_inline_reference gives (its own contract: the stand-alone Ref block)
        return is_inline(model) or result == the_ref_block(model)


# ------------------------------------------------------------------------------------------ database
def dbml_database(db):
    """project (if any), enums, tables, the references that are not inline, table groups, sticky
    notes — each element's own rendering exactly once, in that order, separated by blank lines"""
    return '\n\n'.join(rendered_dbml(i) for i in (
        *([db.project] if db.project is not None else []), *db.enums, *db.tables,
        *(r for r in db.refs if not (r._inline and r.type != '<>')), *db.table_groups, *db.sticky_notes))


@contract('pydbml.renderer.dbml.default.renderer:DefaultDBMLRenderer.render_db')
class dbml_render_db:
    allowed = REFUSALS         # the element renderers' refusals of degenerate models propagate (C17)
    properties = ('C02', 'C16')
    params = {'cls': _DBML, 'db': 'Database'}
    pure = True
    ret = 'str'

    def ensures_pieces(cls, db, result):
        return result == dbml_database(db)


# ------------------------------------------------------------------------------------------ tables
def dbml_table_header(t):
    return ('Table ' + dbml_name(t) + ' ' + (('as "' + t.alias + '" ') if t.alias else '')
            + (('[headercolor: ' + t.header_color + '] ') if t.header_color else ''))


def dbml_table_indexes(t):
    return (('\n    indexes {\n' + indent('\n'.join(rendered_dbml(i) for i in t.indexes), '        ') + '\n    }\n')
            if len(t.indexes) > 0 else '')


@contract('pydbml.renderer.dbml.default.table:render_header')
class dbml_render_header:
    properties = ('C02',)
    params = {'model': 'Table'}
    pure = True
    ret = 'str'

    def requires_named(model):
        return model.name is not None and model.schema is not None

    def ensures_header(model, result):
        return result == dbml_table_header(model)


@contract('pydbml.renderer.dbml.default.table:render_indexes')
class dbml_render_indexes:
    """the indexes block lists every index's own rendering, in order, one per line (C02, C16)"""
    allowed = REFUSALS         # the element renderers' refusals of degenerate models propagate (C17)
    properties = ('C02', 'C16')
    params = {'model': 'Table'}
    pure = True
    ret = 'str'

    def ensures_block(model, result):
        return result == dbml_table_indexes(model)


@contract('pydbml.renderer.dbml.default.table:render_table')
class dbml_render_table:
    """comment lines, header, every column's own rendering in order, the arbitrary properties exactly when the
    owning database allows them now (C15), the note, the indexes block (C02, C16)."""
    allowed = REFUSALS         # the element renderers' refusals of degenerate models propagate (C17)
    properties = ('C02', 'C15', 'C16', 'C10')
    params = {'model': 'Table'}
    pure = True
    ret = 'str'

    def requires_named(model):
        return model.name is not None and model.schema is not None

    def ensures_layout(model, result):
        return result == (
            (dbml_comment(model.comment) if model.comment else '') + dbml_table_header(model) + '{\n'
            + indent('\n'.join(rendered_dbml(c) for c in model.columns), '    ') + '\n'
            + (indent('\n' + '\n'.join(k + ': ' + quoted(v) for k, v in model.properties.items()) + '\n', '    ')
               if props_shown(model.database, model.properties) else '')
            + ((indent(dbml_of(model.note), '    ') + '\n') if model.note.text else '')
            + dbml_table_indexes(model) + '}')


# ------------------------------------------------------------------------------------------ table groups, project
@contract('pydbml.renderer.dbml.default.table_group:render_table_group')
class dbml_render_table_group:
    """comment lines, `TableGroup "name"`, the colour setting, one line per member table (schema-qualified, in
    order), the note (C02, C16)."""
    allowed = REFUSALS         # the element renderers' refusals of degenerate models propagate (C17)
    properties = ('C02', 'C16', 'C10')
    params = {'model': 'TableGroup'}
    pure = True
    ret = 'str'

    def requires_named(model):
        return all(t.name is not None and t.schema is not None for t in model.items)

    def ensures_one_line_name(model, result):
        # a name with a line break cannot be written between double quotes: refused with ValueError
        return '\n' not in model.name

    def ensures_layout(model, result):
        return result == (
            (dbml_comment(model.comment) if model.comment else '') + 'TableGroup ' + doublequoted(model.name)
            + ((' [color: ' + model.color + ']') if model.color else '') + ' {\n'
            + ''.join('    ' + dbml_name(t) + '\n' for t in model.items)
            + ((indent(dbml_of(model.note), '    ') + '\n') if (model.note is not None and model.note.text) else '')
            + '}')


def project_field(k, v):
    return (k + ": '''" + escaped(v) + "'''\n") if '\n' in v else (k + ": '" + escaped(v) + "'\n")


@contract('pydbml.renderer.dbml.default.project:render_items')
class dbml_render_items:
    """one `key: 'value'` line per project field in insertion order, values through the escaping helper, multi-line
    values in a '''-block (C02, C13)"""
    properties = ('C02', 'C13')
    params = {'items': 'Dict[str]'}
    pure = True
    ret = 'str'

    def ensures_lines(items, result):
        return result == indent(''.join(project_field(k, v) for k, v in items.items()).rstrip('\n'), '    ') + '\n'


@abstract('str')
def the_project_items(items):
    from pydbml.renderer.dbml.default.project import render_items as f
    return f(items)


@contract('pydbml.renderer.dbml.default.project:render_project')
class dbml_render_project:
    allowed = REFUSALS         # the element renderers' refusals of degenerate models propagate (C17)
    properties = ('C02', 'C16', 'C10')
    params = {'model': 'Project'}
    pure = True
    ret = 'str'

    def ensures_one_line_name(model, result):
        return '\n' not in model.name

    def ensures_layout(model, result):
        return result == (
            (dbml_comment(model.comment) if model.comment else '') + 'Project ' + doublequoted(model.name) + ' {\n'
            + indent(''.join(project_field(k, v) for k, v in model.items.items()).rstrip('\n'), '    ') + '\n'
            + ((indent(rendered_dbml(model.note), '    ') + '\n') if model.note.text else '')
            + '}')
