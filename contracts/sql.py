"""Contracts for pydbml/renderer/sql/default/* (C03 DDL, C04 foreign keys, C17 refusals, C16 dispatch).

Each renderer's postcondition is `result == spec(...)`, where the spec functions below are written
from the statements of C03/C04 (what the DDL must say), reading the model only through its current
links (C10).  Preconditions state what DefaultSQLRenderer.render has already checked
(required attributes present) and the typed heap.
"""
from pyvc.verify import contract, loc, loc_list
from pyvc.speclib import fresh, old
from textwrap import indent
from pydbml.classes import Column, Enum, EnumItem, Expression, Table, Index, Note, Reference


# ------------------------------------------------------------------------------------------ spec
def sql_comment(text):
    """every line of the comment prefixed with `-- `, one per line, newline-terminated (C14)"""
    return '\n'.join('-- ' + line for line in text.split('\n')) + '\n'


def sql_name(m):
    """schema-qualified unless the schema is public (C03)"""
    return ('"' + m.name + '"') if m.schema == 'public' else ('"' + m.schema + '"."' + m.name + '"')


def pk_count(t):
    return sum(c.pk for c in t.columns)


def sql_column(c):
    parts = ['"' + c.name + '"']
    parts.append(sql_name(c.type) if isinstance(c.type, Enum) else str(c.type))
    if c.pk and not (c.table is not None and pk_count(c.table) > 1):
        parts.append('PRIMARY KEY')
    if c.autoinc:
        parts.append('AUTOINCREMENT')
    if c.unique:
        parts.append('UNIQUE')
    if c.not_null:
        parts.append('NOT NULL')
    if c.default is not None:
        if isinstance(c.default, Expression):
            parts.append('DEFAULT (' + c.default.text + ')')
        else:
            parts.append('DEFAULT ' + str(c.default))
    return (sql_comment(c.comment) if c.comment else '') + ' '.join(parts)


def named(m):
    return m.name is not None


# ------------------------------------------------------------------------------------------ leaves
@contract('pydbml.tools:comment')
class tools_comment:
    properties = ('C14', 'C03', 'C04')
    params = {'val': 'str', 'comb': 'str'}
    pure = True
    ret = 'str'

    def returns(val, comb):
        return '\n'.join(comb + ' ' + line for line in val.split('\n')) + '\n'

    def ensures_every_line_prefixed(val, comb, result):
        return result == '\n'.join(comb + ' ' + line for line in val.split('\n')) + '\n'


@contract('pydbml.renderer.sql.default.utils:comment_to_sql')
class comment_to_sql:
    properties = ('C14', 'C03')
    params = {'val': 'str'}
    pure = True
    ret = 'str'

    def returns(val):
        return sql_comment(val)

    def ensures_sql_comment(val, result):
        return result == sql_comment(val)


@contract('pydbml.renderer.sql.default.utils:get_full_name_for_sql')
class get_full_name_for_sql:
    properties = ('C03', 'C04')
    params = {'model': 'Union[Table,Enum]'}
    pure = True
    ret = 'str'

    def requires_named(model):
        return model.name is not None and model.schema is not None

    def returns(model):
        return sql_name(model)

    def ensures_qualified(model, result):
        return result == sql_name(model)


@contract('pydbml.renderer.sql.default.expression:render_expression')
class render_expression:
    properties = ('C03', 'C13')
    params = {'model': 'Expression'}
    pure = True
    ret = 'str'

    def returns(model):
        return '(' + model.text + ')'

    def ensures_verbatim_in_parentheses(model, result):
        return result == '(' + model.text + ')'


@contract('pydbml.renderer.sql.default.column:render_column')
class render_column:
    properties = ('C03', 'C10')
    params = {'model': 'Column'}
    pure = True
    ret = 'str'

    def requires_checked(model):
        return model.name is not None and model.type is not None

    def requires_enum_named(model):
        return not isinstance(model.type, Enum) or (model.type.name is not None and model.type.schema is not None)

    def returns(model):
        return sql_column(model)

    def ensures_ddl(model, result):
        return result == sql_column(model)


# ------------------------------------------------------------------------------------------ enums
def sql_enum_item(i):
    return (sql_comment(i.comment) if i.comment else '') + "'" + i.name + "',"


@contract('pydbml.renderer.sql.default.enum:render_enum_item')
class render_enum_item:
    properties = ('C03',)
    params = {'model': 'EnumItem'}
    pure = True
    ret = 'str'

    def requires_checked(model):
        return model.name is not None

    def returns(model):
        return sql_enum_item(model)

    def ensures_ddl(model, result):
        return result == sql_enum_item(model)


def items_named(e):
    return all(i.name is not None for i in e.items)


@contract('pydbml.renderer.sql.default.enum:render_enum')
class render_enum:
    returns_defines = True     # the abstract name IS this function's result; its content is the ensures below
    """CREATE TYPE <qualified> AS ENUM ( items in order )"""
    properties = ('C03', 'C10')
    params = {'model': 'Enum'}
    pure = True
    ret = 'str'

    def requires_checked(model):
        return model.name is not None and model.schema is not None and items_named(model)

    def returns(model):
        return rendered_sql(model)

    def ensures_ddl(model, result):
        return result == ((sql_comment(model.comment) if model.comment else '')
                          + 'CREATE TYPE ' + sql_name(model) + ' AS ENUM (\n'
                          + '\n'.join(indent(rendered_sql(i), '  ') for i in model.items).rstrip(',')
                          + '\n);')


# ------------------------------------------------------------------------------------------ indexes
def sql_subject(s):
    return ('"' + s.name + '"') if isinstance(s, Column) else (('(' + s.text + ')') if isinstance(s, Expression) else s)


def subjects_ok(i):
    return all(not isinstance(s, Column) or s.name is not None for s in i.subjects)


def sql_index(i):
    keys = ', '.join(sql_subject(s) for s in i.subjects)
    head = sql_comment(i.comment) if i.comment else ''
    if i.pk:
        return head + 'PRIMARY KEY (' + keys + ')'
    return (head + 'CREATE ' + ('UNIQUE ' if i.unique else '') + 'INDEX '
            + (('"' + i.name + '" ') if i.name else '')
            + (('ON ' + sql_name(i.table) + ' ') if i.table else '')
            + (('USING ' + i.type.upper() + ' ') if i.type else '')
            + '(' + keys + ');')


@contract('pydbml.renderer.sql.default.index:render_subject')
class render_subject:
    properties = ('C03', 'C10')
    params = {'subject': 'Union[str,Column,Expression]'}
    pure = True
    ret = 'str'

    def requires_named(subject):
        return not isinstance(subject, Column) or subject.name is not None

    def returns(subject):
        return sql_subject(subject)

    def ensures_ddl(subject, result):
        return result == sql_subject(subject)


@contract('pydbml.renderer.sql.default.index:render_index')
class render_index:
    """pk index -> PRIMARY KEY clause; otherwise CREATE [UNIQUE] INDEX [name] ON <qualified table>
    [USING TYPE] (subjects) — the table qualified exactly as in its CREATE TABLE."""
    properties = ('C03', 'C10')
    params = {'model': 'Index'}
    pure = True
    ret = 'str'

    def requires_checked(model):
        return subjects_ok(model) and (model.table is None or (model.table.name is not None and model.table.schema is not None))

    def returns(model):
        return sql_index(model)

    def ensures_ddl(model, result):
        return result == sql_index(model)


# ------------------------------------------------------------------------------------------ notes
@contract('pydbml.renderer.sql.default.note:prepare_text_for_sql')
class prepare_text_for_sql:
    properties = ('C13', 'C03')
    params = {'model': 'Note'}
    pure = True
    ret = 'str'

    assume_at_call = ('ensures_no_single_quote',)

    def returns(model):
        return model.text.replace('\\\n', '').replace("'", '"')

    def ensures_no_single_quote(model, result):
        # embedded single quotes are neutralised: none survives inside the literal
        return "'" not in result

    def ensures_text(model, result):
        return result == model.text.replace('\\\n', '').replace("'", '"')


def sql_table_note(t):
    return 'COMMENT ON TABLE ' + sql_name(t) + " IS '" + t.note.text.replace('\\\n', '').replace("'", '"') + "';"


@contract('pydbml.renderer.sql.default.note:render_note')
class render_note:
    properties = ('C03', 'C13')
    params = {'model': 'Note'}
    pure = True
    ret = 'str'

    def requires_parent(model):
        return (not isinstance(model.parent, Table) or (model.parent.name is not None and model.parent.schema is not None)) \
            and (not isinstance(model.parent, Column) or model.parent.name is not None)

    def ensures_table_comment(model, result):
        return not (bool(model.text) and isinstance(model.parent, Table)) or result == (
            'COMMENT ON TABLE ' + sql_name(model.parent) + " IS '"
            + model.text.replace('\\\n', '').replace("'", '"') + "';")

    def ensures_empty(model, result):
        return bool(model.text) or result == ''


# ------------------------------------------------------------------------------------------ dispatch
def required_present(m):
    return all(getattr(m, a) is not None for a in m.required_attributes)


@contract('pydbml._classes.base:SQLObject.check_attributes_for_sql')
class check_attributes_for_sql:
    properties = ('C17',)
    params = {'self': 'Union[Table,Column,Enum,EnumItem,Index,Reference,Note,Expression]'}
    pure = True

    def raises_AttributeMissingError(self):
        return not required_present(self)


# ------------------------------------------------------------------------------------------ references (C04, C17)
from itertools import chain
from pydbml.exceptions import TableNotFoundError, DBMLError, UnknownDatabaseError


def all_attached(ref):
    return all(c.table is not None for c in ref.col1) and all(c.table is not None for c in ref.col2)


def same_table(cols):
    return all(c.table == cols[0].table for c in cols)


def mixed_side(ref):
    """a side that mixes columns of different tables (col2 is only looked at when col1 is fine)"""
    return not same_table(ref.col1) or (len(ref.col2) > 0 and not same_table(ref.col2))


@contract('pydbml._classes.reference:Reference._validate')
class ref_validate:
    properties = ('C17',)
    params = {'self': 'Reference'}
    pure = True

    def raises_IndexError(self):
        return len(self.col1) == 0 or (same_table(self.col1) and len(self.col2) == 0)

    def raises_DBMLError(self):
        return len(self.col1) > 0 and mixed_side(self)


@contract('pydbml._classes.reference:Reference.inline')
class ref_inline:
    inline = True


@contract('pydbml._classes.reference:Reference.table1')
class ref_table1:
    properties = ('C17', 'C05')
    params = {'self': 'Reference'}
    pure = True
    ret = 'Optional[Table]'

    def raises_IndexError(self):
        return len(self.col1) == 0 or (same_table(self.col1) and len(self.col2) == 0)

    def raises_DBMLError(self):
        return len(self.col1) > 0 and mixed_side(self)

    def returns(self):
        return self.col1[0].table

    def ensures_first(self, result):
        return result is self.col1[0].table


@contract('pydbml._classes.reference:Reference.table2')
class ref_table2:
    properties = ('C17', 'C05')
    params = {'self': 'Reference'}
    pure = True
    ret = 'Optional[Table]'

    def raises_IndexError(self):
        return len(self.col1) == 0 or (same_table(self.col1) and len(self.col2) == 0)

    def raises_DBMLError(self):
        return len(self.col1) > 0 and mixed_side(self)

    def returns(self):
        return self.col2[0].table

    def ensures_first(self, result):
        return result is self.col2[0].table


def sql_col_names(cols):
    return ', '.join('"' + c.name + '"' for c in cols)


def cols_named(cols):
    return all(c.name is not None for c in cols)


@contract('pydbml.renderer.sql.default.reference:col_names')
class col_names:
    properties = ('C04',)
    params = {'cols': 'List[Column]'}
    pure = True
    ret = 'str'

    def requires_named(cols):
        return cols_named(cols)

    def returns(cols):
        return sql_col_names(cols)

    def ensures_in_order(cols, result):
        return result == sql_col_names(cols)


@contract('pydbml.renderer.sql.default.reference:validate_for_sql')
class validate_for_sql:
    properties = ('C17',)
    params = {'model': 'Reference'}
    pure = True

    def raises_TableNotFoundError(model):
        return not all_attached(model)


@contract('pydbml.renderer.sql.default.reference:escape_braces')
class escape_braces:
    inline = True


def esc(text):
    return text.replace('{', '{{').replace('}', '}}')


def ref_tables_named(model):
    return (len(model.col1) > 0 and len(model.col2) > 0 and all_attached(model)
            and cols_named(model.col1) and cols_named(model.col2)
            and model.col1[0].table.name is not None and model.col1[0].table.schema is not None
            and model.col2[0].table.name is not None and model.col2[0].table.schema is not None)


def fk_tail(model):
    return ((' ON UPDATE ' + esc(model.on_update.upper())) if model.on_update else '') + \
        ((' ON DELETE ' + esc(model.on_delete.upper())) if model.on_delete else '')


@contract('pydbml.renderer.sql.default.reference:generate_inline_sql')
class generate_inline_sql:
    """FOREIGN KEY (source columns, in order) REFERENCES <table of ref_col> (ref columns, in order)
    [ON UPDATE ..] [ON DELETE ..] as a str.format template with the {c} placeholder; user text has
    its braces doubled so that format() gives it back verbatim (C04, C08)."""
    properties = ('C04', 'C14')
    params = {'model': 'Reference', 'source_col': 'List[Column]', 'ref_col': 'List[Column]'}
    pure = True
    ret = 'str'

    def requires_named(model, source_col, ref_col):
        return (len(ref_col) > 0 and cols_named(source_col) and cols_named(ref_col)
                and ref_col[0].table is not None and ref_col[0].table.name is not None
                and ref_col[0].table.schema is not None)

    def returns(model, source_col, ref_col):
        return ((esc(sql_comment(model.comment)) if model.comment else '')
                + '{c}FOREIGN KEY (' + esc(sql_col_names(source_col)) + ') REFERENCES '
                + esc(sql_name(ref_col[0].table)) + ' (' + esc(sql_col_names(ref_col)) + ')'
                + fk_tail(model))

    def ensures_template(model, source_col, ref_col, result):
        return result == ((esc(sql_comment(model.comment)) if model.comment else '')
                          + '{c}FOREIGN KEY (' + esc(sql_col_names(source_col)) + ') REFERENCES '
                          + esc(sql_name(ref_col[0].table)) + ' (' + esc(sql_col_names(ref_col)) + ')'
                          + fk_tail(model))


@contract('pydbml.renderer.sql.default.reference:generate_not_inline_sql')
class generate_not_inline_sql:
    properties = ('C04', 'C14')
    params = {'model': 'Reference', 'source_col': 'List[Column]', 'ref_col': 'List[Column]'}
    pure = True
    ret = 'str'

    def requires_named(model, source_col, ref_col):
        return (len(ref_col) > 0 and len(source_col) > 0 and cols_named(source_col) and cols_named(ref_col)
                and ref_col[0].table is not None and ref_col[0].table.name is not None
                and ref_col[0].table.schema is not None
                and source_col[0].table is not None and source_col[0].table.name is not None
                and source_col[0].table.schema is not None)

    def returns(model, source_col, ref_col):
        return ((esc(sql_comment(model.comment)) if model.comment else '')
                + 'ALTER TABLE ' + esc(sql_name(source_col[0].table))
                + ' ADD {c}FOREIGN KEY (' + esc(sql_col_names(source_col)) + ') REFERENCES '
                + esc(sql_name(ref_col[0].table)) + ' (' + esc(sql_col_names(ref_col)) + ')'
                + fk_tail(model) + ';')

    def ensures_template(model, source_col, ref_col, result):
        return result == ((esc(sql_comment(model.comment)) if model.comment else '')
                          + 'ALTER TABLE ' + esc(sql_name(source_col[0].table))
                          + ' ADD {c}FOREIGN KEY (' + esc(sql_col_names(source_col)) + ') REFERENCES '
                          + esc(sql_name(ref_col[0].table)) + ' (' + esc(sql_col_names(ref_col)) + ')'
                          + fk_tail(model) + ';')


def fk_clause(model, src, ref):
    """the FOREIGN KEY clause proper (C04): key columns in order, referenced table and columns in
    order, constraint name, actions"""
    return ((('CONSTRAINT "' + model.name + '" ') if model.name else '')
            + 'FOREIGN KEY (' + sql_col_names(src) + ') REFERENCES '
            + sql_name(ref[0].table) + ' (' + sql_col_names(ref) + ')'
            + ((' ON UPDATE ' + model.on_update.upper()) if model.on_update else '')
            + ((' ON DELETE ' + model.on_delete.upper()) if model.on_delete else ''))


def sql_reference(model):
    """`>` and `-`: the key is on col1 referencing col2; `<`: on col2 referencing col1.  Inline: the
    bare clause; not inline: ALTER TABLE <key-holding table> ADD <clause>;"""
    head = sql_comment(model.comment) if model.comment else ''
    if model.type == '>' or model.type == '-':
        src, ref = model.col1, model.col2
    else:
        src, ref = model.col2, model.col1
    if model._inline:
        return head + fk_clause(model, src, ref)
    return head + 'ALTER TABLE ' + sql_name(src[0].table) + ' ADD ' + fk_clause(model, src, ref) + ';'


@contract('pydbml.renderer.sql.default.reference:render_reference')
class render_reference:
    """One-to-many / many-to-one / one-to-one references (the many-to-many form builds a join
    table and is covered by the bounded twin C04.B.fk)."""
    properties = ('C04', 'C17', 'C10', 'C08')
    params = {'model': 'Reference'}
    pure = True
    ret = 'str'

    def requires_kind(model):
        return model.type == '>' or model.type == '<' or model.type == '-'

    def requires_named(model):
        return (len(model.col1) > 0 and len(model.col2) > 0 and cols_named(model.col1) and cols_named(model.col2)
                and all(c.table is None or (c.table.name is not None and c.table.schema is not None) for c in model.col1)
                and all(c.table is None or (c.table.name is not None and c.table.schema is not None) for c in model.col2))

    def raises_TableNotFoundError(model):
        return not all_attached(model)

    def returns(model):
        return sql_reference(model)

    def ensures_fk(model, result):
        return result == sql_reference(model)


# ------------------------------------------------------------------------------------------ tables (C03, C04, C05)
def holds_key(ref, t):
    """t is the key-holding table of a (non many-to-many) reference: left side for > and -, right side for <"""
    return ((ref.type == '>' or ref.type == '-') and ref.col1[0].table == t) or \
        (ref.type == '<' and ref.col2[0].table == t)


def refs_wellformed(db):
    return all(len(r.col1) > 0 and len(r.col2) > 0 and same_table(r.col1) and same_table(r.col2) for r in db.refs)


@contract('pydbml.renderer.sql.default.table:get_references_for_sql')
class get_references_for_sql:
    returns_proved_by = 'ensures_key_holder'
    properties = ('C04', 'C05', 'C17')
    params = {'model': 'Table'}
    pure = True

    def requires_wellformed(model):
        return model.database is None or refs_wellformed(model.database)

    def raises_UnknownDatabaseError(model):
        return model.database is None

    def returns(model):
        return [r for r in model.database.refs if holds_key(r, model)]

    def ensures_key_holder(model, result):
        return list(result) == [r for r in model.database.refs if holds_key(r, model)]


@contract('pydbml.renderer.sql.default.table:get_inline_references_for_sql')
class get_inline_references_for_sql:
    properties = ('C04',)
    params = {'model': 'Table'}
    pure = True

    def requires_wellformed(model):
        return model.abstract or (model.database is not None and refs_wellformed(model.database))

    def returns(model):
        return inline_refs_here(model)

    def ensures_inline_here(model, result):
        return list(result) == ([] if model.abstract else
                                [r for r in model.database.refs if holds_key(r, model) and r._inline and r.type != '<>'])


def sql_column_notes(t):
    return ''.join("\n\nCOMMENT ON COLUMN " + sql_name(t) + '."' + c.name + "\" IS '"
                   + c.note.text.replace('\\\n', '').replace("'", '"') + "';"
                   for c in t.columns if c.note.text)


def columns_ok(t):
    return all(c.name is not None and c.type is not None
               and (not isinstance(c.type, Enum) or (c.type.name is not None and c.type.schema is not None))
               for c in t.columns)


@contract('pydbml.renderer.sql.default.table:render_column_notes')
class render_column_notes:
    returns_defines = True     # the abstract name IS this function's result; its content is the ensures below
    properties = ('C03', 'C13', 'C10')
    params = {'model': 'Table'}
    pure = True
    ret = 'str'

    def requires_checked(model):
        return model.name is not None and model.schema is not None and columns_ok(model)

    def returns(model):
        return the_column_comments(model)

    def ensures_comments(model, result):
        return result == sql_column_notes(model)


from pyvc.speclib import abstract
from pydbml.renderer.sql.default import DefaultSQLRenderer as _DefaultSQLRenderer


@abstract('str')
def rendered_sql(model):
    """What DefaultSQLRenderer.render gives for this element in the current heap.  The leaf
    contracts (render_column, render_index, render_reference, ...) say what that text is; the
    composite contracts below only say how the pieces are put together."""
    from pydbml.renderer.sql.default import DefaultSQLRenderer
    return DefaultSQLRenderer.render(model)


def renderable(m):
    """what the element's own renderer requires (checked by DefaultSQLRenderer.render or implied by
    the parser's invariants)"""
    return ((not isinstance(m, Column) or (m.name is not None and m.type is not None and
                                            (not isinstance(m.type, Enum) or (m.type.name is not None and m.type.schema is not None))))
            and (not isinstance(m, Index) or (m.table is not None and subjects_ok(m) and m.table.name is not None and m.table.schema is not None))
            and (not isinstance(m, Reference) or ref_renderable(m))
            and (not isinstance(m, Note) or not isinstance(m.parent, Table)
                 or (m.parent.name is not None and m.parent.schema is not None and m.parent.note is m))
            and (not isinstance(m, Note) or not isinstance(m.parent, Column) or m.parent.name is not None)
            and (not isinstance(m, Enum) or (m.name is not None and m.schema is not None and items_named(m)))
            and (not isinstance(m, Table) or (m.name is not None and m.schema is not None and elements_renderable(m)
                                              and columns_ok(m) and m.note.parent is m)))


@contract('pydbml.renderer.sql.default.renderer:DefaultSQLRenderer.render')
class sql_render:
    returns_defines = True     # the abstract name IS this function's result; its content is the ensures below
    """Dispatch (C16) + refusal (C17) + leaf specification (C03/C04): render(model) raises
    AttributeMissingError iff a required attribute is None, and otherwise is the DDL text of
    model's kind."""
    properties = ('C03', 'C04', 'C16', 'C17', 'C10')
    params = {'cls': _DefaultSQLRenderer, 'model': 'Union[Column,Index,EnumItem,Expression,Note,Enum]'}
    pure = True
    ret = 'str'

    def requires_renderable(cls, model):
        return renderable(model)

    def raises_AttributeMissingError(cls, model):
        return not required_present(model)

    assume_at_call = ('ensures_expression',)

    def returns(cls, model):
        return rendered_sql(model)

    def ensures_column(cls, model, result):
        return not isinstance(model, Column) or result == sql_column(model)

    def ensures_index(cls, model, result):
        return not isinstance(model, Index) or result == sql_index(model)

    def ensures_enum_item(cls, model, result):
        return not isinstance(model, EnumItem) or result == sql_enum_item(model)

    def ensures_expression(cls, model, result):
        return not isinstance(model, Expression) or result == '(' + model.text + ')'

    def ensures_table_note(cls, model, result):
        # a table's note is a COMMENT ON TABLE addressing the qualified table (C03)
        return not (isinstance(model, Note) and bool(model.text) and isinstance(model.parent, Table)) \
            or result == sql_table_note(model.parent)


def inline_refs_here(t):
    """the inline, non many-to-many references whose key-holding table is t (C04: an inline
    reference is a clause inside exactly that table's CREATE TABLE)"""
    return [] if t.abstract else [r for r in t.database.refs
                                  if holds_key(r, t) and r._inline and r.type != '<>']


def ref_renderable(r):
    return ((r.type == '>' or r.type == '<' or r.type == '-' or r.type == '<>')
            and len(r.col1) > 0 and len(r.col2) > 0 and same_table(r.col1) and same_table(r.col2)
            and cols_named(r.col1) and cols_named(r.col2) and all_attached(r)
            and r.col1[0].table.name is not None and r.col1[0].table.schema is not None
            and r.col2[0].table.name is not None and r.col2[0].table.schema is not None)


@abstract('str')
def the_table_body(t):
    """result of create_body(t) (its meaning is create_body's own postcondition)"""
    from pydbml.renderer.sql.default.table import create_body as f
    return f(t)


@abstract('str')
def the_table_statements(t):
    """result of create_components(t)"""
    from pydbml.renderer.sql.default.table import create_components as f
    return f(t)


@abstract('str')
def the_column_comments(t):
    """result of render_column_notes(t)"""
    from pydbml.renderer.sql.default.table import render_column_notes as f
    return f(t)


def sql_table_body(t):
    parts = [indent(rendered_sql(c), '  ') for c in t.columns]
    parts.extend(indent(rendered_sql(i), '  ') for i in t.indexes if i.pk)
    parts.extend(indent(rendered_sql(r), '  ') for r in inline_refs_here(t))
    if pk_count(t) > 1:
        parts.append('  PRIMARY KEY (' + ', '.join('"' + c.name + '"' for c in t.columns if c.pk) + ')')
    return ',\n'.join(parts)


def elements_renderable(t):
    return (all(renderable(c) and required_present(c) for c in t.columns)
            and all(renderable(i) and required_present(i) for i in t.indexes)
            and (t.abstract or (t.database is not None and refs_wellformed(t.database)
                                and all(renderable(r) and required_present(r) for r in t.database.refs))))


@contract('pydbml.renderer.sql.default.table:create_body')
class create_body:
    returns_defines = True     # the abstract name IS this function's result; its content is the ensures below
    """Inside the parentheses of CREATE TABLE: exactly the columns in order, then the pk indexes,
    then the inline foreign keys hosted here (each the element's own rendering), then one PRIMARY
    KEY clause iff several pk columns — nothing else."""
    properties = ('C03', 'C04', 'C10', 'C16')
    params = {'model': 'Table'}
    pure = True
    ret = 'str'

    def requires_renderable(model):
        return elements_renderable(model) and all(c.name is not None for c in model.columns)

    def returns(model):
        return the_table_body(model)

    def ensures_body(model, result):
        return result == sql_table_body(model)


def sql_table_components(t):
    parts = [sql_comment(t.comment)] if t.comment else []
    parts.append('CREATE TABLE ' + sql_name(t) + ' (')
    parts.append(the_table_body(t))
    parts.append(');')
    parts.extend('\n' + rendered_sql(i) for i in t.indexes if not i.pk)
    return '\n'.join(parts)


@contract('pydbml.renderer.sql.default.table:create_components')
class create_components:
    returns_defines = True     # the abstract name IS this function's result; its content is the ensures below
    """CREATE TABLE <qualified> ( body ); followed by one statement per non-pk index."""
    properties = ('C03', 'C10')
    params = {'model': 'Table'}
    pure = True
    ret = 'str'

    def requires_renderable(model):
        return (model.name is not None and model.schema is not None and elements_renderable(model)
                and all(c.name is not None for c in model.columns))

    def returns(model):
        return the_table_statements(model)

    def ensures_statements(model, result):
        return result == sql_table_components(model)


def sql_table(t):
    return (the_table_statements(t)
            + (('\n\n' + rendered_sql(t.note)) if t.note.text else '')
            + the_column_comments(t))


@contract('pydbml.renderer.sql.default.table:render_table')
class render_table:
    returns_defines = True     # the abstract name IS this function's result; its content is the ensures below
    """The table's statements, then COMMENT ON TABLE iff it has a note, then the column comments —
    all addressing the same qualified table (C03)."""
    properties = ('C03', 'C10')
    params = {'model': 'Table'}
    pure = True
    ret = 'str'

    def requires_renderable(model):
        return (model.name is not None and model.schema is not None and elements_renderable(model)
                and columns_ok(model) and model.note.parent is model)

    def returns(model):
        return rendered_sql(model)

    def ensures_ddl(model, result):
        return result == sql_table(model)


@contract('pydbml.renderer.sql.default.utils:reorder_tables_for_sql')
class reorder_tables_for_sql:
    returns_defines = True     # the abstract name IS this function's result; its content is the ensures below
    """C18, second sentence: whatever the order chosen, it is a permutation of the tables and the
    call writes nothing (so it depends only on the model).  The ordering clause itself (targets before
    holders) is refuted on the unchanged tree: known finding C18.B.order."""
    properties = ('C18',)
    params = {'tables': 'List[Table]', 'refs': 'List[Reference]'}
    pure = True
    ret = 'List[Table]'

    def requires_wellformed(tables, refs):
        return all(len(r.col1) > 0 and len(r.col2) > 0 and same_table(r.col1) and same_table(r.col2) for r in refs)

    def returns(tables, refs):
        return the_table_order(tables, refs)

    def ensures_same_length(tables, refs, result):
        return len(result) == len(tables)

    def ensures_every_table_once(tables, refs, result):
        return all(t in result for t in tables) and all(t in tables for t in result)

    def ensures_fresh(tables, refs, result):
        return fresh(result)


@abstract('List[Table]')
def the_table_order(tables, refs):
    """result of reorder_tables_for_sql(tables, refs): a permutation of `tables` (its contract)"""
    from pydbml.renderer.sql.default.utils import reorder_tables_for_sql as f
    return f(tables, refs)


def db_renderable(db):
    return (all(renderable(e) and required_present(e) for e in db.enums)
            and all(renderable(t) and required_present(t) and t.database is db for t in db.tables)
            and refs_wellformed(db)
            and all(renderable(r) and required_present(r) for r in db.refs))


def sql_database(db):
    """enums, then the tables in the chosen order, then the references that are not inline — each
    the element's own rendering, exactly once, separated by blank lines (C03, C04, C16)"""
    return '\n\n'.join(rendered_sql(i) for i in (
        *db.enums, *the_table_order(db.tables, db.refs),
        *(r for r in db.refs if not (r._inline and r.type != '<>'))))


@contract('pydbml.renderer.sql.default.renderer:DefaultSQLRenderer.render_db')
class sql_render_db:
    tier = 'thorough'          # several minutes: composite of every element renderer
    properties = ('C03', 'C04', 'C16', 'C18')
    params = {'cls': _DefaultSQLRenderer, 'db': 'Database'}
    pure = True
    ret = 'str'

    def requires_renderable(cls, db):
        return db_renderable(db)

    def ensures_pieces(cls, db, result):
        return result == sql_database(db)


# ------------------------------------------------------------------------------------------ C16: x.sql
from contracts.classes import render_via, owner_database


@contract('pydbml._classes.base:SQLObject.sql')
class element_sql:
    """x.sql is R.render(x) with R the sql_renderer of the database x is attached to — whatever that database
    contains, an empty one included (for a column: its table's database) — and the default renderer class when x is
    attached to none (C16)."""
    properties = ('C16',)
    params = {'self': 'Union[Table,Column,Enum,Reference,Index,EnumItem,Note,Expression]'}
    pure = True
    ret = 'str'
    # the element renderer's refusals of a degenerate element (C17) propagate — from the kinds of element that can be
    # degenerate: a note and an expression have no required attribute, and neither they nor an enum item have a link to resolve, so
    # rendering them refuses nothing (this is what keeps `table.note.sql` inside SQL render_table exception-free)

    def maybe_AttributeMissingError(self):
        return not isinstance(self, Note) and not isinstance(self, Expression)      # an enum item requires its name

    def maybe_TableNotFoundError(self):
        return not isinstance(self, Note) and not isinstance(self, Expression) and not isinstance(self, EnumItem)

    def maybe_DBMLError(self):
        return not isinstance(self, Note) and not isinstance(self, Expression) and not isinstance(self, EnumItem)

    def maybe_UnknownDatabaseError(self):
        return not isinstance(self, Note) and not isinstance(self, Expression) and not isinstance(self, EnumItem)

    def maybe_IndexError(self):
        return not isinstance(self, Note) and not isinstance(self, Expression) and not isinstance(self, EnumItem)

    def requires_renderable_when_detached(self):
        return owner_database(self) is not None or renderable(self)

    def ensures_configured_renderer(self, result):
        return result == (render_via(owner_database(self).sql_renderer, self) if owner_database(self) is not None
                          else rendered_sql(self))
