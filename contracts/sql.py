"""Contracts for pydbml/renderer/sql/default/* (C03 DDL, C04 foreign keys, C17 refusals, C16 dispatch).

Each renderer's postcondition is `result == spec(...)`, where the spec functions below are written
from the statements of C03/C04 (what the DDL must say), reading the model only through its current
links (C10).  Preconditions state what DefaultSQLRenderer.render has already checked
(required attributes present) and the typed heap.
"""
from pyvc.verify import contract, loc, loc_list
from pyvc.speclib import fresh, old
from textwrap import indent
from pydbml.classes import Column, Enum, Expression, Table, Index, Note, Reference


# ------------------------------------------------------------------------------------------ spec
def sql_comment(text):
    """every line of the comment prefixed with `-- `, one per line, newline-terminated (C14)"""
    return '\n'.join('-- ' + line for line in text.split('\n')) + '\n'


def sql_name(m):
    """schema-qualified unless the schema is public (C03)"""
    return ('"' + m.name + '"') if m.schema == 'public' else ('"' + m.schema + '"."' + m.name + '"')


def pk_count(t):
    return sum(c.pk for c in t.columns)


def sql_column(c):
    parts = ['"' + c.name + '"']
    parts.append(sql_name(c.type) if isinstance(c.type, Enum) else str(c.type))
    if c.pk and not (c.table is not None and pk_count(c.table) > 1):
        parts.append('PRIMARY KEY')
    if c.autoinc:
        parts.append('AUTOINCREMENT')
    if c.unique:
        parts.append('UNIQUE')
    if c.not_null:
        parts.append('NOT NULL')
    if c.default is not None:
        if isinstance(c.default, Expression):
            parts.append('DEFAULT (' + c.default.text + ')')
        else:
            parts.append('DEFAULT ' + str(c.default))
    return (sql_comment(c.comment) if c.comment else '') + ' '.join(parts)


def named(m):
    return m.name is not None


# ------------------------------------------------------------------------------------------ leaves
@contract('pydbml.tools:comment')
class tools_comment:
    properties = ('C14', 'C03', 'C04')
    params = {'val': 'str', 'comb': 'str'}
    pure = True
    ret = 'str'

    def returns(val, comb):
        return '\n'.join(comb + ' ' + line for line in val.split('\n')) + '\n'

    def ensures_every_line_prefixed(val, comb, result):
        return result == '\n'.join(comb + ' ' + line for line in val.split('\n')) + '\n'


@contract('pydbml.renderer.sql.default.utils:comment_to_sql')
class comment_to_sql:
    properties = ('C14', 'C03')
    params = {'val': 'str'}
    pure = True
    ret = 'str'

    def returns(val):
        return sql_comment(val)

    def ensures_sql_comment(val, result):
        return result == sql_comment(val)


@contract('pydbml.renderer.sql.default.utils:get_full_name_for_sql')
class get_full_name_for_sql:
    properties = ('C03', 'C04')
    params = {'model': 'Union[Table,Enum]'}
    pure = True
    ret = 'str'

    def requires_named(model):
        return model.name is not None and model.schema is not None

    def returns(model):
        return sql_name(model)

    def ensures_qualified(model, result):
        return result == sql_name(model)


@contract('pydbml.renderer.sql.default.expression:render_expression')
class render_expression:
    properties = ('C03', 'C13')
    params = {'model': 'Expression'}
    pure = True
    ret = 'str'

    def returns(model):
        return '(' + model.text + ')'

    def ensures_verbatim_in_parentheses(model, result):
        return result == '(' + model.text + ')'


@contract('pydbml.renderer.sql.default.column:render_column')
class render_column:
    properties = ('C03', 'C10')
    params = {'model': 'Column'}
    pure = True
    ret = 'str'

    def requires_checked(model):
        return model.name is not None and model.type is not None

    def requires_enum_named(model):
        return not isinstance(model.type, Enum) or (model.type.name is not None and model.type.schema is not None)

    def returns(model):
        return sql_column(model)

    def ensures_ddl(model, result):
        return result == sql_column(model)


# ------------------------------------------------------------------------------------------ enums
def sql_enum_item(i):
    return (sql_comment(i.comment) if i.comment else '') + "'" + i.name + "',"


@contract('pydbml.renderer.sql.default.enum:render_enum_item')
class render_enum_item:
    properties = ('C03',)
    params = {'model': 'EnumItem'}
    pure = True
    ret = 'str'

    def requires_checked(model):
        return model.name is not None

    def returns(model):
        return sql_enum_item(model)

    def ensures_ddl(model, result):
        return result == sql_enum_item(model)


def items_named(e):
    return all(i.name is not None for i in e.items)


@contract('pydbml.renderer.sql.default.enum:render_enum')
class render_enum:
    """CREATE TYPE <qualified> AS ENUM ( items in order )"""
    properties = ('C03', 'C10')
    params = {'model': 'Enum'}
    pure = True
    ret = 'str'

    def requires_checked(model):
        return model.name is not None and model.schema is not None and items_named(model)

    def ensures_ddl(model, result):
        return result == ((sql_comment(model.comment) if model.comment else '')
                          + 'CREATE TYPE ' + sql_name(model) + ' AS ENUM (\n'
                          + '\n'.join(indent(sql_enum_item(i), '  ') for i in model.items).rstrip(',')
                          + '\n);')


# ------------------------------------------------------------------------------------------ indexes
def sql_subject(s):
    return ('"' + s.name + '"') if isinstance(s, Column) else (('(' + s.text + ')') if isinstance(s, Expression) else s)


def subjects_ok(i):
    return all(not isinstance(s, Column) or s.name is not None for s in i.subjects)


def sql_index(i):
    keys = ', '.join(sql_subject(s) for s in i.subjects)
    head = sql_comment(i.comment) if i.comment else ''
    if i.pk:
        return head + 'PRIMARY KEY (' + keys + ')'
    return (head + 'CREATE ' + ('UNIQUE ' if i.unique else '') + 'INDEX '
            + (('"' + i.name + '" ') if i.name else '')
            + (('ON ' + sql_name(i.table) + ' ') if i.table else '')
            + (('USING ' + i.type.upper() + ' ') if i.type else '')
            + '(' + keys + ');')


@contract('pydbml.renderer.sql.default.index:render_subject')
class render_subject:
    properties = ('C03', 'C10')
    params = {'subject': 'Union[str,Column,Expression]'}
    pure = True
    ret = 'str'

    def requires_named(subject):
        return not isinstance(subject, Column) or subject.name is not None

    def returns(subject):
        return sql_subject(subject)

    def ensures_ddl(subject, result):
        return result == sql_subject(subject)


@contract('pydbml.renderer.sql.default.index:render_index')
class render_index:
    """pk index -> PRIMARY KEY clause; otherwise CREATE [UNIQUE] INDEX [name] ON <qualified table>
    [USING TYPE] (subjects) — the table qualified exactly as in its CREATE TABLE."""
    properties = ('C03', 'C10')
    params = {'model': 'Index'}
    pure = True
    ret = 'str'

    def requires_checked(model):
        return subjects_ok(model) and (model.table is None or (model.table.name is not None and model.table.schema is not None))

    def returns(model):
        return sql_index(model)

    def ensures_ddl(model, result):
        return result == sql_index(model)


# ------------------------------------------------------------------------------------------ notes
@contract('pydbml.renderer.sql.default.note:prepare_text_for_sql')
class prepare_text_for_sql:
    properties = ('C13', 'C03')
    params = {'model': 'Note'}
    pure = True
    ret = 'str'

    def returns(model):
        return model.text.replace('\\\n', '').replace("'", '"')

    def ensures_no_single_quote(model, result):
        # embedded single quotes are neutralised: none survives inside the literal
        return "'" not in result

    def ensures_text(model, result):
        return result == model.text.replace('\\\n', '').replace("'", '"')


def sql_table_note(t):
    return 'COMMENT ON TABLE ' + sql_name(t) + " IS '" + t.note.text.replace('\\\n', '').replace("'", '"') + "';"


@contract('pydbml.renderer.sql.default.note:render_note')
class render_note:
    properties = ('C03', 'C13')
    params = {'model': 'Note'}
    pure = True
    ret = 'str'

    def requires_parent(model):
        return (not isinstance(model.parent, Table) or (model.parent.name is not None and model.parent.schema is not None)) \
            and (not isinstance(model.parent, Column) or model.parent.name is not None)

    def ensures_table_comment(model, result):
        return not (bool(model.text) and isinstance(model.parent, Table)) or result == (
            'COMMENT ON TABLE ' + sql_name(model.parent) + " IS '"
            + model.text.replace('\\\n', '').replace("'", '"') + "';")

    def ensures_empty(model, result):
        return bool(model.text) or result == ''


# ------------------------------------------------------------------------------------------ dispatch
def required_present(m):
    return all(getattr(m, a) is not None for a in m.required_attributes)


@contract('pydbml._classes.base:SQLObject.check_attributes_for_sql')
class check_attributes_for_sql:
    properties = ('C17',)
    params = {'self': 'Union[Table,Column,Enum,EnumItem,Index,Reference,Note,Expression]'}
    pure = True

    def raises_AttributeMissingError(self):
        return not required_present(self)
