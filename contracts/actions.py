"""Contracts for the parse actions in pydbml/definitions/*.py (C01 field copying, C14 comment
priority, C15 properties).  The parameter `tok` is a symbolic ParseResults whose possible named
results — and their multiplicities — are what the grammar can produce below the element the action is
attached to (that interface is checked against the live pyparsing graph by the S obligations of
pyvc/grammar.py); `x?` marks a result that may be absent."""
from pyvc.verify import contract
from pyvc.speclib import fresh, old
from pydbml.parser.blueprints import (ColumnBlueprint, EnumBlueprint, EnumItemBlueprint, IndexBlueprint,
                                      NoteBlueprint, ProjectBlueprint, ReferenceBlueprint, StickyNoteBlueprint,
                                      TableBlueprint, TableGroupBlueprint, ExpressionBlueprint)


def joined(lines):
    """the comment block above an element: its lines joined by a newline"""
    return '\n'.join(c[0] for c in lines)


@contract('pydbml.definitions.column:parse_column_settings')
class parse_column_settings:
    """[not null, pk, unique, increment, note: .., default: .., ref: .., k: 'v'] -> exactly the
    declared settings: `null` does not set not_null; a default keeps its literal (0 / false included);
    properties keep their keys and values."""
    properties = ('C01', 'C15', 'C14')
    params = {'s': 'str', 'loc': 'int',
              'tok': "PR(notnull?:bool, pk?:str, unique?:str, increment?:str, note?:NoteBlueprint, "
                     "default?:List[Union[str,int,bool,float,ExpressionBlueprint]], ref?:List[ReferenceBlueprint], "
                     "comment?:List[str], property?:List[List[str]])"}
    ret = 'Dict[Any]'

    def requires_shapes(s, loc, tok):
        return (('default' not in tok or len(tok['default']) >= 1)
                and ('comment' not in tok or len(tok['comment']) >= 1)
                and ('property' not in tok or all(len(p) == 2 for p in tok['property'])))

    def ensures_flags(s, loc, tok, result):
        return ((('not_null' in result) == ('notnull' in tok and tok['notnull']))
                and (('pk' in result) == ('pk' in tok))
                and (('unique' in result) == ('unique' in tok))
                and (('autoinc' in result) == ('increment' in tok))
                and ('not_null' not in result or result['not_null'] is True)
                and ('pk' not in result or result['pk'] is True)
                and ('unique' not in result or result['unique'] is True)
                and ('autoinc' not in result or result['autoinc'] is True))

    def ensures_values(s, loc, tok, result):
        return ((('note' in result) == ('note' in tok)) and ('note' not in tok or result['note'] is tok['note'])
                and (('default' in result) == ('default' in tok))
                and ('default' not in tok or result['default'] is tok['default'][0])
                and (('comment' in result) == ('comment' in tok))
                and ('comment' not in tok or result['comment'] == tok['comment'][0])
                and (('ref_blueprints' in result) == ('ref' in tok))
                and (('properties' in result) == ('property' in tok)))

    def ensures_nothing_else(s, loc, tok, result):
        return all(k == 'not_null' or k == 'pk' or k == 'unique' or k == 'autoinc' or k == 'note' or k == 'default'
                   or k == 'ref_blueprints' or k == 'comment' or k == 'properties' for k in result.keys())


def above(tok):
    return '\n'.join(c[0] for c in tok['comment_before'])


@contract('pydbml.definitions.column:parse_column')
class parse_column:
    """name type [constraints] [settings] // comment -> ColumnBlueprint with exactly the declared
    fields; the deprecated bare `pk` / `unique` constraints count; the trailing comment wins over the
    one from the settings list, which wins over the lines above."""
    properties = ('C01', 'C14', 'C15')
    params = {'s': 'str', 'loc': 'int',
              'tok': "PR(name:str, type:str, constraints?:List[str], settings?:DictS(not_null:bool, pk:bool, unique:bool, autoinc:bool, "
                     "note:NoteBlueprint, default:Union[str,int,bool,float,ExpressionBlueprint], "
                     "ref_blueprints:List[ReferenceBlueprint], comment:str, properties:Dict[str]), comment?:List[str], "
                     "comment_before?:List[List[str]])"}
    ret = 'ColumnBlueprint'
    allowed = ('TypeError',)

    def requires_shapes(s, loc, tok):
        return (('comment' not in tok or len(tok['comment']) >= 1)
                and ('comment_before' not in tok or all(len(c) >= 1 for c in tok['comment_before']))
                and ('settings' not in tok or all(
                    k == 'not_null' or k == 'pk' or k == 'unique' or k == 'autoinc' or k == 'note' or k == 'default'
                    or k == 'ref_blueprints' or k == 'comment' or k == 'properties' for k in tok['settings'].keys())))

    def requires_flags_are_true(s, loc, tok):
        # parse_column_settings only ever stores True for the flags (its own postcondition)
        return 'settings' not in tok or (
            ('pk' not in tok['settings'] or tok['settings']['pk'] is True)
            and ('unique' not in tok['settings'] or tok['settings']['unique'] is True)
            and ('not_null' not in tok['settings'] or tok['settings']['not_null'] is True)
            and ('autoinc' not in tok['settings'] or tok['settings']['autoinc'] is True))

    def ensures_identity(s, loc, tok, result):
        return fresh(result) and result.name == tok['name'] and result.type == tok['type']

    def ensures_pk(s, loc, tok, result):
        return result.pk == (('constraints' in tok and 'pk' in tok['constraints'])
                             or ('settings' in tok and 'pk' in tok['settings'] and tok['settings']['pk'] is True))

    def ensures_unique(s, loc, tok, result):
        return result.unique == (('constraints' in tok and 'unique' in tok['constraints'])
                                 or ('settings' in tok and 'unique' in tok['settings'] and tok['settings']['unique'] is True))

    def ensures_comment(s, loc, tok, result):
        return result.comment == (tok['comment'][0] if 'comment' in tok else
                                  (tok['settings']['comment'] if 'settings' in tok and 'comment' in tok['settings'] else
                                   (above(tok) if 'comment_before' in tok else None)))

    def ensures_settings_copied(s, loc, tok, result):
        return (('settings' in tok and 'default' in tok['settings']) == (result.default is not None)
                or not ('settings' in tok and 'default' in tok['settings'])) and \
            (not ('settings' in tok and 'default' in tok['settings']) or result.default is tok['settings']['default']) and \
            (not ('settings' in tok and 'note' in tok['settings']) or result.note is tok['settings']['note']) and \
            (not ('settings' in tok and 'properties' in tok['settings']) or result.properties is tok['settings']['properties']) and \
            (not ('settings' in tok and 'ref_blueprints' in tok['settings']) or result.ref_blueprints is tok['settings']['ref_blueprints'])

    def ensures_unset_stay_default(s, loc, tok, result):
        return (('settings' in tok and 'note' in tok['settings']) or result.note is None) and \
            (('settings' in tok and 'properties' in tok['settings']) or result.properties is None) and \
            (('settings' in tok and 'default' in tok['settings']) or result.default is None) and \
            (('settings' in tok and 'not_null' in tok['settings']) or result.not_null is False) and \
            (('settings' in tok and 'autoinc' in tok['settings']) or result.autoinc is False)


@contract('pydbml.definitions.enum:parse_enum_settings')
class parse_enum_settings:
    properties = ('C01', 'C14')
    params = {'s': 'str', 'loc': 'int', 'tok': "PR(note?:NoteBlueprint, comment?:List[str])"}
    ret = 'Dict[Any]'

    def requires_shapes(s, loc, tok):
        return 'comment' not in tok or len(tok['comment']) >= 1

    def ensures_exact(s, loc, tok, result):
        return ((('note' in result) == ('note' in tok)) and ('note' not in tok or result['note'] is tok['note'])
                and (('comment' in result) == ('comment' in tok))
                and ('comment' not in tok or result['comment'] == tok['comment'][0])
                and all(k == 'note' or k == 'comment' for k in result.keys()))


@contract('pydbml.definitions.enum:parse_enum_item')
class parse_enum_item:
    """item [note: ..] // comment: the comment after the settings wins, then the one right after the
    name, then the lines above."""
    properties = ('C01', 'C14')
    params = {'s': 'str', 'loc': 'int',
              'tok': "PR(name:str, settings?:DictS(note:NoteBlueprint, comment:str), comment?:List[str], comment_before?:List[List[str]])"}
    ret = 'EnumItemBlueprint'
    allowed = ('TypeError',)

    def requires_shapes(s, loc, tok):
        return (('comment' not in tok or len(tok['comment']) >= 1)
                and ('comment_before' not in tok or all(len(c) >= 1 for c in tok['comment_before']))
                and ('settings' not in tok or all(k == 'note' or k == 'comment' for k in tok['settings'].keys())))

    def ensures_fields(s, loc, tok, result):
        return fresh(result) and result.name == tok['name'] and \
            result.note is (tok['settings']['note'] if 'settings' in tok and 'note' in tok['settings'] else None)

    def ensures_comment(s, loc, tok, result):
        return result.comment == (tok['settings']['comment'] if 'settings' in tok and 'comment' in tok['settings'] else
                                  (tok['comment'][0] if 'comment' in tok else
                                   (above(tok) if 'comment_before' in tok else None)))


@contract('pydbml.definitions.index:parse_index_settings')
class parse_index_settings:
    properties = ('C01', 'C14')
    params = {'s': 'str', 'lok': 'int',
              'tok': "PR(unique?:str, name?:str, pk?:str, type?:str, note?:NoteBlueprint, comment?:List[str])"}
    ret = 'Dict[Any]'

    def requires_shapes(s, lok, tok):
        return 'comment' not in tok or len(tok['comment']) >= 1

    def ensures_exact(s, lok, tok, result):
        return ((('unique' in result) == ('unique' in tok)) and ('unique' not in result or result['unique'] is True)
                and (('pk' in result) == ('pk' in tok)) and ('pk' not in result or result['pk'] is True)
                and (('name' in result) == ('name' in tok)) and ('name' not in tok or result['name'] == tok['name'])
                and (('type' in result) == ('type' in tok)) and ('type' not in tok or result['type'] == tok['type'])
                and (('note' in result) == ('note' in tok)) and ('note' not in tok or result['note'] is tok['note'])
                and (('comment' in result) == ('comment' in tok))
                and ('comment' not in tok or result['comment'] == tok['comment'][0])
                and all(k == 'unique' or k == 'pk' or k == 'name' or k == 'type' or k == 'note' or k == 'comment'
                        for k in result.keys()))


@contract('pydbml.definitions.reference:parse_ref_settings')
class parse_ref_settings:
    properties = ('C01', 'C14')
    params = {'s': 'str', 'loc': 'int', 'tok': "PR(update?:List[str], delete?:List[str], comment?:List[str])"}
    ret = 'Dict[Any]'

    def requires_shapes(s, loc, tok):
        return (('comment' not in tok or len(tok['comment']) >= 1) and ('update' not in tok or len(tok['update']) >= 1)
                and ('delete' not in tok or len(tok['delete']) >= 1))

    def ensures_exact(s, loc, tok, result):
        return ((('on_update' in result) == ('update' in tok)) and ('update' not in tok or result['on_update'] == tok['update'][0])
                and (('on_delete' in result) == ('delete' in tok)) and ('delete' not in tok or result['on_delete'] == tok['delete'][0])
                and (('comment' in result) == ('comment' in tok))
                and ('comment' not in tok or result['comment'] == tok['comment'][0])
                and all(k == 'on_update' or k == 'on_delete' or k == 'comment' for k in result.keys()))


@contract('pydbml.definitions.reference:parse_inline_relation')
class parse_inline_relation:
    properties = ('C01',)
    params = {'s': 'str', 'loc': 'int', 'tok': "PR(type:str, table:str, field:str, schema?:str)"}
    ret = 'ReferenceBlueprint'

    def ensures_fields(s, loc, tok, result):
        return (fresh(result) and result.type == tok['type'] and result.inline is True
                and result.table2 == tok['table'] and result.col2 == tok['field']
                and result.schema2 == (tok['schema'] if 'schema' in tok else 'public')
                and result.table1 is None and result.col1 is None and result.schema1 == 'public'
                and result.name is None and result.comment is None and result.on_update is None and result.on_delete is None)


@contract('pydbml.definitions.reference:parse_ref_cols')
class parse_ref_cols:
    properties = ('C01',)
    params = {'s': 'str', 'loc': 'int', 'tok': "PR(table:str, field:str, schema?:str)"}
    ret = 'Dict[str]'

    def ensures_exact(s, loc, tok, result):
        return (result['table'] == tok['table'] and result['field'] == tok['field']
                and (('schema' in result) == ('schema' in tok)) and ('schema' not in tok or result['schema'] == tok['schema'])
                and all(k == 'table' or k == 'field' or k == 'schema' for k in result.keys()))


@contract('pydbml.definitions.reference:parse_ref')
class parse_ref:
    """Ref [name]: a.b > c.d [settings] // comment  — short and block form alike."""
    properties = ('C01', 'C14')
    params = {'s': 'str', 'loc': 'int',
              'tok': "PR(type:str, col1:Dict[str], col2:Dict[str], name?:str, settings?:DictS(on_update:str, on_delete:str, comment:str), comment?:List[str], "
                     "comment_before?:List[List[str]])"}
    ret = 'ReferenceBlueprint'
    allowed = ('TypeError',)

    def requires_shapes(s, loc, tok):
        return ('table' in tok['col1'] and 'field' in tok['col1'] and 'table' in tok['col2'] and 'field' in tok['col2']
                and ('comment' not in tok or len(tok['comment']) >= 1)
                and ('comment_before' not in tok or all(len(c) >= 1 for c in tok['comment_before']))
                and ('settings' not in tok or all(k == 'on_update' or k == 'on_delete' or k == 'comment'
                                                  for k in tok['settings'].keys())))

    def ensures_endpoints(s, loc, tok, result):
        return (fresh(result) and result.type == tok['type'] and result.inline is False
                and result.table1 == tok['col1']['table'] and result.col1 == tok['col1']['field']
                and result.table2 == tok['col2']['table'] and result.col2 == tok['col2']['field']
                and result.schema1 == (tok['col1']['schema'] if 'schema' in tok['col1'] else 'public')
                and result.schema2 == (tok['col2']['schema'] if 'schema' in tok['col2'] else 'public'))

    def ensures_name_and_actions(s, loc, tok, result):
        return (result.name == (tok['name'] if 'name' in tok else None)
                and result.on_update == (tok['settings']['on_update'] if 'settings' in tok and 'on_update' in tok['settings'] else None)
                and result.on_delete == (tok['settings']['on_delete'] if 'settings' in tok and 'on_delete' in tok['settings'] else None))

    def ensures_comment(s, loc, tok, result):
        return result.comment == (tok['comment'][0] if 'comment' in tok else
                                  (tok['settings']['comment'] if 'settings' in tok and 'comment' in tok['settings'] else
                                   (above(tok) if 'comment_before' in tok else None)))


@contract('pydbml.definitions.index:parse_index')
class parse_index:
    """subject(s) [settings] // comment: the trailing comment wins over the one from the settings
    list, which wins over the lines above."""
    properties = ('C01', 'C14')
    params = {'s': 'str', 'lok': 'int',
              'tok': "PR(subject:Union[str,ExpressionBlueprint,List[Union[str,ExpressionBlueprint]]], settings?:DictS(unique:bool, pk:bool, name:str, type:str, note:NoteBlueprint, comment:str), "
                     "comment?:List[str], comment_before?:List[List[str]])"}
    ret = 'IndexBlueprint'
    allowed = ('TypeError',)

    def requires_shapes(s, lok, tok):
        return (('comment' not in tok or len(tok['comment']) >= 1)
                and ('comment_before' not in tok or all(len(c) >= 1 for c in tok['comment_before']))
                and ('settings' not in tok or all(k == 'unique' or k == 'pk' or k == 'name' or k == 'type' or k == 'note'
                                                  or k == 'comment' for k in tok['settings'].keys())))

    def ensures_comment(s, lok, tok, result):
        return result.comment == (tok['comment'][0] if 'comment' in tok else
                                  (tok['settings']['comment'] if 'settings' in tok and 'comment' in tok['settings'] else
                                   (above(tok) if 'comment_before' in tok else None)))

    def ensures_settings(s, lok, tok, result):
        return (result.name == (tok['settings']['name'] if 'settings' in tok and 'name' in tok['settings'] else None)
                and result.type == (tok['settings']['type'] if 'settings' in tok and 'type' in tok['settings'] else None)
                and result.note is (tok['settings']['note'] if 'settings' in tok and 'note' in tok['settings'] else None))


@contract('pydbml.definitions.sticky_note:parse_sticky_note')
class parse_sticky_note:
    properties = ('C01',)
    params = {'s': 'str', 'loc': 'int', 'tok': "PR(name:str, text:str)"}
    ret = 'StickyNoteBlueprint'

    def ensures_fields(s, loc, tok, result):
        return fresh(result) and result.name == tok['name'] and result.text == tok['text']


@contract('pydbml.definitions.table:parse_table_settings')
class parse_table_settings:
    properties = ('C01',)
    params = {'s': 'str', 'loc': 'int', 'tok': "PR(note?:NoteBlueprint, header_color?:str)"}
    ret = 'Dict[Any]'

    def ensures_exact(s, loc, tok, result):
        return ((('note' in result) == ('note' in tok)) and ('note' not in tok or result['note'] is tok['note'])
                and (('header_color' in result) == ('header_color' in tok))
                and ('header_color' not in tok or result['header_color'] == tok['header_color'])
                and all(k == 'note' or k == 'header_color' for k in result.keys()))


@contract('pydbml.definitions.table:parse_table')
class parse_table:
    """Table [schema.]name [as alias] [settings] { columns, note, indexes, properties }: the note in
    the body overrides the one in the settings; a table without columns is refused with SyntaxError."""
    properties = ('C01', 'C06', 'C14', 'C15')
    params = {'s': 'str', 'loc': 'int',
              'tok': "PR(name:str, schema?:str, settings?:DictS(note:NoteBlueprint, header_color:str), alias?:List[str], "
                     "note?:List[NoteBlueprint], indexes?:List[List[IndexBlueprint]], columns?:List[ColumnBlueprint], "
                     "comment_before?:List[List[str]], property?:List[List[str]])"}
    ret = 'TableBlueprint'
    allowed = ('TypeError',)

    def requires_shapes(s, loc, tok):
        return (('alias' not in tok or len(tok['alias']) >= 1) and ('note' not in tok or len(tok['note']) >= 1)
                and ('indexes' not in tok or len(tok['indexes']) >= 1)
                and ('comment_before' not in tok or all(len(c) >= 1 for c in tok['comment_before']))
                and ('property' not in tok or all(len(p) == 2 for p in tok['property'])))

    def raises_SyntaxError(s, loc, tok):
        return 'columns' not in tok or len(tok['columns']) == 0

    def ensures_identity(s, loc, tok, result):
        return (fresh(result) and result.name == tok['name']
                and result.schema == (tok['schema'] if 'schema' in tok else 'public')
                and result.alias == (tok['alias'][0] if 'alias' in tok else None))

    def ensures_note_body_wins(s, loc, tok, result):
        return result.note is (tok['note'][0] if 'note' in tok else
                               (tok['settings']['note'] if 'settings' in tok and 'note' in tok['settings'] else None))

    def ensures_rest(s, loc, tok, result):
        return (result.header_color == (tok['settings']['header_color'] if 'settings' in tok and 'header_color' in tok['settings'] else None)
                and result.columns is tok['columns']
                and result.indexes is (tok['indexes'][0] if 'indexes' in tok else None)
                and result.comment == (above(tok) if 'comment_before' in tok else None)
                and (('property' in tok) == (result.properties is not None)))


@contract('pydbml.definitions.enum:parse_enum')
class parse_enum:
    properties = ('C01', 'C14')
    params = {'s': 'str', 'loc': 'int',
              'tok': "PR(name:str, items:List[EnumItemBlueprint], schema?:str, comment_before?:List[List[str]])"}
    ret = 'EnumBlueprint'

    def requires_shapes(s, loc, tok):
        return 'comment_before' not in tok or all(len(c) >= 1 for c in tok['comment_before'])

    def ensures_fields(s, loc, tok, result):
        return (fresh(result) and result.name == tok['name']
                and result.schema == (tok['schema'] if 'schema' in tok else 'public')
                and result.comment == (above(tok) if 'comment_before' in tok else None))

    def ensures_items_in_order(s, loc, tok, result):
        return len(result.items) == len(tok['items']) and \
            all(result.items[i] is tok['items'][i] for i in range(len(tok['items'])))


@contract('pydbml.definitions.table_group:parse_table_group')
class parse_table_group:
    properties = ('C01', 'C14')
    params = {'s': 'str', 'loc': 'int',
              'tok': "PR(name:str, items?:List[str], comment_before?:List[List[str]], note?:NoteBlueprint, color?:str)"}
    ret = 'TableGroupBlueprint'

    def requires_shapes(s, loc, tok):
        return 'comment_before' not in tok or all(len(c) >= 1 for c in tok['comment_before'])

    def ensures_fields(s, loc, tok, result):
        return (fresh(result) and result.name == tok['name']
                and result.comment == (above(tok) if 'comment_before' in tok else None)
                and result.note is (tok['note'] if 'note' in tok else None)
                and result.color == (tok['color'] if 'color' in tok else None))

    def ensures_items_in_order(s, loc, tok, result):
        return len(result.items) == (len(tok['items']) if 'items' in tok else 0) and \
            ('items' not in tok or all(result.items[i] == tok['items'][i] for i in range(len(tok['items']))))


@contract('pydbml.definitions.project:parse_project')
class parse_project:
    """Project name { field: 'value' ... Note ... }: the fields in order of first occurrence with the value of the last
    occurrence of each key, the last note, the comment above."""
    properties = ('C01', 'C14')
    params = {'s': 'str', 'loc': 'int',
              'tok': "PR(name:str, items?:List[Union[NoteBlueprint,List[str]]], comment_before?:List[List[str]])"}
    ret = 'ProjectBlueprint'

    def requires_shapes(s, loc, tok):
        return (('comment_before' not in tok or all(len(c) >= 1 for c in tok['comment_before']))
                and ('items' not in tok or all(isinstance(x, NoteBlueprint) or len(x) == 2 for x in tok['items'])))

    def ensures_fields(s, loc, tok, result):
        return (fresh(result) and result.name == tok['name']
                and result.comment == (above(tok) if 'comment_before' in tok else None))

    def ensures_note(s, loc, tok, result):
        return ((result.note is None) == ('items' not in tok or not any(isinstance(x, NoteBlueprint) for x in tok['items']))
                and (result.note is None or any(x is result.note for x in tok['items'])))

    def ensures_items(s, loc, tok, result):
        return ((result.items is None) == ('items' not in tok or all(isinstance(x, NoteBlueprint) for x in tok['items']))
                and (result.items is None or all(isinstance(x, NoteBlueprint) or (x[0] in result.items) for x in tok['items'])))
