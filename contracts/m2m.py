"""Contracts for the many-to-many path: Reference.join_table (C04: the join table stands for both sides; C10: computed
anew on every access; C17: refusals)."""
from pyvc.verify import contract, loc, loc_list
from pyvc.speclib import fresh, old
from pydbml.classes import Column, Table, Reference
from pydbml.exceptions import TableNotFoundError      # noqa: E402


def join_column(src, jc):
    """column `jc` of a join table stands for the referenced column `src`: <table>_<column>, same type, part of
    the composite primary key (C04)"""
    return (fresh(jc) and jc.name == src.table.name + '_' + src.name and jc.type is src.type
            and jc.not_null is True and jc.pk is True and jc.unique is False and jc.autoinc is False
            and jc.default is None and jc.comment is None)


@contract('pydbml._classes.reference:Reference.join_table')
class ref_join_table:
    """Only a many-to-many reference has a join table: a new table named <table1>_<table2> in table1's schema with
    one key column per referenced column, first side first, in order (C04); computed anew on every access (C10)."""
    properties = ('C04', 'C10', 'C17')
    params = {'self': 'Reference'}
    pure = True
    ret = 'Optional[Table]'
    allowed = ('IndexError', 'DBMLError')        # an empty or mixed-table side (Reference._validate)

    def requires_named(self):
        return (all(c.name is not None and (c.table is None or (c.table.name is not None)) for c in self.col1)
                and all(c.name is not None and (c.table is None or (c.table.name is not None)) for c in self.col2))

    def raises_TableNotFoundError(self):
        return (self.type == '<>' and len(self.col1) > 0 and len(self.col2) > 0
                and (self.col1[0].table is None or self.col2[0].table is None))

    def ensures_only_many_to_many(self, result):
        return (result is None) == (self.type != '<>')

    def ensures_header(self, result):
        return self.type != '<>' or (
            fresh(result) and result.name == self.col1[0].table.name + '_' + self.col2[0].table.name
            and result.schema is self.col1[0].table.schema and result.abstract is True and result.database is None
            and result.alias is None and len(result.indexes) == 0)

    def ensures_columns(self, result):
        return self.type != '<>' or (
            len(result.columns) == len(self.col1) + len(self.col2)
            and all(join_column(self.col1[j], result.columns[j]) and result.columns[j].table is result
                    for j in range(len(self.col1)))
            and all(join_column(self.col2[j], result.columns[len(self.col1) + j])
                    and result.columns[len(self.col1) + j].table is result for j in range(len(self.col2))))
