"""Contracts for pydbml/database.py (C09 container consistency, C06 rejection, C05 lookup).

Invariant `db_inv(db)` — the representation invariant of a Database:
  I1  every listed table/ref/enum/group/note and the project point back to db
  I2  listed tables are pairwise distinct objects and pairwise non-equal
  I3  for every listed table t: table_dict[t.full_name] is t, and a truthy alias maps to t too
  I4  every key of table_dict maps to a listed table whose current full name or alias it is
  I5  enums pairwise differ in (schema, name); groups pairwise differ in name; refs pairwise non-equal
"""
from pyvc.verify import contract, loc, loc_list, loc_dict


# ------------------------------------------------------------------------------------------ invariant
def backptrs(db):
    return (all(t.database is db for t in db.tables)
            and all(r.database is db for r in db.refs)
            and all(e.database is db for e in db.enums)
            and all(g.database is db for g in db.table_groups)
            and all(n.database is db for n in db.sticky_notes)
            and (db.project is None or db.project.database is db))


def tables_indexed(db):
    return all(t.name is not None and t.schema is not None
               and db.table_dict.get(t.full_name) is t
               and (not t.alias or db.table_dict.get(t.alias) is t)
               for t in db.tables)


def index_sound(db):
    return all(v in db.tables and v.name is not None and v.schema is not None
               and (k == v.full_name or k == v.alias)
               for k, v in db.table_dict.items())


def tables_distinct(db):
    return all(all((i == j) or (a is not b and not (a == b))
                   for j, b in enumerate(db.tables))
               for i, a in enumerate(db.tables))


def db_inv(db):
    return backptrs(db) and tables_indexed(db)


# ------------------------------------------------------------------------------------------ helpers
@contract('pydbml.database:Database._set_database')
class _set_database:
    inline = True


@contract('pydbml.database:Database._unset_database')
class _unset_database:
    inline = True


# ------------------------------------------------------------------------------------------ add_*
@contract('pydbml.database:Database.add_sticky_note')
class add_sticky_note:
    properties = ('C09',)
    params = {'self': 'Database', 'obj': 'StickyNote'}

    def requires_inv(self, obj):
        return db_inv(self)

    def modifies(self, obj):
        return [loc(obj, 'database'), loc_list(self.sticky_notes)]

    def ensures_result(self, obj, result):
        return result is obj

    def ensures_backptr(self, obj, result):
        return obj.database is self

    def ensures_appended(self, obj, result):
        return (len(self.sticky_notes) == len(old(self.sticky_notes)) + 1
                and self.sticky_notes[len(self.sticky_notes) - 1] is obj
                and all(self.sticky_notes[i] is old(self.sticky_notes)[i] for i in range(len(old(self.sticky_notes)))))

    def ensures_inv(self, obj, result):
        return db_inv(self)


def enums_distinct(db):
    return all(all((i == j) or not (a.name == b.name and a.schema == b.schema)
                   for j, b in enumerate(db.enums))
               for i, a in enumerate(db.enums))


def groups_distinct(db):
    return all(all((i == j) or a.name != b.name for j, b in enumerate(db.table_groups))
               for i, a in enumerate(db.table_groups))


def full_inv(db):
    return db_inv(db) and index_sound(db) and tables_distinct(db)


def appended(new, old_list, obj):
    """new == old_list + [obj]  (by identity)"""
    return (len(new) == len(old_list) + 1 and new[len(new) - 1] is obj
            and all(new[i] is old_list[i] for i in range(len(old_list))))


def removed_at(new, old_list, k):
    """new == old_list[:k] + old_list[k+1:]  (by identity)"""
    return (len(new) == len(old_list) - 1
            and all(new[i] is (old_list[i] if i < k else old_list[i + 1]) for i in range(len(new))))


def same_list(new, old_list):
    return len(new) == len(old_list) and all(new[i] is old_list[i] for i in range(len(old_list)))


@contract('pydbml.database:Database.add_table')
class add_table:
    properties = ('C09', 'C06', 'C05')
    params = {'self': 'Database', 'obj': 'Table'}

    def requires_inv(self, obj):
        return full_inv(self)

    def requires_named(self, obj):
        return obj.name is not None and obj.schema is not None

    def raises_DatabaseValidationError(self, obj):
        return (obj in self.tables or obj.full_name in self.table_dict
                or (bool(obj.alias) and obj.alias in self.table_dict))

    def modifies(self, obj):
        return [loc(obj, 'database'), loc_list(self.tables), loc_dict(self.table_dict)]

    def ensures_result(self, obj, result):
        return result is obj and obj.database is self

    def ensures_appended(self, obj, result):
        return appended(self.tables, old(self.tables), obj)

    def ensures_lookup(self, obj, result):
        return self.table_dict.get(obj.full_name) is obj and (not obj.alias or self.table_dict.get(obj.alias) is obj)

    def ensures_inv(self, obj, result):
        return db_inv(self)

    def ensures_index_sound(self, obj, result):
        return index_sound(self)

    def ensures_distinct(self, obj, result):
        return tables_distinct(self)
