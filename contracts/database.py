"""Contracts for pydbml/database.py (C09 container consistency, C06 rejection, C05 lookup, C16).

Representation invariant `db_inv(db)`:
  I1  every listed table/ref/enum/group/note and the project point back to db
  I2  listed tables carry a name and a schema (full_name is well defined)
Name lookup is *computed* (`Database.table_dict` is a property over the table list), so "lookup
finds exactly the listed tables under their current names" is the postcondition of that getter and
holds after any rename by construction; it is no longer an invariant that a rename could break.
"""
from pyvc.verify import contract, loc, loc_list, loc_dict, loc_each
from pyvc.speclib import fresh, old
from pydbml.classes import Table, Reference, Enum, TableGroup, Project, StickyNote


# ------------------------------------------------------------------------------------------ invariant
def backptrs(db):
    return (all(t.database is db for t in db.tables)
            and all(r.database is db for r in db.refs)
            and all(e.database is db for e in db.enums)
            and all(g.database is db for g in db.table_groups)
            and all(n.database is db for n in db.sticky_notes)
            and (db.project is None or db.project.database is db))


def tables_named(db):
    return all(t.name is not None and t.schema is not None for t in db.tables)


def lists_distinct(db):
    """the five collections of a database are five different list objects"""
    return (db.tables is not db.refs and db.tables is not db.enums and db.tables is not db.table_groups
            and db.tables is not db.sticky_notes and db.refs is not db.enums and db.refs is not db.table_groups
            and db.refs is not db.sticky_notes and db.enums is not db.table_groups
            and db.enums is not db.sticky_notes and db.table_groups is not db.sticky_notes)


def db_inv(db):
    return backptrs(db) and tables_named(db)


def appended(new, old_list, obj):
    """new == old_list + [obj]  (by identity)"""
    return (len(new) == len(old_list) + 1 and new[len(new) - 1] is obj
            and all(new[i] is old_list[i] for i in range(len(old_list))))


def removed_at(new, old_list, k):
    """new == old_list[:k] + old_list[k+1:]  (by identity)"""
    return (len(new) == len(old_list) - 1
            and all(new[i] is (old_list[i] if i < k else old_list[i + 1]) for i in range(len(new))))


def same_list(new, old_list):
    return len(new) == len(old_list) and all(new[i] is old_list[i] for i in range(len(old_list)))


def name_taken(db, key):
    """`key` is the current full name or (truthy) alias of a listed table."""
    return any(t.full_name == key or (bool(t.alias) and t.alias == key) for t in db.tables)


# ------------------------------------------------------------------------------------------ helpers
@contract('pydbml.database:Database._set_database')
class _set_database:
    inline = True


@contract('pydbml.database:Database._unset_database')
class _unset_database:
    inline = True


@contract('pydbml.database:Database.table_dict')
class table_dict:
    """The name index: exactly the current full names and truthy aliases of the listed tables,
    each mapped to a listed table that currently has that name (C09 lookup clause, C05)."""
    properties = ('C09', 'C05', 'C06')
    params = {'self': 'Database'}
    ret = 'Dict[Table]'
    pure = True

    on_demand = ('ensures_values_are_the_listed_objects',)

    def requires_named(self):
        return tables_named(self)

    def ensures_complete(self, result):
        return all(t.full_name in result and (not t.alias or t.alias in result)
                   for t in self.tables)

    def ensures_sound(self, result):
        return all(v in self.tables and (k == v.full_name or (bool(v.alias) and k == v.alias))
                   for k, v in result.items())

    def ensures_values_are_the_listed_objects(self, result):
        # identity, not equality (C05): every value is an element of the table list itself
        return all(any(self.tables[i] is v for i in range(len(self.tables))) for k, v in result.items())


# ------------------------------------------------------------------------------------------ add_*
@contract('pydbml.database:Database.add_sticky_note')
class add_sticky_note:
    properties = ('C09', 'C16')
    params = {'self': 'Database', 'obj': 'StickyNote'}

    def requires_inv(self, obj):
        return db_inv(self)

    def modifies(self, obj):
        return [loc(obj, 'database'), loc_list(self.sticky_notes)]

    def ensures_result(self, obj, result):
        return result is obj and obj.database is self

    def ensures_appended(self, obj, result):
        return appended(self.sticky_notes, old(self.sticky_notes), obj)

    def ensures_inv(self, obj, result):
        return db_inv(self)


@contract('pydbml.database:Database.add_table')
class add_table:
    properties = ('C09', 'C06', 'C05', 'C16')
    params = {'self': 'Database', 'obj': 'Table'}

    def requires_inv(self, obj):
        return db_inv(self)

    def requires_named(self, obj):
        return obj.name is not None and obj.schema is not None

    def raises_DatabaseValidationError(self, obj):
        # an equal table, the same schema.name, or a reused alias / an alias equal to an existing key
        return (obj in self.tables or name_taken(self, obj.full_name)
                or (bool(obj.alias) and name_taken(self, obj.alias)))

    def modifies(self, obj):
        return [loc(obj, 'database'), loc_list(self.tables)]

    def ensures_result(self, obj, result):
        return result is obj and obj.database is self

    def ensures_appended(self, obj, result):
        return appended(self.tables, old(self.tables), obj)

    def ensures_inv(self, obj, result):
        return db_inv(self)


def ref_touches(db, ref):
    """At least one endpoint column belongs to a table of this database."""
    return (any(c.table is not None and c.table.database is db for c in ref.col1)
            or any(c.table is not None and c.table.database is db for c in ref.col2))


@contract('pydbml.database:Database.add_reference')
class add_reference:
    properties = ('C09', 'C06', 'C16')
    params = {'self': 'Database', 'obj': 'Reference'}

    def requires_inv(self, obj):
        return db_inv(self)

    def raises_DatabaseValidationError(self, obj):
        return not ref_touches(self, obj) or obj in self.refs

    def modifies(self, obj):
        return [loc(obj, 'database'), loc_list(self.refs)]

    def ensures_result(self, obj, result):
        return result is obj and obj.database is self

    def ensures_appended(self, obj, result):
        return appended(self.refs, old(self.refs), obj)

    def ensures_inv(self, obj, result):
        return db_inv(self)


@contract('pydbml.database:Database.add_enum')
class add_enum:
    properties = ('C09', 'C06', 'C16')
    params = {'self': 'Database', 'obj': 'Enum'}

    def requires_inv(self, obj):
        return db_inv(self)

    def raises_DatabaseValidationError(self, obj):
        return obj in self.enums or any(e.name == obj.name and e.schema == obj.schema for e in self.enums)

    def modifies(self, obj):
        return [loc(obj, 'database'), loc_list(self.enums)]

    def ensures_result(self, obj, result):
        return result is obj and obj.database is self

    def ensures_appended(self, obj, result):
        return appended(self.enums, old(self.enums), obj)

    def ensures_inv(self, obj, result):
        return db_inv(self)


@contract('pydbml.database:Database.add_table_group')
class add_table_group:
    properties = ('C09', 'C06', 'C16')
    params = {'self': 'Database', 'obj': 'TableGroup'}

    def requires_inv(self, obj):
        return db_inv(self)

    def raises_DatabaseValidationError(self, obj):
        return obj in self.table_groups or any(g.name == obj.name for g in self.table_groups)

    def modifies(self, obj):
        return [loc(obj, 'database'), loc_list(self.table_groups)]

    def ensures_result(self, obj, result):
        return result is obj and obj.database is self

    def ensures_appended(self, obj, result):
        return appended(self.table_groups, old(self.table_groups), obj)

    def ensures_inv(self, obj, result):
        return db_inv(self)


@contract('pydbml.database:Database.add_project')
class add_project:
    properties = ('C09', 'C16')
    params = {'self': 'Database', 'obj': 'Project'}

    def requires_inv(self, obj):
        return db_inv(self)

    def modifies(self, obj):
        return [loc(obj, 'database'), loc(self, 'project'), loc(old(self.project), 'database')]

    def ensures_result(self, obj, result):
        return result is obj and obj.database is self and self.project is obj

    def ensures_old_detached(self, obj, result):
        return old(self.project) is None or old(self.project) is obj or old(self.project).database is None

    def ensures_inv(self, obj, result):
        return db_inv(self)


# ------------------------------------------------------------------------------------------ delete_*
@contract('pydbml.database:Database.delete_table')
class delete_table:
    properties = ('C09', 'C17')      # C17: a removed table is detached (it is the stored object that is detached)
    params = {'self': 'Database', 'obj': 'Table'}

    def requires_inv(self, obj):
        return db_inv(self)

    def raises_DatabaseValidationError(self, obj):
        return obj not in self.tables

    def modifies(self, obj):
        return [loc_each(self.tables, 'database'), loc_list(self.tables)]

    def ensures_was_listed(self, obj, result):
        return result in old(self.tables) and (result is obj or result == obj)

    def ensures_detached(self, obj, result):
        return result.database is None

    def ensures_removed(self, obj, result):
        return any(old(self.tables)[k] is result and removed_at(self.tables, old(self.tables), k)
                   for k in range(len(old(self.tables))))

    def ensures_inv(self, obj, result):
        return tables_named(self) and all(r.database is self for r in self.refs)


@contract('pydbml.database:Database.delete_project')
class delete_project:
    properties = ('C09',)
    params = {'self': 'Database'}

    def requires_inv(self):
        return db_inv(self)

    def raises_DatabaseValidationError(self):
        return self.project is None

    def modifies(self):
        return [loc(self, 'project'), loc(old(self.project), 'database')]

    def ensures_detached(self, result):
        return result is old(self.project) and result.database is None and self.project is None

    def ensures_inv(self, result):
        return db_inv(self)


@contract('pydbml.database:Database.__getitem__')
class db_getitem:
    properties = ('C09', 'C05')
    params = {'self': 'Database', 'k': 'Union[int,str]'}
    pure = True
    allowed = ('IndexError', 'KeyError')

    def requires_named(self, k):
        return tables_named(self)

    def ensures_int(self, k, result):
        return not isinstance(k, int) or (0 <= k < len(self.tables) and result is self.tables[k]) \
            or (k < 0 and result is self.tables[len(self.tables) + k])

    def ensures_str(self, k, result):
        return not isinstance(k, str) or (result in self.tables
                                          and (k == result.full_name or (bool(result.alias) and k == result.alias)))


@contract('pydbml.database:Database.delete_reference')
class delete_reference:
    properties = ('C09',)
    params = {'self': 'Database', 'obj': 'Reference'}

    def requires_inv(self, obj):
        return db_inv(self)

    def raises_DatabaseValidationError(self, obj):
        return obj not in self.refs

    def modifies(self, obj):
        return [loc_each(self.refs, 'database'), loc_list(self.refs)]

    def ensures_was_listed(self, obj, result):
        return result in old(self.refs) and (result is obj or result == obj)

    def ensures_detached(self, obj, result):
        return result.database is None

    def ensures_removed(self, obj, result):
        return any(old(self.refs)[k] is result and removed_at(self.refs, old(self.refs), k)
                   for k in range(len(old(self.refs))))

    def ensures_inv(self, obj, result):
        return tables_named(self) and all(t.database is self for t in self.tables)


@contract('pydbml.database:Database.delete_enum')
class delete_enum:
    properties = ('C09',)
    params = {'self': 'Database', 'obj': 'Enum'}

    def requires_inv(self, obj):
        return db_inv(self)

    def raises_DatabaseValidationError(self, obj):
        return obj not in self.enums

    def modifies(self, obj):
        return [loc_each(self.enums, 'database'), loc_list(self.enums)]

    def ensures_was_listed(self, obj, result):
        return result in old(self.enums) and (result is obj or result == obj)

    def ensures_detached(self, obj, result):
        return result.database is None

    def ensures_removed(self, obj, result):
        return any(old(self.enums)[k] is result and removed_at(self.enums, old(self.enums), k)
                   for k in range(len(old(self.enums))))

    def ensures_inv(self, obj, result):
        return tables_named(self) and all(t.database is self for t in self.tables)


@contract('pydbml.database:Database.delete_table_group')
class delete_table_group:
    properties = ('C09',)
    params = {'self': 'Database', 'obj': 'TableGroup'}

    def requires_inv(self, obj):
        return db_inv(self)

    def raises_DatabaseValidationError(self, obj):
        return obj not in self.table_groups

    def modifies(self, obj):
        return [loc_each(self.table_groups, 'database'), loc_list(self.table_groups)]

    def ensures_was_listed(self, obj, result):
        return result in old(self.table_groups) and result is obj

    def ensures_detached(self, obj, result):
        return result.database is None

    def ensures_removed(self, obj, result):
        return any(old(self.table_groups)[k] is result and removed_at(self.table_groups, old(self.table_groups), k)
                   for k in range(len(old(self.table_groups))))

    def ensures_inv(self, obj, result):
        return tables_named(self) and all(t.database is self for t in self.tables)


@contract('pydbml.database:Database.__init__')
class db_init:
    properties = ('C09', 'C16', 'C15', 'C11')
    params = {'self': 'Database', 'sql_renderer': 'Cls', 'dbml_renderer': 'Cls', 'allow_properties': 'bool'}

    def modifies(self, sql_renderer, dbml_renderer, allow_properties):
        return [loc(self, 'sql_renderer'), loc(self, 'dbml_renderer'), loc(self, 'tables'), loc(self, 'refs'),
                loc(self, 'enums'), loc(self, 'table_groups'), loc(self, 'sticky_notes'), loc(self, 'project'),
                loc(self, 'allow_properties')]

    def ensures_empty(self, sql_renderer, dbml_renderer, allow_properties, result):
        return (len(self.tables) == 0 and len(self.refs) == 0 and len(self.enums) == 0
                and len(self.table_groups) == 0 and len(self.sticky_notes) == 0 and self.project is None)

    def ensures_fresh_lists(self, sql_renderer, dbml_renderer, allow_properties, result):
        # C11: every container is allocated by this call (no shared default)
        return (fresh(self.tables) and fresh(self.refs) and fresh(self.enums)
                and fresh(self.table_groups) and fresh(self.sticky_notes))

    def ensures_distinct_lists(self, sql_renderer, dbml_renderer, allow_properties, result):
        return lists_distinct(self)

    def ensures_options(self, sql_renderer, dbml_renderer, allow_properties, result):
        return (self.sql_renderer is sql_renderer and self.dbml_renderer is dbml_renderer
                and self.allow_properties is allow_properties)

    def ensures_inv(self, sql_renderer, dbml_renderer, allow_properties, result):
        return db_inv(self)


@contract('pydbml.database:Database.__iter__')
class db_iter:
    properties = ('C09',)
    params = {'self': 'Database'}
    pure = True

    def ensures_lists_tables(self, result):
        return same_list(list(result), self.tables)


def is_supported(obj):
    return (isinstance(obj, Table) or isinstance(obj, Reference) or isinstance(obj, Enum)
            or isinstance(obj, TableGroup) or isinstance(obj, Project) or isinstance(obj, StickyNote))


@contract('pydbml.database:Database.add')
class db_add:
    """Dispatch: `add(obj)` behaves exactly as the add_* method of obj's kind (whose contracts carry
    C09/C06); anything else is refused with DatabaseValidationError and nothing is written."""
    properties = ('C09', 'C06', 'C16')
    params = {'self': 'Database', 'obj': 'Union[Table,Reference,Enum,TableGroup,Project,StickyNote,Expression,str,int,None]'}

    def requires_inv(self, obj):
        return db_inv(self)

    def requires_named(self, obj):
        return not isinstance(obj, Table) or (obj.name is not None and obj.schema is not None)

    def raises_DatabaseValidationError(self, obj):
        return (not is_supported(obj)
                or (isinstance(obj, Table) and (obj in self.tables or name_taken(self, obj.full_name)
                                                or (bool(obj.alias) and name_taken(self, obj.alias))))
                or (isinstance(obj, Reference) and (not ref_touches(self, obj) or obj in self.refs))
                or (isinstance(obj, Enum) and (obj in self.enums or any(e.name == obj.name and e.schema == obj.schema for e in self.enums)))
                or (isinstance(obj, TableGroup) and (obj in self.table_groups or any(g.name == obj.name for g in self.table_groups))))

    def modifies(self, obj):
        return [loc(obj, 'database'), loc_list(self.tables), loc_list(self.refs), loc_list(self.enums),
                loc_list(self.table_groups), loc_list(self.sticky_notes), loc(self, 'project'),
                loc(old(self.project), 'database')]

    def ensures_result(self, obj, result):
        return result is obj and obj.database is self

    def ensures_listed(self, obj, result):
        return ((not isinstance(obj, Table) or appended(self.tables, old(self.tables), obj))
                and (not isinstance(obj, Reference) or appended(self.refs, old(self.refs), obj))
                and (not isinstance(obj, Enum) or appended(self.enums, old(self.enums), obj))
                and (not isinstance(obj, TableGroup) or appended(self.table_groups, old(self.table_groups), obj))
                and (not isinstance(obj, StickyNote) or appended(self.sticky_notes, old(self.sticky_notes), obj))
                and (not isinstance(obj, Project) or self.project is obj))

    def ensures_others_unchanged(self, obj, result):
        return ((isinstance(obj, Table) or same_list(self.tables, old(self.tables)))
                and (isinstance(obj, Reference) or same_list(self.refs, old(self.refs)))
                and (isinstance(obj, Enum) or same_list(self.enums, old(self.enums)))
                and (isinstance(obj, TableGroup) or same_list(self.table_groups, old(self.table_groups)))
                and (isinstance(obj, StickyNote) or same_list(self.sticky_notes, old(self.sticky_notes))))

    def ensures_project_kept(self, obj, result):
        return isinstance(obj, Project) or self.project is old(self.project)

    def ensures_inv(self, obj, result):
        return db_inv(self)
