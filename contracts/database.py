"""Contracts for pydbml/database.py (C09 container consistency, C06 rejection, C05 lookup, C16).

Representation invariant `db_inv(db)`:
  I1  every listed table/ref/enum/group/note and the project point back to db
  I2  listed tables carry a name and a schema (full_name is well defined)
Name lookup is *computed* (`Database.table_dict` is a property over the table list), so "lookup
finds exactly the listed tables under their current names" is the postcondition of that getter and
holds after any rename by construction; it is no longer an invariant that a rename could break.
"""
from pyvc.verify import contract, loc, loc_list, loc_dict


# ------------------------------------------------------------------------------------------ invariant
def backptrs(db):
    return (all(t.database is db for t in db.tables)
            and all(r.database is db for r in db.refs)
            and all(e.database is db for e in db.enums)
            and all(g.database is db for g in db.table_groups)
            and all(n.database is db for n in db.sticky_notes)
            and (db.project is None or db.project.database is db))


def tables_named(db):
    return all(t.name is not None and t.schema is not None for t in db.tables)


def db_inv(db):
    return backptrs(db) and tables_named(db)


def appended(new, old_list, obj):
    """new == old_list + [obj]  (by identity)"""
    return (len(new) == len(old_list) + 1 and new[len(new) - 1] is obj
            and all(new[i] is old_list[i] for i in range(len(old_list))))


def removed_at(new, old_list, k):
    """new == old_list[:k] + old_list[k+1:]  (by identity)"""
    return (len(new) == len(old_list) - 1
            and all(new[i] is (old_list[i] if i < k else old_list[i + 1]) for i in range(len(new))))


def same_list(new, old_list):
    return len(new) == len(old_list) and all(new[i] is old_list[i] for i in range(len(old_list)))


def name_taken(db, key):
    """`key` is the current full name or (truthy) alias of a listed table."""
    return any(t.full_name == key or (bool(t.alias) and t.alias == key) for t in db.tables)


# ------------------------------------------------------------------------------------------ helpers
@contract('pydbml.database:Database._set_database')
class _set_database:
    inline = True


@contract('pydbml.database:Database._unset_database')
class _unset_database:
    inline = True


@contract('pydbml.database:Database.table_dict')
class table_dict:
    """The name index: exactly the current full names and truthy aliases of the listed tables,
    each mapped to a listed table that currently has that name (C09 lookup clause, C05)."""
    properties = ('C09', 'C05', 'C06')
    params = {'self': 'Database'}
    ret = 'Dict[Table]'
    pure = True

    def requires_named(self):
        return tables_named(self)

    def ensures_complete(self, result):
        return all(t.full_name in result and (not t.alias or t.alias in result)
                   for t in self.tables)

    def ensures_sound(self, result):
        return all(v in self.tables and (k == v.full_name or (bool(v.alias) and k == v.alias))
                   for k, v in result.items())


# ------------------------------------------------------------------------------------------ add_*
@contract('pydbml.database:Database.add_sticky_note')
class add_sticky_note:
    properties = ('C09',)
    params = {'self': 'Database', 'obj': 'StickyNote'}

    def requires_inv(self, obj):
        return db_inv(self)

    def modifies(self, obj):
        return [loc(obj, 'database'), loc_list(self.sticky_notes)]

    def ensures_result(self, obj, result):
        return result is obj and obj.database is self

    def ensures_appended(self, obj, result):
        return appended(self.sticky_notes, old(self.sticky_notes), obj)

    def ensures_inv(self, obj, result):
        return db_inv(self)


@contract('pydbml.database:Database.add_table')
class add_table:
    properties = ('C09', 'C06', 'C05')
    params = {'self': 'Database', 'obj': 'Table'}

    def requires_inv(self, obj):
        return db_inv(self)

    def requires_named(self, obj):
        return obj.name is not None and obj.schema is not None

    def raises_DatabaseValidationError(self, obj):
        # an equal table, the same schema.name, or a reused alias / an alias equal to an existing key
        return (obj in self.tables or name_taken(self, obj.full_name)
                or (bool(obj.alias) and name_taken(self, obj.alias)))

    def modifies(self, obj):
        return [loc(obj, 'database'), loc_list(self.tables)]

    def ensures_result(self, obj, result):
        return result is obj and obj.database is self

    def ensures_appended(self, obj, result):
        return appended(self.tables, old(self.tables), obj)

    def ensures_inv(self, obj, result):
        return db_inv(self)
