"""Contracts for pydbml/parser/blueprints.py and PyDBMLParser.locate_table (C01 field copying,
C05 identity links, C06 not-found errors, C11 fresh copies, C13 note normalisation composition)."""
from pyvc.verify import contract, loc, loc_list
from pyvc.speclib import fresh, old, abstract
from pydbml.classes import (Column, Enum, EnumItem, Expression, Index, Note, Project, Reference, StickyNote,
                            Table, TableGroup)
from pydbml.parser.blueprints import (NoteBlueprint, ExpressionBlueprint, ColumnBlueprint)
from contracts.database import name_taken, tables_named


@abstract('str', heap=False)
def without_blank_edge_lines(text):
    from pydbml.tools import strip_empty_lines as f
    return f(text)


@abstract('str', heap=False)
def without_common_indentation(text):
    from pydbml.tools import remove_indentation as f
    return f(text)


def normalised(text):
    """note normal form: blank edge lines removed, then the common indentation (C13)"""
    return without_common_indentation(without_blank_edge_lines(text))


@contract('pydbml.tools:strip_empty_lines')
class strip_empty_lines:
    tier = 'none'      # backtracking regular expression: bounded only (C13.B.norm, C13.B.norm-lines)
    params = {'source': 'str'}
    pure = True
    ret = 'str'

    def returns(source):
        return without_blank_edge_lines(source)


@contract('pydbml.tools:remove_indentation')
class remove_indentation:
    tier = 'none'      # regex search per line: bounded only (C13.B.norm, C13.B.norm-lines)
    params = {'source': 'str'}
    pure = True
    ret = 'str'

    def returns(source):
        return without_common_indentation(source)


@contract('pydbml.parser.blueprints:NoteBlueprint._preformat_text')
class note_preformat:
    properties = ('C13',)
    params = {'self': 'NoteBlueprint'}
    pure = True
    ret = 'str'

    def returns(self):
        return normalised(self.text)

    def ensures_composition(self, result):
        return result == normalised(self.text)


@contract('pydbml.parser.blueprints:NoteBlueprint.build')
class note_build:
    properties = ('C01', 'C13', 'C11')
    params = {'self': 'NoteBlueprint'}
    pure = True
    ret = 'Note'

    def ensures_note(self, result):
        return fresh(result) and result.text == normalised(self.text) and result.parent is None


@contract('pydbml.parser.blueprints:StickyNoteBlueprint._preformat_text')
class sticky_preformat:
    properties = ('C13',)
    params = {'self': 'StickyNoteBlueprint'}
    pure = True
    ret = 'str'

    def returns(self):
        return normalised(self.text)

    def ensures_composition(self, result):
        return result == normalised(self.text)


@contract('pydbml.parser.blueprints:StickyNoteBlueprint.build')
class sticky_build:
    properties = ('C01', 'C13')
    params = {'self': 'StickyNoteBlueprint'}
    pure = True
    ret = 'StickyNote'

    def ensures_note(self, result):
        return fresh(result) and result.name == self.name and result.text == normalised(self.text) \
            and result.database is None


@contract('pydbml.parser.blueprints:ExpressionBlueprint.build')
class expression_build:
    properties = ('C01',)
    params = {'self': 'ExpressionBlueprint'}
    pure = True
    ret = 'Expression'

    def ensures_text(self, result):
        return fresh(result) and result.text == self.text


@contract('pydbml.parser.blueprints:IndexBlueprint.build')
class index_build:
    properties = ('C01', 'C05')
    params = {'self': 'IndexBlueprint'}
    pure = True
    ret = 'Index'

    def ensures_fields(self, result):
        return (fresh(result) and result.name == (self.name if self.name else None) and result.unique is self.unique
                and result.type == self.type and result.pk is self.pk and result.comment == self.comment
                and result.table is None and len(result.subjects) == 0)

    def ensures_note(self, result):
        return result.note.parent is result and \
            result.note.text == (normalised(self.note.text) if self.note is not None else '')


@contract('pydbml.parser.blueprints:EnumItemBlueprint.build')
class enum_item_build:
    properties = ('C01', 'C05')
    params = {'self': 'EnumItemBlueprint'}
    pure = True
    ret = 'EnumItem'

    def ensures_fields(self, result):
        return (fresh(result) and result.name == self.name and result.comment == self.comment
                and result.note.parent is result
                and result.note.text == (normalised(self.note.text) if self.note is not None else ''))


@contract('pydbml.parser.blueprints:ProjectBlueprint.build')
class project_build:
    properties = ('C01', 'C05', 'C11')
    params = {'self': 'ProjectBlueprint'}
    pure = True
    ret = 'Project'

    def ensures_fields(self, result):
        return (fresh(result) and result.name == self.name and result.comment == self.comment
                and result.database is None and result.note.parent is result
                and result.note.text == (normalised(self.note.text) if self.note is not None else ''))

    def ensures_items_are_a_copy(self, result):
        # C11: the project gets its own dict, never the blueprint's
        return fresh(result.items) and \
            (self.items is None or all(result.items.get(k) == v for k, v in self.items.items())) and \
            all(self.items is not None and self.items.get(k) == v for k, v in result.items.items())


# ------------------------------------------------------------------------------------------ locate_table
@contract('pydbml.parser.parser:PyDBMLParser.locate_table')
class locate_table:
    """A table is addressed by schema.name first and by alias second; nothing else is returned, and
    a miss is a TableNotFoundError (C05, C06)."""
    properties = ('C05', 'C06')
    params = {'self': 'PyDBMLParser', 'schema': 'str', 'name': 'str'}
    pure = True
    ret = 'Table'

    def requires_db(self, schema, name):
        return self.database is None or tables_named(self.database)

    def raises_RuntimeError(self, schema, name):
        return self.database is None

    def raises_TableNotFoundError(self, schema, name):
        return self.database is not None and not name_taken(self.database, schema + '.' + name) \
            and not name_taken(self.database, name)

    def ensures_listed(self, schema, name, result):
        return result in self.database.tables

    def ensures_by_full_name_first(self, schema, name, result):
        return not name_taken(self.database, schema + '.' + name) or \
            (result.full_name == schema + '.' + name or (bool(result.alias) and result.alias == schema + '.' + name))

    def ensures_else_by_alias_or_bare_key(self, schema, name, result):
        return name_taken(self.database, schema + '.' + name) or \
            (result.full_name == name or (bool(result.alias) and result.alias == name))
