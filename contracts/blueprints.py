"""Contracts for pydbml/parser/blueprints.py and PyDBMLParser.locate_table (C01 field copying,
C05 identity links, C06 not-found errors, C11 fresh copies, C13 note normalisation composition)."""
from pyvc.verify import contract, loc, loc_list, loc_each
from pyvc.speclib import fresh, old, abstract
from pydbml.classes import (Column, Enum, EnumItem, Expression, Index, Note, Project, Reference, StickyNote,
                            Table, TableGroup)
from pydbml.parser.blueprints import (NoteBlueprint, ExpressionBlueprint, ColumnBlueprint)
from contracts.database import name_taken, tables_named
from contracts.table import column_at


@abstract('str', heap=False)
def without_blank_edge_lines(text):
    from pydbml.tools import strip_empty_lines as f
    return f(text)


@abstract('str', heap=False)
def without_common_indentation(text):
    from pydbml.tools import remove_indentation as f
    return f(text)


def normalised(text):
    """note normal form: blank edge lines removed, then the common indentation (C13)"""
    return without_common_indentation(without_blank_edge_lines(text))


@contract('pydbml.tools:strip_empty_lines')
class strip_empty_lines:
    tier = 'none'      # backtracking regular expression: bounded only (C13.B.norm, C13.B.norm-lines)
    params = {'source': 'str'}
    pure = True
    ret = 'str'

    def returns(source):
        return without_blank_edge_lines(source)


@contract('pydbml.tools:remove_indentation')
class remove_indentation:
    tier = 'none'      # regex search per line: bounded only (C13.B.norm, C13.B.norm-lines)
    params = {'source': 'str'}
    pure = True
    ret = 'str'

    def returns(source):
        return without_common_indentation(source)


@contract('pydbml.parser.blueprints:NoteBlueprint._preformat_text')
class note_preformat:
    properties = ('C13',)
    params = {'self': 'NoteBlueprint'}
    pure = True
    ret = 'str'

    def returns(self):
        return normalised(self.text)

    def ensures_composition(self, result):
        return result == normalised(self.text)


@contract('pydbml.parser.blueprints:NoteBlueprint.build')
class note_build:
    fresh_result = True
    properties = ('C01', 'C13', 'C11')
    params = {'self': 'NoteBlueprint'}
    pure = True
    ret = 'Note'

    def ensures_note(self, result):
        return fresh(result) and result.text == normalised(self.text) and result.parent is None


@contract('pydbml.parser.blueprints:StickyNoteBlueprint._preformat_text')
class sticky_preformat:
    properties = ('C13',)
    params = {'self': 'StickyNoteBlueprint'}
    pure = True
    ret = 'str'

    def returns(self):
        return normalised(self.text)

    def ensures_composition(self, result):
        return result == normalised(self.text)


@contract('pydbml.parser.blueprints:StickyNoteBlueprint.build')
class sticky_build:
    fresh_result = True
    properties = ('C01', 'C13')
    params = {'self': 'StickyNoteBlueprint'}
    pure = True
    ret = 'StickyNote'

    def ensures_note(self, result):
        return fresh(result) and result.name == self.name and result.text == normalised(self.text) \
            and result.database is None


@contract('pydbml.parser.blueprints:ExpressionBlueprint.build')
class expression_build:
    fresh_result = True
    properties = ('C01',)
    params = {'self': 'ExpressionBlueprint'}
    pure = True
    ret = 'Expression'

    def ensures_text(self, result):
        return fresh(result) and result.text == self.text


@contract('pydbml.parser.blueprints:IndexBlueprint.build')
class index_build:
    fresh_result = True
    properties = ('C01', 'C05')
    params = {'self': 'IndexBlueprint'}
    pure = True
    ret = 'Index'

    def ensures_fields(self, result):
        return (fresh(result) and result.name == (self.name if self.name else None) and result.unique is self.unique
                and result.type == self.type and result.pk is self.pk and result.comment == self.comment
                and result.table is None and len(result.subjects) == 0)

    def ensures_note(self, result):
        return result.note.parent is result and \
            result.note.text == (normalised(self.note.text) if self.note is not None else '')


@contract('pydbml.parser.blueprints:EnumItemBlueprint.build')
class enum_item_build:
    fresh_result = True
    properties = ('C01', 'C05')
    params = {'self': 'EnumItemBlueprint'}
    pure = True
    ret = 'EnumItem'

    def ensures_fields(self, result):
        return (fresh(result) and result.name == self.name and result.comment == self.comment
                and result.note.parent is result
                and result.note.text == (normalised(self.note.text) if self.note is not None else ''))


@contract('pydbml.parser.blueprints:ProjectBlueprint.build')
class project_build:
    fresh_result = True
    properties = ('C01', 'C05', 'C11')
    params = {'self': 'ProjectBlueprint'}
    pure = True
    ret = 'Project'

    def ensures_fields(self, result):
        return (fresh(result) and result.name == self.name and result.comment == self.comment
                and result.database is None and result.note.parent is result
                and result.note.text == (normalised(self.note.text) if self.note is not None else ''))

    def ensures_items_are_a_copy(self, result):
        # C11: the project gets its own dict, never the blueprint's
        return fresh(result.items) and \
            (self.items is None or all(result.items.get(k) == v for k, v in self.items.items())) and \
            all(self.items is not None and self.items.get(k) == v for k, v in result.items.items())


# ------------------------------------------------------------------------------------------ locate_table
@abstract('Table')
def located(parser, schema, name):
    """the table PyDBMLParser.locate_table answers with (a name for its result; what it is, is the ensures)"""
    return parser.locate_table(schema, name)


@contract('pydbml.parser.parser:PyDBMLParser.locate_table')
class locate_table:
    uses = {'pydbml.database:Database.table_dict': ('ensures_values_are_the_listed_objects',)}
    returns_defines = True
    assume_at_call = ('ensures_listed', 'ensures_by_full_name_first', 'ensures_else_by_alias_or_bare_key',
                      'ensures_not_new')

    def returns(self, schema, name):
        return located(self, schema, name)

    """A table is addressed by schema.name first and by alias second; nothing else is returned, and
    a miss is a TableNotFoundError (C05, C06)."""
    properties = ('C05', 'C06', 'C01', 'C02')      # C01/C02: every endpoint and group item goes through this lookup
    params = {'self': 'PyDBMLParser', 'schema': 'str', 'name': 'str'}
    pure = True
    ret = 'Table'

    def requires_db(self, schema, name):
        return self.database is None or tables_named(self.database)

    def raises_RuntimeError(self, schema, name):
        return self.database is None

    def raises_TableNotFoundError(self, schema, name):
        return self.database is not None and not name_taken(self.database, schema + '.' + name) \
            and not name_taken(self.database, name)

    def ensures_listed(self, schema, name, result):
        # one of the listed table objects itself (identity, not an equal copy: C05)
        return any(self.database.tables[i] is result for i in range(len(self.database.tables)))

    def ensures_not_new(self, schema, name, result):
        # an object (with its column list) that existed before the call: lookups create nothing
        return not fresh(result) and not fresh(result.columns)

    def ensures_by_full_name_first(self, schema, name, result):
        return not name_taken(self.database, schema + '.' + name) or \
            (result.full_name == schema + '.' + name or (bool(result.alias) and result.alias == schema + '.' + name))

    def ensures_else_by_alias_or_bare_key(self, schema, name, result):
        return name_taken(self.database, schema + '.' + name) or \
            (result.full_name == name or (bool(result.alias) and result.alias == name))


# ------------------------------------------------------------------------------------------ ColumnBlueprint
def enum_key(type_text):
    """(schema, name) a column type text names when read as an enum reference: split at the LAST dot"""
    return (type_text.rsplit('.', 1)[0], type_text.rsplit('.', 1)[1]) if '.' in type_text else ('public', type_text)


@contract('pydbml.parser.blueprints:ColumnBlueprint.build')
class column_build:
    """C01: every declared setting reaches the Column unchanged; a type text that names an enum of the
    database (schema.name split at the last dot, default schema public) is replaced by the FIRST such
    enum object itself (C05), any other type text stays text.  C08: total on any type text."""
    fresh_result = True
    properties = ('C01', 'C05', 'C08', 'C15')
    params = {'self': 'ColumnBlueprint'}
    ret = 'Column'

    def requires_parser_ready(self):
        return self.parser is None or self.parser.database is not None

    def requires_text_type(self):
        return isinstance(self.type, str)

    def modifies(self):
        return [loc(self, 'default'), loc(self, 'type')]

    def ensures_fields(self, result):
        return (fresh(result) and result.name == self.name and result.unique is self.unique
                and result.not_null is self.not_null and result.pk is self.pk and result.autoinc is self.autoinc
                and result.comment == self.comment and result.table is None and result.type is self.type
                and result.default is self.default)

    def ensures_default(self, result):
        return (fresh(result.default) and isinstance(result.default, Expression)
                and result.default.text == old(self.default).text) \
            if isinstance(old(self.default), ExpressionBlueprint) else result.default is old(self.default)

    def ensures_type_linked(self, result):
        key = enum_key(old(self.type))
        enums = self.parser.database.enums if self.parser is not None else []
        return (any(result.type is enums[j] and (enums[j].schema, enums[j].name) == key
                    and all((enums[m].schema, enums[m].name) != key for m in range(j)) for j in range(len(enums)))
                if self.parser is not None and any((e.schema, e.name) == key for e in enums)
                else result.type == old(self.type))

    def ensures_note(self, result):
        return result.note.parent is result and \
            result.note.text == (normalised(self.note.text) if self.note is not None else '')

    def ensures_properties(self, result):
        return (result.properties is self.properties) if self.properties else \
            (fresh(result.properties) and len(result.properties) == 0)


# ------------------------------------------------------------------------------------------ ReferenceBlueprint
def addressed(db, schema, name, t):
    """`t` is a listed table that the pair (schema, name) addresses: by schema.name (or an alias spelled
    so) when some listed table answers to it, else by the bare name as full name or alias (C05)."""
    return (any(db.tables[i] is t for i in range(len(db.tables)))
            and ((t.full_name == schema + '.' + name or (bool(t.alias) and t.alias == schema + '.' + name))
                 if name_taken(db, schema + '.' + name)
                 else (t.full_name == name or (bool(t.alias) and t.alias == name))))


def bound_side(parser, schema, table, col_text, cols):
    """`cols` are, in order, the columns named by the comma-separated endpoint text, every one an element
    of the column list of the table (schema, table) addresses, found there under exactly that name."""
    return (addressed(parser.database, schema, table, located(parser, schema, table))
            and len(cols) == len(col_text.split(','))
            and all(cols[j] is column_at(located(parser, schema, table), col_text.split(',')[j].strip('() '))
                    and cols[j].name == col_text.split(',')[j].strip('() ')
                    and any(located(parser, schema, table).columns[m] is cols[j]
                            for m in range(len(located(parser, schema, table).columns)))
                    for j in range(len(cols))))


@contract('pydbml.parser.blueprints:ReferenceBlueprint.build')
class reference_build:
    """C01/C05: the Reference carries the declared type, flags, name, comment and actions, and its endpoints
    are the Column objects *of the database's tables* (not copies) that the endpoint texts name, in order.
    C06: it returns only if both tables and every named column exist; otherwise one of the three
    exceptions below escapes (which one is pinned by C06.B.rules on real documents)."""
    fresh_result = True
    properties = ('C01', 'C05', 'C06')
    params = {'self': 'ReferenceBlueprint'}
    pure = True
    ret = 'Reference'
    from pydbml.exceptions import TableNotFoundError, ColumnNotFoundError
    allowed = (TableNotFoundError, ColumnNotFoundError, RuntimeError)

    def requires_db(self):
        return self.parser is None or self.parser.database is None or tables_named(self.parser.database)

    def ensures_known(self, result):
        return (self.table1 is not None and self.table2 is not None and self.col1 is not None
                and self.col2 is not None and self.parser is not None and self.parser.database is not None)

    def ensures_fields(self, result):
        return (fresh(result) and result.type == self.type and result._inline is self.inline
                and result.name == (self.name if self.name else None) and result.comment == self.comment
                and result.on_update == self.on_update and result.on_delete == self.on_delete
                and result.database is None)

    def ensures_side1(self, result):
        return bound_side(self.parser, self.schema1, self.table1, self.col1, result.col1)

    def ensures_side2(self, result):
        return bound_side(self.parser, self.schema2, self.table2, self.col2, result.col2)


# ------------------------------------------------------------------------------------------ TableGroupBlueprint
def group_item_schema(text):
    """a group item is `schema.name` (exactly one dot) or a bare name in the public schema"""
    return text.split('.')[0] if len(text.split('.')) == 2 else 'public'


def group_item_table(text):
    return text.split('.')[1] if len(text.split('.')) == 2 else text.split('.')[0]


def group_item_bound(parser, text, t):
    """`t` is the table the item text addresses: the located one, an element of the database's table list itself"""
    return (t is located(parser, group_item_schema(text), group_item_table(text))
            and any(parser.database.tables[m] is t for m in range(len(parser.database.tables))))


@contract('pydbml.parser.blueprints:TableGroupBlueprint.build')
class table_group_build:
    """C01/C05: the group lists, in order, the database's own Table objects that the item texts address
    (schema.name, or a bare name / alias); C06: it returns only if every item is found and no table is
    listed twice (TableNotFoundError / ValidationError otherwise; which one is pinned by C06.B.rules)."""
    fresh_result = True
    properties = ('C01', 'C05', 'C06')
    params = {'self': 'TableGroupBlueprint'}
    pure = True
    ret = 'TableGroup'
    from pydbml.exceptions import TableNotFoundError, ValidationError
    allowed = (TableNotFoundError, ValidationError, RuntimeError)

    def requires_db(self):
        return self.parser is None or self.parser.database is None or tables_named(self.parser.database)

    def loop0_modifies(self, items):
        return [loc_list(items)]

    def loop0_invariant(self, items, i):
        return (fresh(items) and len(items) == i and (i == 0 or self.parser.database is not None)
                and all(group_item_bound(self.parser, self.items[j], items[j]) for j in range(i)))

    def ensures_known(self, result):
        return self.parser is not None and (len(self.items) == 0 or self.parser.database is not None)

    def ensures_fields(self, result):
        return (fresh(result) and result.name == self.name and result.comment == self.comment
                and result.color == self.color and result.database is None)

    def ensures_items(self, result):
        return (fresh(result.items) and len(result.items) == len(self.items)
                and all(group_item_bound(self.parser, self.items[j], result.items[j]) for j in range(len(self.items))))

    def ensures_note(self, result):
        return (result.note is None) if self.note is None else \
            (fresh(result.note) and result.note.parent is result and result.note.text == normalised(self.note.text))


# ------------------------------------------------------------------------------------------ EnumBlueprint
@contract('pydbml.parser.blueprints:EnumBlueprint.build')
class enum_build:
    """C01: the Enum carries the declared name, schema and comment and one item per declared item, in order,
    each with the declared name, comment and (normalised) note; every object is new (C11)."""
    fresh_result = True
    properties = ('C01', 'C05', 'C11')
    params = {'self': 'EnumBlueprint'}
    pure = True
    ret = 'Enum'

    def ensures_fields(self, result):
        return (result.name == self.name and result.schema == self.schema and result.comment == self.comment
                and result.database is None)

    def ensures_items(self, result):
        return (fresh(result.items) and len(result.items) == len(self.items)
                and all(result.items[j].name == self.items[j].name
                        and result.items[j].comment == self.items[j].comment
                        and result.items[j].note.parent is result.items[j]
                        and result.items[j].note.text == (normalised(self.items[j].note.text)
                                                          if self.items[j].note is not None else '')
                        for j in range(len(self.items))))


# ------------------------------------------------------------------------------------------ TableBlueprint
from contracts.table import cols_inv, idx_inv, tbl_inv      # noqa: E402


def col_built(bp, c, t):
    """column `c` of table `t` is what ColumnBlueprint `bp` declares (C01) and belongs to `t` (C05)"""
    return (fresh(c) and c.table is t and c.name == bp.name and c.unique is bp.unique and c.not_null is bp.not_null
            and c.pk is bp.pk and c.autoinc is bp.autoinc and c.comment == bp.comment and c.type is bp.type
            and c.default is bp.default)


def subject_ok(s, x, t):
    """index subject: an expression text becomes a new Expression, a column name the table's own column of
    that name"""
    return ((isinstance(x, Expression) and fresh(x) and x.text == s.text) if isinstance(s, ExpressionBlueprint)
            else any(t.columns[q] is x and x.name == s for q in range(len(t.columns))))


def index_built(bp, ix, t):
    return (fresh(ix) and ix.table is t and ix.name == (bp.name if bp.name else None) and ix.unique is bp.unique
            and ix.type == bp.type and ix.pk is bp.pk and ix.comment == bp.comment
            and len(ix.subjects) == len(bp.subject_names)
            and all(subject_ok(bp.subject_names[m], ix.subjects[m], t) for m in range(len(bp.subject_names))))


def header_built(bp, t):
    return (t.name == bp.name and t.schema == bp.schema and t.alias == (bp.alias if bp.alias else None)
            and t.header_color == bp.header_color and t.comment == bp.comment and t.database is None)


@contract('pydbml.parser.blueprints:TableBlueprint.build')
class table_build:
    """C01: the Table carries the declared header, one Column per declared column and one Index per declared
    index, in order, each with the declared settings; C05: columns and indexes point back to the table and index
    subjects are the table's own Column objects; C06: an index over an undeclared column is refused
    (ColumnNotFoundError).  Three loops are verified by invariant (columns, indexes, subjects of one index)."""
    fresh_result = True
    properties = ('C01', 'C05', 'C06')
    tier = 'thorough'              # the slowest proof (about 5 min): thorough tier and ledger only
    min_timeout_ms = 30000
    params = {'self': 'TableBlueprint'}
    ret = 'Table'
    allowed = ('ColumnNotFoundError',)

    def requires_columns_ready(self):
        return self.columns is None or all(isinstance(c.type, str) and (c.parser is None or c.parser.database is not None)
                                           for c in self.columns)

    def requires_distinct_columns(self):
        return self.columns is None or all(all(a == b or x is not y for b, y in enumerate(self.columns))
                                           for a, x in enumerate(self.columns))

    def modifies(self):
        return ([loc_each(self.columns, 'default'), loc_each(self.columns, 'type')] if self.columns is not None else [])

    # -- columns
    def loop0_modifies(self, result, columns):
        return [loc_list(result.columns), loc_each(columns, 'default'), loc_each(columns, 'type')]

    def loop0_invariant(self, result, columns, i):
        return (fresh(result) and fresh(result.columns) and fresh(result.indexes) and header_built(self, result)
                and len(result.columns) == i and len(result.indexes) == 0
                and all(col_built(columns[j], result.columns[j], result) for j in range(i))
                # the columns not yet built are as the precondition found them
                and all(j < i or (isinstance(columns[j].type, str)
                                  and (columns[j].parser is None or columns[j].parser.database is not None))
                        for j in range(len(columns))))

    # -- indexes
    def loop1_modifies(self, result, indexes):
        return [loc_list(result.indexes)]

    def loop1_invariant(self, result, columns, indexes, i):
        return (fresh(result) and fresh(result.columns) and fresh(result.indexes) and header_built(self, result)
                and len(result.columns) == len(columns)
                and all(col_built(columns[j], result.columns[j], result) for j in range(len(columns)))
                and len(result.indexes) == i
                and all(index_built(indexes[j], result.indexes[j], result) for j in range(i)))

    # -- subjects of one index
    def loop2_modifies(self, new_subjects):
        return [loc_list(new_subjects)]

    def loop2_invariant(self, result, index_bp, new_subjects, i):
        return (fresh(new_subjects) and len(new_subjects) == i
                and all(subject_ok(index_bp.subject_names[m], new_subjects[m], result) for m in range(i)))

    def ensures_header(self, result):
        return header_built(self, result)

    def ensures_columns(self, result):
        return (len(result.columns) == (len(self.columns) if self.columns else 0)
                and all(col_built(self.columns[j], result.columns[j], result) for j in range(len(result.columns))))

    def ensures_indexes(self, result):
        return (len(result.indexes) == (len(self.indexes) if self.indexes else 0)
                and all(index_built(self.indexes[j], result.indexes[j], result) for j in range(len(result.indexes))))

    def ensures_note(self, result):
        return result.note.parent is result and \
            result.note.text == (normalised(self.note.text) if self.note is not None else '')

    def ensures_properties(self, result):
        return (result.properties is self.properties) if self.properties else \
            (fresh(result.properties) and len(result.properties) == 0)


# ------------------------------------------------------------------------------------------ inline references of a table
from pyvc.verify import loc_cls      # noqa: E402
from pydbml.parser.blueprints import ReferenceBlueprint      # noqa: E402


def marked(tbp, rb):
    """the inline reference blueprint `rb` names table blueprint `tbp` as its first side and one of its columns as
    the first column"""
    return (rb.schema1 == tbp.schema and rb.table1 == tbp.name
            and any(rb.col1 == c.name for c in tbp.columns))


def collected(xs, rb):
    return any(xs[k] is rb for k in range(len(xs)))


def col_refs_collected(xs, c):
    return c.ref_blueprints is None or all(collected(xs, c.ref_blueprints[m]) for m in range(len(c.ref_blueprints)))


@contract('pydbml.parser.blueprints:TableBlueprint.get_reference_blueprints')
class table_inline_refs:
    """C01: every inline reference declared on a column of the table is returned (the object itself), and every
    returned blueprint has the table (schema, name) and one of its columns as its first side."""
    properties = ('C01', 'C05')
    params = {'self': 'TableBlueprint'}
    ret = 'List[ReferenceBlueprint]'

    def requires_columns(self):
        return self.columns is not None

    def modifies(self):
        return [loc_cls(ReferenceBlueprint, 'schema1'), loc_cls(ReferenceBlueprint, 'table1'),
                loc_cls(ReferenceBlueprint, 'col1')]

    def loop0_modifies(self, result):
        return [loc_list(result), loc_cls(ReferenceBlueprint, 'schema1'), loc_cls(ReferenceBlueprint, 'table1'),
                loc_cls(ReferenceBlueprint, 'col1')]

    def loop0_invariant(self, result, i):
        return (fresh(result) and all(marked(self, result[k]) for k in range(len(result)))
                and all(col_refs_collected(result, self.columns[j]) for j in range(i)))

    def loop1_modifies(self, result):
        return [loc_list(result), loc_cls(ReferenceBlueprint, 'schema1'), loc_cls(ReferenceBlueprint, 'table1'),
                loc_cls(ReferenceBlueprint, 'col1')]

    def loop1_invariant(self, result, col, i0, i):
        return (fresh(result) and all(marked(self, result[k]) for k in range(len(result)))
                and all(col_refs_collected(result, self.columns[j]) for j in range(i0))
                and all(collected(result, col.ref_blueprints[m]) for m in range(i)))

    def ensures_marked(self, result):
        return fresh(result) and all(marked(self, result[k]) for k in range(len(result)))

    def ensures_complete(self, result):
        return all(col_refs_collected(result, self.columns[j]) for j in range(len(self.columns)))
