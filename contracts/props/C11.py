"""P/L/S obligations of C11: every contract whose `properties` names C11."""
from pyvc.runner import results_for_property


def run(tier, seed, only=None):
    return results_for_property('C11', tier, only)


def replay(ob_id, doc):
    from pyvc.replay import replay_obligation
    return replay_obligation(ob_id, doc)
