"""P/L/S obligations of C07: every contract whose `properties` names C07."""
from pyvc.runner import results_for_property


def run(tier, seed, only=None):
    return results_for_property('C07', tier, only)


def replay(ob_id, doc):
    from pyvc.replay import replay_obligation
    return replay_obligation(ob_id, doc)
