"""P/L/S obligations of C05: every contract whose `properties` names C05."""
from pyvc.runner import results_for_property


def run(tier, seed, only=None):
    return results_for_property('C05', tier, only)


def replay(ob_id, doc):
    from pyvc.replay import replay_obligation
    return replay_obligation(ob_id, doc)
