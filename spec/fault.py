"""Syntax-fault injector for DBML text (property C07) and a structural scanner of DBML text that the
comment obligations (C14) reuse.  Written from the DBML documentation (dbml.org syntax as summarised in
/repo/README.md and /repo/docs) and the statement of C07; it never imports pydbml.

    scan(text)            -> Doc: top-level elements, bodies, logical lines, settings lists, with offsets
    faults(text)          -> list of Fault: every (kind, variant, site) that applies to the document
    fault(text, site, kind) -> the faulted text (the function named in the C07 contract)

A *site* is a structural position that exists in the document:
    start                                   offset 0
    top                                     the beginning of the header line of a top-level element (not the first)
    end                                     end of input
    <body>                                  the beginning of a line inside a body: before every logical line and
                                            before the closing brace; <body> in BODY_CLASSES
    <settings>                              inside a settings list: after '[', after each ',', before ']';
                                            <settings> in SETTINGS_CLASSES
and for the faults that edit an existing construct: the body / settings list / line / reference itself.
A site is named '<class>#<n>[:<where>]', n counting the constructs of that class in document order.

Every fault kind is built so that the result is invalid DBML whatever surrounds the site:
  * a stray token is one of '@@', ')', '%%x', ';' on its own line (bodies, top level) or as a separate token
    (settings lists).  None of them can start or continue a DBML construct, and all sites are token boundaries
    outside strings, comments and back-tick expressions;
  * an extra or a missing brace / bracket leaves the braces (brackets) outside strings, comments and
    expressions unbalanced, which no valid document is (array types `int[]` are balanced in themselves);
    an extra '}' in a table body (or in an indexes / note block of a table) is only placed after the table's first
    column line, so that the document does not in addition declare a table without columns (a different rule with
    a different error, property C06);
  * an unterminated single / double quoted string is opened where a string is expected and no quote of the same
    kind follows on its line (these strings cannot span lines); a triple quote is opened only where in addition
    no ''' follows in the rest of the document;
  * a column without a type is a lone identifier on a line of a table body (optionally followed by a settings
    list, or an existing column whose type is deleted);
  * unknown settings / index types / reference operators / actions / colours are taken from outside the closed
    sets of the documentation, including words that merely start with a valid one ('hashx', 'cascadex').
"""
from __future__ import annotations

import re
from typing import Any, Dict, List, Optional, Tuple

BODY_CLASSES = ('table-body', 'indexes', 'enum-body', 'group-body', 'project-body', 'note-body', 'ref-body')
SETTINGS_CLASSES = ('table-settings', 'column-settings', 'index-settings', 'ref-settings', 'enum-item-settings',
                    'group-settings')
SITE_CLASSES = ('start', 'top', 'end') + BODY_CLASSES + SETTINGS_CLASSES

STRAY_TOKENS = ('@@', ')', '%%x', ';')

KINDS = (
    'stray-token', 'extra-open-brace', 'extra-close-brace', 'extra-open-bracket', 'extra-close-bracket',
    'missing-open-brace', 'missing-close-brace', 'missing-open-bracket', 'missing-close-bracket',
    'unterminated-single', 'unterminated-double', 'unterminated-triple',
    'column-without-type', 'unknown-column-setting', 'unknown-index-setting', 'unknown-index-type',
    'unknown-ref-operator', 'unknown-ref-action', 'malformed-colour',
)

# ------------------------------------------------------------------ lexer

WORD_RE = re.compile(r'[A-Za-z0-9_]+')


class Tok:
    __slots__ = ('kind', 'start', 'end', 'text')

    def __init__(self, kind: str, start: int, end: int, text: str):
        self.kind, self.start, self.end, self.text = kind, start, end, text

    def __repr__(self):
        return f'Tok({self.kind},{self.start},{self.end},{self.text!r})'


class ScanError(ValueError):
    """The text is not something the scanner understands (it is only used on surface() output)."""


def _quoted(text: str, i: int, q: str) -> int:
    """End offset (exclusive) of a quoted literal with backslash escapes that starts at i with quote q."""
    n = len(text)
    j = i + len(q)
    while j < n:
        ch = text[j]
        if ch == '\\':
            j += 2
            continue
        if text.startswith(q, j):
            return j + len(q)
        if ch == '\n' and len(q) == 1:
            raise ScanError(f'line break inside {q} string at {i}')
        j += 1
    raise ScanError(f'unterminated {q} string at {i}')


def lex(text: str) -> List[Tok]:
    toks: List[Tok] = []
    i, n = 0, len(text)
    while i < n:
        ch = text[i]
        if ch == '\n':
            toks.append(Tok('nl', i, i + 1, ch))
            i += 1
        elif ch in ' \t\r':
            j = i
            while j < n and text[j] in ' \t\r':
                j += 1
            toks.append(Tok('ws', i, j, text[i:j]))
            i = j
        elif text.startswith('//', i):
            j = text.find('\n', i)
            j = n if j < 0 else j
            toks.append(Tok('comment', i, j, text[i:j]))
            i = j
        elif text.startswith('/*', i):
            j = text.find('*/', i + 2)
            if j < 0:
                raise ScanError(f'unterminated block comment at {i}')
            toks.append(Tok('comment', i, j + 2, text[i:j + 2]))
            i = j + 2
        elif text.startswith("'''", i):
            j = _quoted(text, i, "'''")
            toks.append(Tok('str3', i, j, text[i:j]))
            i = j
        elif ch == "'":
            j = _quoted(text, i, "'")
            toks.append(Tok('str1', i, j, text[i:j]))
            i = j
        elif ch == '"':
            j = _quoted(text, i, '"')
            toks.append(Tok('strd', i, j, text[i:j]))
            i = j
        elif ch == '`':
            j = text.find('`', i + 1)
            if j < 0:
                raise ScanError(f'unterminated expression at {i}')
            toks.append(Tok('expr', i, j + 1, text[i:j + 1]))
            i = j + 1
        else:
            mo = WORD_RE.match(text, i)
            if mo:
                toks.append(Tok('word', i, mo.end(), mo.group(0)))
                i = mo.end()
            else:
                toks.append(Tok('p', i, i + 1, ch))
                i += 1
    return toks


# ------------------------------------------------------------------ structure

class Settings:
    def __init__(self, cls: str, open_: int, close: int, commas: List[int], multiline: bool):
        self.cls, self.open, self.close, self.commas, self.multiline = cls, open_, close, commas, multiline
        self.n = -1


class Line:
    """A logical line of a body (an element of the body); may span physical lines through a settings list or
    a multi-line string."""

    def __init__(self, kind: str, toks: List[Tok], parent: 'Block'):
        self.kind = kind
        self.toks = toks                    # significant tokens and ws, comments excluded from code_end
        self.parent = parent
        self.first = toks[0].start
        self.line_start = -1                # offset of the beginning of the physical line, -1 if shared
        self.indent = ''
        self.code_end = -1                  # offset just after the last code token
        self.end = -1                       # offset of the newline (or closing brace / eof) that ends it
        self.settings: Optional[Settings] = None
        self.block: Optional['Block'] = None
        self.trailing_comment: Optional[Tok] = None
        self.n = -1


class Block:
    def __init__(self, cls: str, open_: int, parent: Optional['Block']):
        self.cls = cls
        self.open = open_
        self.close = -1
        self.close_line_start = -1
        self.close_indent = ''
        self.parent = parent
        self.lines: List[Line] = []
        self.n = -1


class Element:
    """A top-level element."""

    def __init__(self, kind: str, first: int):
        self.kind = kind                    # table | enum | ref | group | project | sticky
        self.first = first
        self.line_start = -1
        self.header_end = -1                # offset just after the last header code token before '{' (or line end)
        self.settings: Optional[Settings] = None
        self.block: Optional[Block] = None
        self.ref_line: Optional[Line] = None    # short-form reference: the reference itself
        self.end = -1                       # offset just after the element's last code token
        self.n = -1


class Doc:
    def __init__(self, text: str):
        self.text = text
        self.elements: List[Element] = []
        self.blocks: List[Block] = []
        self.lines: List[Line] = []
        self.settings: List[Settings] = []


KEYWORDS = {'table': 'table', 'enum': 'enum', 'ref': 'ref', 'tablegroup': 'group', 'project': 'project',
            'note': 'sticky'}
BODY_OF = {'table': 'table-body', 'enum': 'enum-body', 'ref': 'ref-body', 'group': 'group-body',
           'project': 'project-body', 'sticky': 'note-body'}
LINE_SETTINGS = {'column': 'column-settings', 'index': 'index-settings', 'enum-item': 'enum-item-settings',
                 'ref': 'ref-settings'}


class _Scanner:
    def __init__(self, text: str):
        self.text = text
        self.toks = lex(text)
        self.i = 0
        self.doc = Doc(text)

    # -- helpers
    def peek(self) -> Optional[Tok]:
        return self.toks[self.i] if self.i < len(self.toks) else None

    def line_start_of(self, off: int) -> Tuple[int, str]:
        """(offset of the physical line start, indent) if only blanks precede `off` on its line, else (-1, '')."""
        j = self.text.rfind('\n', 0, off) + 1
        lead = self.text[j:off]
        if lead.strip(' \t\r') == '':
            return j, lead
        return -1, ''

    def skip_blank(self):
        while self.i < len(self.toks) and self.toks[self.i].kind in ('ws', 'nl', 'comment'):
            self.i += 1

    def settings_list(self, cls: str) -> Settings:
        """self.i is at '['; consumes up to and including the matching ']'."""
        open_tok = self.toks[self.i]
        self.i += 1
        depth = 0
        commas: List[int] = []
        multiline = False
        while self.i < len(self.toks):
            t = self.toks[self.i]
            if t.kind == 'p':
                if t.text == '[':
                    depth += 1
                elif t.text == ']':
                    if depth == 0:
                        self.i += 1
                        s = Settings(cls, open_tok.start, t.start, commas, multiline)
                        self.doc.settings.append(s)
                        return s
                    depth -= 1
                elif t.text == ',' and depth == 0:
                    commas.append(t.start)
                elif t.text in '{}':
                    raise ScanError(f'brace inside a settings list at {t.start}')
            elif t.kind == 'nl':
                multiline = True
            self.i += 1
        raise ScanError(f'unterminated settings list at {open_tok.start}')

    def is_array_brackets(self) -> bool:
        nxt = self.toks[self.i + 1] if self.i + 1 < len(self.toks) else None
        return nxt is not None and nxt.kind == 'p' and nxt.text == ']'

    def gather(self, settings_cls: Optional[str]):
        """Collect tokens of a logical line / header from self.i up to (not including) the newline, '{' or '}' at
        bracket depth 0 that ends it.  Returns (tokens, settings, terminator token or None)."""
        out: List[Tok] = []
        settings = None
        paren = 0
        while self.i < len(self.toks):
            t = self.toks[self.i]
            if t.kind == 'nl' and paren == 0:
                return out, settings, t
            if t.kind == 'p':
                if t.text in '{}' and paren == 0:
                    return out, settings, t
                if t.text == '(':
                    paren += 1
                elif t.text == ')':
                    paren = max(0, paren - 1)
                elif t.text == '[':
                    if self.is_array_brackets():
                        out.append(t)
                        out.append(self.toks[self.i + 1])
                        self.i += 2
                        continue
                    if settings is not None or settings_cls is None:
                        raise ScanError(f'unexpected [ at {t.start}')
                    start_i = self.i
                    settings = self.settings_list(settings_cls)
                    out.extend(self.toks[start_i:self.i])
                    continue
            out.append(t)
            self.i += 1
        return out, settings, None

    @staticmethod
    def code_end(toks: List[Tok]) -> Tuple[int, Optional[Tok]]:
        trailing = None
        k = len(toks) - 1
        while k >= 0 and toks[k].kind in ('ws', 'comment'):
            if toks[k].kind == 'comment':
                trailing = toks[k]
            k -= 1
        return (toks[k].end if k >= 0 else -1), trailing

    # -- grammar
    def top(self):
        doc = self.doc
        while True:
            self.skip_blank()
            t = self.peek()
            if t is None:
                return
            if t.kind != 'word' or t.text.lower() not in KEYWORDS:
                raise ScanError(f'unexpected top-level token {t!r}')
            el = Element(KEYWORDS[t.text.lower()], t.start)
            el.line_start, _ind = self.line_start_of(t.start)
            el.n = sum(1 for e in doc.elements if e.kind == el.kind)
            doc.elements.append(el)
            scls = {'table': 'table-settings', 'group': 'group-settings', 'ref': 'ref-settings'}.get(el.kind)
            toks, settings, term = self.gather(scls)
            el.settings = settings
            if term is not None and term.kind == 'p' and term.text == '{':
                if el.kind == 'ref' and settings is not None:
                    raise ScanError('settings before the body of a reference')
                el.header_end, _tr = self.code_end(toks)
                self.i += 1
                el.block = self.block(BODY_OF[el.kind], term.start, None)
                el.end = el.block.close + 1
            elif el.kind == 'ref' and (term is None or term.kind == 'nl'):
                ln = Line('ref', toks, None)
                self.finish_line(ln, toks, settings, term)
                el.ref_line = ln
                el.header_end = ln.code_end
                el.end = ln.code_end
            else:
                raise ScanError(f'element without a body at {t.start}')

    def finish_line(self, ln: Line, toks: List[Tok], settings: Optional[Settings], term: Optional[Tok]):
        ln.settings = settings
        ln.code_end, ln.trailing_comment = self.code_end(toks)
        ln.end = term.start if term is not None else len(self.text)
        ln.line_start, ln.indent = self.line_start_of(ln.first)
        ln.n = sum(1 for l in self.doc.lines if l.kind == ln.kind)
        self.doc.lines.append(ln)

    def block(self, cls: str, open_: int, parent: Optional[Block]) -> Block:
        b = Block(cls, open_, parent)
        b.n = sum(1 for x in self.doc.blocks if x.cls == cls)
        self.doc.blocks.append(b)
        while True:
            self.skip_blank()
            t = self.peek()
            if t is None:
                raise ScanError(f'unterminated body opened at {open_}')
            if t.kind == 'p' and t.text == '}':
                b.close = t.start
                b.close_line_start, b.close_indent = self.line_start_of(t.start)
                self.i += 1
                return b
            if t.kind == 'p' and t.text == '{':
                raise ScanError(f'unexpected {{ at {t.start}')
            kind = self.line_kind(cls)
            toks, settings, term = self.gather(LINE_SETTINGS.get(kind))
            ln = Line(kind, toks, b)
            if term is not None and term.kind == 'p' and term.text == '{':
                if kind not in ('indexes', 'note-block'):
                    raise ScanError(f'unexpected {{ at {term.start}')
                self.finish_line(ln, toks, settings, term)
                self.i += 1
                ln.block = self.block('indexes' if kind == 'indexes' else 'note-body', term.start, b)
            else:
                if kind in ('indexes', 'note-block'):
                    raise ScanError(f'expected {{ at {t.start}')
                self.finish_line(ln, toks, settings, term)
            b.lines.append(ln)

    def line_kind(self, cls: str) -> str:
        """Kind of the logical line starting at self.i inside a body of class `cls`."""
        t = self.toks[self.i]
        k = self.i + 1
        while k < len(self.toks) and self.toks[k].kind in ('ws', 'comment', 'nl'):
            k += 1
        nxt = self.toks[k] if k < len(self.toks) else None
        nxt_p = nxt.text if nxt is not None and nxt.kind == 'p' else None
        word = t.text.lower() if t.kind == 'word' else None
        if cls == 'indexes':
            return 'index'
        if cls == 'enum-body':
            return 'enum-item'
        if cls == 'note-body':
            return 'string'
        if cls == 'ref-body':
            return 'ref'
        if cls in ('table-body', 'group-body', 'project-body'):
            if word == 'note' and nxt_p == '{':
                return 'note-block'
            if word == 'note' and nxt_p == ':':
                return 'note'
        if cls == 'table-body':
            if word == 'indexes' and nxt_p == '{':
                return 'indexes'
            if nxt_p == ':':
                return 'prop'
            return 'column'
        if cls == 'group-body':
            return 'group-item'
        if cls == 'project-body':
            return 'project-field'
        raise ScanError(cls)


def scan(text: str) -> Doc:
    s = _Scanner(text)
    s.top()
    return s.doc


# ------------------------------------------------------------------ faults

class Fault:
    __slots__ = ('kind', 'variant', 'cls', 'site', 'pos', 'delete', 'insert')

    def __init__(self, kind, variant, cls, site, pos, delete, insert):
        self.kind, self.variant, self.cls, self.site = kind, variant, cls, site
        self.pos, self.delete, self.insert = pos, delete, insert

    def ident(self) -> Tuple[str, str, str]:
        return (self.kind, self.variant, self.site)

    def apply(self, text: str) -> str:
        return text[:self.pos] + self.insert + text[self.pos + self.delete:]

    def __repr__(self):
        return f'Fault({self.kind}/{self.variant}@{self.site} pos={self.pos} -{self.delete} +{self.insert!r})'


def _rest_of_line(text: str, pos: int) -> str:
    j = text.find('\n', pos)
    return text[pos:] if j < 0 else text[pos:j]


def _line_sites(doc: Doc) -> List[Tuple[str, str, int, str, Dict[str, Any]]]:
    """(class, site name, offset, indent, info) of every whole-line insertion point."""
    out = []
    text = doc.text
    out.append(('start', 'start#0', 0, '', {}))
    k = 0
    for e in doc.elements[1:]:
        if e.line_start >= 0:
            out.append(('top', f'top#{k}', e.line_start, '', {}))
            k += 1
    counters: Dict[str, int] = {}
    for b in doc.blocks:
        seen_column = False
        guard = b.cls == 'table-body'
        if b.parent is not None and b.parent.cls == 'table-body':
            # a sub-block of a table: an extra '}' here makes the sub-block's own '}' close the table
            guard = True
            for pl in b.parent.lines:
                if pl.block is b:
                    break
                if pl.kind == 'column':
                    seen_column = True
        for ln in b.lines:
            if ln.line_start >= 0:
                n = counters.get(b.cls, 0)
                counters[b.cls] = n + 1
                out.append((b.cls, f'{b.cls}#{n}', ln.line_start, ln.indent, {'after_column': seen_column or not guard}))
            if ln.kind == 'column':
                seen_column = True
        if b.close_line_start >= 0:
            n = counters.get(b.cls, 0)
            counters[b.cls] = n + 1
            indent = b.lines[-1].indent if b.lines and b.lines[-1].line_start >= 0 else b.close_indent + '  '
            out.append((b.cls, f'{b.cls}#{n}', b.close_line_start, indent, {'after_column': seen_column or not guard}))
    return out


def _settings_sites(doc: Doc) -> List[Tuple[str, str, int, str]]:
    """(class, site name, offset, where) of every insertion point inside a settings list."""
    out = []
    counters: Dict[str, int] = {}
    for s in sorted(doc.settings, key=lambda s: s.open):
        n = counters.get(s.cls, 0)
        counters[s.cls] = n + 1
        s.n = n
        out.append((s.cls, f'{s.cls}#{n}:open', s.open + 1, 'open'))
        for k, c in enumerate(s.commas):
            out.append((s.cls, f'{s.cls}#{n}:comma{k}', c + 1, 'comma'))
        out.append((s.cls, f'{s.cls}#{n}:close', s.close, 'close'))
    return out


def _item(where: str, item: str) -> str:
    """Text that adds `item` as one more entry of a settings list at an insertion point."""
    if where == 'close':
        return ', ' + item
    return ' ' + item + ', '


def _sig(toks: List[Tok]) -> List[Tok]:
    return [t for t in toks if t.kind not in ('ws', 'comment', 'nl')]


def _column_type_span(ln: Line) -> Optional[Tuple[int, int]]:
    """(end of the column name, end of the column type) of a column line."""
    toks = ln.toks
    k = 0
    if not toks or toks[0].kind not in ('word', 'strd'):
        return None
    name_end = toks[0].end
    k = 1
    while k < len(toks) and toks[k].kind == 'ws':
        k += 1
    if k == 1 or k >= len(toks):
        return None
    paren = 0
    end = None
    while k < len(toks):
        t = toks[k]
        if t.kind == 'p' and t.text == '(':
            paren += 1
        elif t.kind == 'p' and t.text == ')':
            paren -= 1
        elif paren == 0 and (t.kind in ('ws', 'comment', 'nl')
                             or (t.kind == 'p' and t.text == '[' and not (k + 1 < len(toks) and toks[k + 1].text == ']'))):
            break
        if t.kind == 'p' and t.text == '[':           # array type: take both brackets
            end = toks[k + 1].end
            k += 2
            continue
        end = t.end
        k += 1
    if end is None:
        return None
    return name_end, end


def _ref_operator(toks: List[Tok], start_k: int = 0) -> Optional[Tuple[int, int]]:
    """(start, end) of the relation operator of a reference whose first endpoint starts at toks[start_k]."""
    paren = 0
    k = start_k
    seen_name = False
    while k < len(toks):
        t = toks[k]
        if t.kind == 'p' and t.text == '(':
            paren += 1
        elif t.kind == 'p' and t.text == ')':
            paren -= 1
        elif t.kind in ('word', 'strd'):
            seen_name = True
        elif paren == 0 and seen_name and t.kind == 'p' and t.text in '<>-':
            j = k
            while j + 1 < len(toks) and toks[j + 1].kind == 'p' and toks[j + 1].text in '<>-' \
                    and toks[j + 1].start == toks[j].end:
                j += 1
            return t.start, toks[j].end
        k += 1
    return None


def faults(text: str) -> List[Fault]:
    """Every fault that applies to the (well-formed, surface-generated) document."""
    doc = scan(text)
    out: List[Fault] = []
    has_nl = text.endswith('\n')
    lsites = _line_sites(doc)
    ssites = _settings_sites(doc)
    end_pre = '' if has_nl or text == '' else '\n'

    def whole_line(cls, site, pos, indent, kind, variant, body):
        out.append(Fault(kind, variant, cls, site, pos, 0, indent + body + '\n'))

    def at_end(kind, variant, body):
        out.append(Fault(kind, variant, 'end', 'end#0', len(text), 0, end_pre + body + '\n'))

    extra = {'extra-open-brace': '{', 'extra-close-brace': '}', 'extra-open-bracket': '[', 'extra-close-bracket': ']'}

    # ---- stray tokens and extra braces / brackets: every site
    for cls, site, pos, indent, info in lsites:
        for tok in STRAY_TOKENS:
            whole_line(cls, site, pos, indent, 'stray-token', tok, tok)
        for kind, ch in extra.items():
            if kind == 'extra-close-brace' and not info.get('after_column'):
                continue        # would also declare a table without columns (C06's rule)
            whole_line(cls, site, pos, indent, kind, ch, ch)
    for tok in STRAY_TOKENS:
        at_end('stray-token', tok, tok)
    for kind, ch in extra.items():
        at_end(kind, ch, ch)
    for cls, site, pos, where in ssites:
        for tok in STRAY_TOKENS:
            out.append(Fault('stray-token', tok, cls, site, pos, 0, f' {tok} '))
        for kind, ch in extra.items():
            out.append(Fault(kind, ch, cls, site, pos, 0, f' {ch} '))

    # ---- missing braces / brackets: every body and settings list
    for b in doc.blocks:
        site = f'{b.cls}#{b.n}'
        out.append(Fault('missing-open-brace', '{', b.cls, site, b.open, 1, ''))
        out.append(Fault('missing-close-brace', '}', b.cls, site, b.close, 1, ''))
    for s in doc.settings:
        site = f'{s.cls}#{s.n}'
        out.append(Fault('missing-open-bracket', '[', s.cls, site, s.open, 1, ''))
        out.append(Fault('missing-close-bracket', ']', s.cls, site, s.close, 1, ''))

    # ---- unterminated strings
    quotes = {'unterminated-single': "'", 'unterminated-double': '"', 'unterminated-triple': "'''"}

    def string_ok(kind: str, pos: int, inserted_tail: str) -> bool:
        q = quotes[kind]
        rest = inserted_tail + text[pos:]
        line = rest.split('\n', 1)[0]
        if q[0] in line:
            return False
        if kind == 'unterminated-triple' and "'''" in rest:
            return False
        return True

    line_wrap = {
        'table-body': ('Note: ', ''), 'group-body': ('Note: ', ''), 'project-body': ('Note: ', ''),
        'enum-body': ('zz_item [note: ', ']'), 'indexes': ('zz_col [name: ', ']'), 'note-body': ('', ''),
    }
    for kind, q in quotes.items():
        bad = q + 'unterminated'
        for cls, site, pos, indent, info in lsites:
            if cls in ('start', 'top'):
                body = f'Note zz_note {{\n  {bad}\n}}'
                # the opening quote is followed by our own text up to the line break
                if kind == 'unterminated-triple' and "'''" in text[pos:]:
                    continue
                whole_line(cls, site, pos, indent, kind, 'sticky-note', body)
            elif cls in line_wrap:
                pre, post = line_wrap[cls]
                if kind == 'unterminated-triple' and "'''" in text[pos:]:
                    continue
                whole_line(cls, site, pos, indent, kind, 'line', pre + bad + post)
        at_end(kind, 'sticky-note', f'Note zz_note {{\n  {bad}\n}}')
        for cls, site, pos, where in ssites:
            if where == 'close':
                continue
            pre = '' if cls == 'ref-settings' else 'note: '
            if string_ok(kind, pos, ''):
                out.append(Fault(kind, 'setting', cls, site, pos, 0, f' {pre}{bad} '))

    # ---- column without a type
    for cls, site, pos, indent, info in lsites:
        if cls == 'table-body':
            whole_line(cls, site, pos, indent, 'column-without-type', 'bare', 'zz_no_type')
            whole_line(cls, site, pos, indent, 'column-without-type', 'with-settings', 'zz_no_type [not null]')
    for ln in doc.lines:
        if ln.kind == 'column':
            span = _column_type_span(ln)
            if span:
                out.append(Fault('column-without-type', 'type-deleted', 'table-body', f'column#{ln.n}',
                                 span[0], span[1] - span[0], ''))

    # ---- unknown settings / index types / actions / colours: as one more item of an existing list ...
    items = {
        'column-settings': [('unknown-column-setting', 'word', 'zz_unknown'),
                            ('unknown-column-setting', 'foreign', 'headercolor: #fff')],
        'index-settings': [('unknown-index-setting', 'word', 'zz_unknown'),
                           ('unknown-index-setting', 'foreign', 'increment'),
                           ('unknown-index-type', 'foo', 'type: foo'),
                           ('unknown-index-type', 'prefix', 'type: hashx')],
        'ref-settings': [('unknown-ref-action', 'explode', 'delete: explode'),
                         ('unknown-ref-action', 'prefix', 'update: cascadex')],
        'table-settings': [('malformed-colour', '#ggg', 'headercolor: #ggg'),
                           ('malformed-colour', '#12', 'headercolor: #12'),
                           ('malformed-colour', '#1234', 'headercolor: #1234')],
        'group-settings': [('malformed-colour', '#ggg', 'color: #ggg'),
                           ('malformed-colour', '#12', 'color: #12'),
                           ('malformed-colour', '#1234', 'color: #1234')],
    }
    for cls, site, pos, where in ssites:
        for kind, variant, item in items.get(cls, ()):
            out.append(Fault(kind, variant, cls, site, pos, 0, _item(where, item)))
    # ... and as a new list on a construct that has none
    new_list = {'column': 'column-settings', 'index': 'index-settings', 'ref': 'ref-settings'}
    all_lines = list(doc.lines)
    for ln in all_lines:
        cls = new_list.get(ln.kind)
        if cls and ln.settings is None and ln.code_end > 0:
            for kind, variant, item in items[cls]:
                out.append(Fault(kind, variant, cls, f'{ln.kind}#{ln.n}:new', ln.code_end, 0, f' [{item}]'))
    for e in doc.elements:
        cls = {'table': 'table-settings', 'group': 'group-settings'}.get(e.kind)
        if cls and e.settings is None and e.header_end > 0:
            for kind, variant, item in items[cls]:
                out.append(Fault(kind, variant, cls, f'{e.kind}#{e.n}:new', e.header_end, 0, f' [{item}]'))

    # ---- unknown reference operators: every reference of the document
    for ln in all_lines:
        if ln.kind == 'ref':
            toks = ln.toks
            k0 = 0
            if ln.parent is None:       # short form: skip `Ref name:`
                for k, t in enumerate(toks):
                    if t.kind == 'p' and t.text == ':':
                        k0 = k + 1
                        break
            op = _ref_operator(toks, k0)
            if op:
                for bad in ('>>', '=>'):
                    out.append(Fault('unknown-ref-operator', bad, 'ref-body', f'ref#{ln.n}', op[0], op[1] - op[0], bad))
        elif ln.kind == 'column' and ln.settings is not None:
            toks = ln.toks
            n_inline = 0
            for k, t in enumerate(toks):
                if t.kind == 'word' and t.text.lower() == 'ref' and ln.settings.open < t.start < ln.settings.close:
                    sig = [x for x in toks[k + 1:] if x.kind not in ('ws', 'nl', 'comment')]
                    if len(sig) >= 2 and sig[0].kind == 'p' and sig[0].text == ':' and sig[1].kind == 'p' \
                            and sig[1].text in '<>-':
                        j = toks.index(sig[1])
                        e = j
                        while e + 1 < len(toks) and toks[e + 1].kind == 'p' and toks[e + 1].text in '<>-' \
                                and toks[e + 1].start == toks[e].end:
                            e += 1
                        for bad in ('>>', '=>'):
                            out.append(Fault('unknown-ref-operator', bad, 'column-settings',
                                             f'column#{ln.n}:ref{n_inline}', toks[j].start,
                                             toks[e].end - toks[j].start, bad))
                        n_inline += 1
    return out


def fault(text: str, site: str, kind: str) -> str:
    """`kind` is '<kind>/<variant>'; `site` a site name of the document.  Raises KeyError if it does not apply."""
    k, _, v = kind.partition('/')
    for f in faults(text):
        if f.kind == k and f.variant == v and f.site == site:
            return f.apply(text)
    raise KeyError((site, kind))
