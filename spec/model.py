"""Abstract model of a database (JSON-serialisable), `view` of a real Database, and an
API builder.  Written from the property statements (C01/C02/C09), not from pydbml/definitions.

Abstract model `m` (all keys always present after `normalize`):
{
 "allow_properties": bool,
 "project": None | {"name": str, "items": [[k, v], ...], "note": str|None, "comment": str|None},
 "enums":  [{"schema": str, "name": str, "comment": str|None,
             "items": [{"name": str, "note": str|None, "comment": str|None}]}],
 "tables": [{"schema": str, "name": str, "alias": str|None, "note": str|None,
             "header_color": str|None, "comment": str|None, "properties": [[k, v], ...],
             "columns": [{"name": str, "type": str | {"enum": [schema, name]},
                          "unique": bool, "not_null": bool, "pk": bool, "autoinc": bool,
                          "default": None | {"kind": "int"|"float"|"bool"|"str"|"expr", "value": ...},
                          "note": str|None, "comment": str|None, "properties": [[k, v], ...]}],
             "indexes": [{"subjects": [{"col": name} | {"expr": text} | {"str": text}],
                          "name": str|None, "unique": bool, "type": str|None, "pk": bool,
                          "note": str|None, "comment": str|None}]}],
 "refs": [{"type": ">"|"<"|"-"|"<>", "inline": bool, "name": str|None, "comment": str|None,
           "on_update": str|None, "on_delete": str|None,
           "t1": [schema, name], "c1": [names], "t2": [schema, name], "c2": [names]}],
 "table_groups": [{"name": str, "items": [[schema, name], ...], "comment": str|None,
                   "note": str|None, "color": str|None}],
 "sticky_notes": [{"name": str, "text": str}],
}
Notes are represented by their text; an empty note ('' ) is the same as no note (None): the
library stores Note('') for "no note".  `null` default is {"kind": "str", "value": "NULL"}.
"""
from __future__ import annotations

import copy
from typing import Any, Dict, List, Optional


def _note_text(note) -> Optional[str]:
    if note is None:
        return None
    text = getattr(note, 'text', None)
    if text is None:
        text = str(note)
    return text if text != '' else None


def default_view(d) -> Any:
    from pydbml.classes import Expression
    if d is None:
        return None
    if isinstance(d, Expression):
        return {'kind': 'expr', 'value': d.text}
    if isinstance(d, bool):
        return {'kind': 'bool', 'value': d}
    if isinstance(d, int):
        return {'kind': 'int', 'value': d}
    if isinstance(d, float):
        return {'kind': 'float', 'value': repr(d)}
    if isinstance(d, str):
        return {'kind': 'str', 'value': d}
    return {'kind': type(d).__name__, 'value': repr(d)}


def _props(p) -> List[List[str]]:
    if not p:
        return []
    return [[k, v] for k, v in p.items()]


def column_view(c) -> Dict[str, Any]:
    from pydbml.classes import Enum
    t = c.type
    if isinstance(t, Enum):
        t = {'enum': [t.schema, t.name]}
    return {
        'name': c.name, 'type': t, 'unique': bool(c.unique), 'not_null': bool(c.not_null),
        'pk': bool(c.pk), 'autoinc': bool(c.autoinc), 'default': default_view(c.default),
        'note': _note_text(c.note), 'comment': c.comment, 'properties': _props(c.properties),
    }


def index_view(i) -> Dict[str, Any]:
    from pydbml.classes import Column, Expression
    subjects = []
    for s in i.subjects:
        if isinstance(s, Column):
            subjects.append({'col': s.name})
        elif isinstance(s, Expression):
            subjects.append({'expr': s.text})
        else:
            subjects.append({'str': s})
    return {
        'subjects': subjects, 'name': i.name, 'unique': bool(i.unique), 'type': i.type,
        'pk': bool(i.pk), 'note': _note_text(i.note), 'comment': i.comment,
    }


def table_view(t) -> Dict[str, Any]:
    return {
        'schema': t.schema, 'name': t.name, 'alias': t.alias, 'note': _note_text(t.note),
        'header_color': t.header_color, 'comment': t.comment, 'properties': _props(t.properties),
        'columns': [column_view(c) for c in t.columns],
        'indexes': [index_view(i) for i in t.indexes],
    }


def enum_view(e) -> Dict[str, Any]:
    return {
        'schema': e.schema, 'name': e.name, 'comment': e.comment,
        'items': [{'name': i.name, 'note': _note_text(i.note), 'comment': i.comment} for i in e.items],
    }


def _tkey(table) -> Optional[List[str]]:
    if table is None:
        return None
    return [table.schema, table.name]


def ref_view(r) -> Dict[str, Any]:
    return {
        'type': r.type, 'inline': bool(r.inline), 'name': r.name, 'comment': r.comment,
        'on_update': r.on_update, 'on_delete': r.on_delete,
        't1': _tkey(r.col1[0].table) if r.col1 else None, 'c1': [c.name for c in r.col1],
        't2': _tkey(r.col2[0].table) if r.col2 else None, 'c2': [c.name for c in r.col2],
    }


def group_view(g) -> Dict[str, Any]:
    return {
        'name': g.name, 'items': [[t.schema, t.name] for t in g.items], 'comment': g.comment,
        'note': _note_text(g.note), 'color': g.color,
    }


def project_view(p) -> Optional[Dict[str, Any]]:
    if p is None:
        return None
    return {'name': p.name, 'items': _props(p.items), 'note': _note_text(p.note), 'comment': p.comment}


def view(db) -> Dict[str, Any]:
    """Abstract content of a real pydbml Database."""
    return {
        'allow_properties': bool(db.allow_properties),
        'project': project_view(db.project),
        'enums': [enum_view(e) for e in db.enums],
        'tables': [table_view(t) for t in db.tables],
        'refs': [ref_view(r) for r in db.refs],
        'table_groups': [group_view(g) for g in db.table_groups],
        'sticky_notes': [{'name': n.name, 'text': n.text} for n in db.sticky_notes],
    }


_TABLE_DEF = {'schema': 'public', 'alias': None, 'note': None, 'header_color': None, 'comment': None,
              'properties': [], 'columns': [], 'indexes': []}
_COL_DEF = {'unique': False, 'not_null': False, 'pk': False, 'autoinc': False, 'default': None,
            'note': None, 'comment': None, 'properties': []}
_IDX_DEF = {'name': None, 'unique': False, 'type': None, 'pk': False, 'note': None, 'comment': None}
_REF_DEF = {'inline': False, 'name': None, 'comment': None, 'on_update': None, 'on_delete': None}
_ENUM_DEF = {'schema': 'public', 'comment': None}
_ITEM_DEF = {'note': None, 'comment': None}
_GROUP_DEF = {'comment': None, 'note': None, 'color': None, 'items': []}
_PROJ_DEF = {'items': [], 'note': None, 'comment': None}


def _fill(d: Dict[str, Any], defaults: Dict[str, Any]) -> Dict[str, Any]:
    out = dict(d)
    for k, v in defaults.items():
        if k not in out:
            out[k] = copy.deepcopy(v)
    return out


def normalize(m: Dict[str, Any]) -> Dict[str, Any]:
    """Fill every optional key with its default so that models compare with `==`."""
    m = copy.deepcopy(m)
    out = {
        'allow_properties': bool(m.get('allow_properties', False)),
        'project': _fill(m['project'], _PROJ_DEF) if m.get('project') else None,
        'enums': [], 'tables': [], 'refs': [], 'table_groups': [], 'sticky_notes': [],
    }
    for e in m.get('enums', []):
        e = _fill(e, _ENUM_DEF)
        e['items'] = [_fill(i, _ITEM_DEF) for i in e['items']]
        out['enums'].append(e)
    for t in m.get('tables', []):
        t = _fill(t, _TABLE_DEF)
        t['columns'] = [_fill(c, _COL_DEF) for c in t['columns']]
        t['indexes'] = [_fill(i, _IDX_DEF) for i in t['indexes']]
        out['tables'].append(t)
    for r in m.get('refs', []):
        out['refs'].append(_fill(r, _REF_DEF))
    for g in m.get('table_groups', []):
        out['table_groups'].append(_fill(g, _GROUP_DEF))
    for n in m.get('sticky_notes', []):
        out['sticky_notes'].append(dict(n))
    return out


def default_value(d):
    from pydbml.classes import Expression
    if d is None:
        return None
    k, v = d['kind'], d['value']
    if k == 'expr':
        return Expression(v)
    if k == 'float':
        return float(v)
    return v


def build_api(m: Dict[str, Any], **db_kwargs):
    """Build a real Database from an abstract model through the public classes only."""
    from pydbml.database import Database
    from pydbml.classes import (Table, Column, Index, Enum, EnumItem, Reference, Project,
                                TableGroup, Note, Expression, StickyNote)
    m = normalize(m)
    db = Database(allow_properties=m['allow_properties'], **db_kwargs)
    enums = {}
    for e in m['enums']:
        en = Enum(name=e['name'], schema=e['schema'], comment=e['comment'],
                  items=[EnumItem(name=i['name'], note=i['note'], comment=i['comment']) for i in e['items']])
        enums[(e['schema'], e['name'])] = en
        db.add(en)
    tables = {}
    for t in m['tables']:
        tb = Table(name=t['name'], schema=t['schema'], alias=t['alias'], note=t['note'],
                   header_color=t['header_color'], comment=t['comment'],
                   properties=dict((k, v) for k, v in t['properties']))
        for c in t['columns']:
            ty = c['type']
            if isinstance(ty, dict):
                ty = enums[tuple(ty['enum'])]
            tb.add_column(Column(name=c['name'], type=ty, unique=c['unique'], not_null=c['not_null'],
                                 pk=c['pk'], autoinc=c['autoinc'], default=default_value(c['default']),
                                 note=c['note'], comment=c['comment'],
                                 properties=dict((k, v) for k, v in c['properties'])))
        for i in t['indexes']:
            subjects = []
            for s in i['subjects']:
                if 'col' in s:
                    subjects.append(tb[s['col']])
                elif 'expr' in s:
                    subjects.append(Expression(s['expr']))
                else:
                    subjects.append(s['str'])
            tb.add_index(Index(subjects=subjects, name=i['name'], unique=i['unique'], type=i['type'],
                               pk=i['pk'], note=i['note'], comment=i['comment']))
        tables[(t['schema'], t['name'])] = tb
        db.add(tb)
    for g in m['table_groups']:
        db.add(TableGroup(name=g['name'], items=[tables[tuple(k)] for k in g['items']],
                          comment=g['comment'], note=Note(g['note']) if g['note'] is not None else None,
                          color=g['color']))
    for n in m['sticky_notes']:
        db.add(StickyNote(name=n['name'], text=n['text']))
    if m['project']:
        p = m['project']
        db.add(Project(name=p['name'], items=dict((k, v) for k, v in p['items']), note=p['note'],
                       comment=p['comment']))
    for r in m['refs']:
        t1 = tables[tuple(r['t1'])]
        t2 = tables[tuple(r['t2'])]
        db.add(Reference(type=r['type'], col1=[t1[c] for c in r['c1']], col2=[t2[c] for c in r['c2']],
                         name=r['name'], comment=r['comment'], on_update=r['on_update'],
                         on_delete=r['on_delete'], inline=r['inline']))
    return db


def diff(a: Any, b: Any, path: str = '') -> List[str]:
    """Human-readable differences between two abstract models (first 20)."""
    out: List[str] = []

    def go(x, y, p):
        if len(out) >= 20:
            return
        if isinstance(x, dict) and isinstance(y, dict):
            for k in sorted(set(x) | set(y)):
                if k not in x:
                    out.append(f'{p}.{k}: missing on left, right={y[k]!r}')
                elif k not in y:
                    out.append(f'{p}.{k}: left={x[k]!r}, missing on right')
                else:
                    go(x[k], y[k], f'{p}.{k}')
        elif isinstance(x, list) and isinstance(y, list):
            if len(x) != len(y):
                out.append(f'{p}: length {len(x)} != {len(y)}')
            for i, (u, v) in enumerate(zip(x, y)):
                go(u, v, f'{p}[{i}]')
        else:
            if x != y or type(x) is not type(y):
                out.append(f'{p}: {x!r} != {y!r}')
    go(a, b, path)
    return out
