"""Abstract schema generator: well-formed abstract models `m` (see spec/model.py) for the bounded
obligations.  Written from the DBML documentation and the statements of C01/C05/C15; it never
imports pydbml.

What the generator deliberately stays away from (not promised by the statements):
  * comments above a column (columns only capture trailing comments) -> column comments are single-line;
  * inline refs with name / actions / comment, inline many-to-many, inline composite refs;
  * notes that are not in normal form (leading/trailing blank lines, common indentation > 0);
  * identifiers containing `"` or newlines (a double-quoted DBML identifier cannot hold them);
  * unless exotic=True: quoted identifiers containing `.` `,` `(` `)` or leading/trailing spaces (these have their
    own obligation with per-site keys, C01.B.exotic-names);
  * two tables with the same schema+name, an alias equal to any table name or other alias,
    duplicate enum / group / column names, two refs over the same endpoint pair,
    a table in two groups, empty tables / enums / groups.
"""
from __future__ import annotations

import itertools
import random
import re
from typing import Any, Dict, Iterator, List, Optional, Tuple

from .model import normalize

PLAIN = ['users', 'orders', 'id', 'name', 'user_id', 'created_at', 'Status', 'x1', '_tmp', 'UPPER',
         'a', 'b2', 'items', 'Products', 'country_code', 'merchant', 'kind', 'total', 'email', 'ts']
NEEDS_QUOTES = ['a b', 'é', 'a-b', '1x', 'order items', 'naïve café', '2fa', 'a/b', 'x y z', 'Ünï', 'p:q', "o'k", '[k]',
                '{w}']
RESERVED = ['table', 'note', 'ref', 'indexes', 'enum', 'project', 'Note', 'TABLE']
# "exotic" quoted identifiers: they contain `.`, `,`, `(`, `)` or leading/trailing spaces.  Opt-in only
# (random_model(..., exotic=True)); the dedicated obligation C01.B.exotic-names enumerates them per name position.
EXOTIC = ['a.b', 'x,y', '(z)', '(w', 'v)', ' lead', 'trail ']
SCHEMAS = ['public', 'public', 'public', 's1', 'core', 'my schema', 'é', 'v2']

TYPE_WORDS = ['int', 'integer', 'varchar', 'text', 'timestamp', 'bool', 'VARCHAR', 'uuid', 'jsonb', 'date']
TYPE_ARGS = ['varchar(255)', 'decimal(10,2)', 'decimal(10, 2)', 'char(1)', 'numeric(8,3)']
TYPE_ARRAY = ['int[]', 'text[]']
TYPE_QUOTED = ['double precision', 'bigint unsigned', 'timestamp with time zone']

COLOURS = ['#fff', '#3498DB', '#a1B2c3', '#000', '#AbC']

NOTES_1 = ['simple note', "it's a note", 'with "double" quotes', 'back\\slash', 'brace { } bracket [ ]',
           'é unicode ✓', "tricky ''' triple", 'a // b', 'a /* b */', 'x', "ends with quote'",
           'path\\', 'comma, colon: semi;', '#hash `tick`', "'starts with quote"]
NOTES_N = ['line1\nline2', 'first\n  indented second\nthird', 'para1\n\npara2', "it's\nmulti 'q'\nline",
           'a\\b\nc"d', 'l1\n    deep\n  mid\nl4']
STRINGS_1 = ['abc', 'hello world', "it's", 'say "hi"', 'back\\slash', 'a{b}', '#fff', 'x // not comment',
             'é', 'NULL', 'true', '100', "q'''q", 'path\\', '1.5', 'a, b']
STRINGS_N = ['line1\nline2', "a'b\nc"]
EXPRS = ['now()', "now() - interval '5 days'", 'gen_random_uuid()', '(a + b) * 2', 'x{y}', "'lit'", 'a"b']
IDX_EXPRS = ['id*2', 'lower(name)', 'getdate()', "coalesce(a, 'x')", 'a + b']
IDX_TYPES = ['btree', 'hash', 'gin', 'gist']
ACTIONS = ['cascade', 'restrict', 'set null', 'set default', 'no action']
COMMENTS_1 = ['plain comment', 'it\'s "q" {x}', 'Table t { id int }', '-- sql', 'note: \'x\'', 'é ✓', 'a // b',
              '[pk]', 'c']
COMMENTS_N = ['first line\nsecond line', 'Ref: a.b > c.d\n}', 'l1\nl2\nl3']
PROP_KEYS = ['col_prop', 'owner', 'x1', 'Team', 'table_prop', 'tag', 'k_2']
PROJECT_KEYS = ['database_type', 'author', 'version', 'desc', 'Owner']
PROJECT_VALS = ['PostgreSQL', 'John Doe', '1.0', "it's", 'say "hi"', 'back\\slash', 'l1\nl2', 'é']

PLAIN_RE = re.compile(r'^[A-Za-z_][A-Za-z0-9_]*$')


def _pick_name(rng: random.Random, taken: set, reserved_ok: bool = True, punct: bool = False) -> str:
    """A fresh identifier (case-insensitively distinct from `taken`)."""
    for _ in range(200):
        r = rng.random()
        if punct and rng.random() < 0.2:
            n = rng.choice(EXOTIC)
        elif r < 0.62:
            n = rng.choice(PLAIN)
        elif r < 0.88 or not reserved_ok:
            n = rng.choice(NEEDS_QUOTES)
        else:
            n = rng.choice(RESERVED)
        if n.lower() not in taken:
            taken.add(n.lower())
            return n
    k = 0
    while f'n{k}' in taken:
        k += 1
    taken.add(f'n{k}')
    return f'n{k}'


def _maybe(rng: random.Random, p: float) -> bool:
    return rng.random() < p


def _note(rng: random.Random, p: float = 0.3) -> Optional[str]:
    if not _maybe(rng, p):
        return None
    return rng.choice(NOTES_N) if _maybe(rng, 0.3) else rng.choice(NOTES_1)


def _comment(rng: random.Random, p: float = 0.2, multi: bool = True) -> Optional[str]:
    if not _maybe(rng, p):
        return None
    if multi and _maybe(rng, 0.25):
        return rng.choice(COMMENTS_N)
    return rng.choice(COMMENTS_1)


def _default(rng: random.Random) -> Dict[str, Any]:
    k = rng.choice(['int', 'float', 'bool', 'str', 'expr', 'null', 'str'])
    if k == 'int':
        return {'kind': 'int', 'value': rng.choice([0, 1, 42, 1000000, 7])}
    if k == 'float':
        return {'kind': 'float', 'value': rng.choice(['0.0', '1.5', '12.25', '100.0', '3.14'])}
    if k == 'bool':
        return {'kind': 'bool', 'value': rng.choice([True, False])}
    if k == 'null':
        return {'kind': 'str', 'value': 'NULL'}
    if k == 'expr':
        return {'kind': 'expr', 'value': rng.choice(EXPRS)}
    if _maybe(rng, 0.06):
        return {'kind': 'str', 'value': ''}
    return {'kind': 'str', 'value': rng.choice(STRINGS_N) if _maybe(rng, 0.12) else rng.choice(STRINGS_1)}


def _props(rng: random.Random, p: float) -> List[List[str]]:
    if not _maybe(rng, p):
        return []
    keys = rng.sample(PROP_KEYS, rng.randint(1, 3))
    out = []
    for k in keys:
        v = rng.choice(STRINGS_N + NOTES_N) if _maybe(rng, 0.2) else rng.choice(STRINGS_1 + NOTES_1)
        out.append([k, v])
    return out


def _type(rng: random.Random, enums: List[Dict[str, Any]]):
    r = rng.random()
    if enums and r < 0.2:
        e = rng.choice(enums)
        return {'enum': [e['schema'], e['name']]}
    if r < 0.65:
        return rng.choice(TYPE_WORDS)
    if r < 0.82:
        return rng.choice(TYPE_ARGS)
    if r < 0.9:
        return rng.choice(TYPE_ARRAY)
    return rng.choice(TYPE_QUOTED)


SIZES = {
    'tiny': dict(tables=(1, 2), cols=(1, 2), enums=(0, 1), refs=(0, 2), groups=(0, 1), notes=(0, 1)),
    'small': dict(tables=(1, 4), cols=(1, 4), enums=(0, 2), refs=(0, 4), groups=(0, 2), notes=(0, 2)),
    'medium': dict(tables=(3, 7), cols=(2, 6), enums=(0, 3), refs=(0, 8), groups=(0, 3), notes=(0, 3)),
}


def random_model(rng: random.Random, size: str = 'small', allow_properties: bool = False,
                 exotic: bool = False) -> Dict[str, Any]:
    """A normalized abstract model of a well-formed database."""
    sz = SIZES[size]
    rich = rng.choice([0.5, 1.0, 1.0, 1.6])          # per-document feature density
    P = lambda p: min(0.95, p * rich)
    punct = bool(exotic) and rng.random() < 0.5      # opt-in: exotic quoted identifiers (see EXOTIC)
    schemas = SCHEMAS + (['sch.x'] if punct else [])

    # ---- enums
    enums: List[Dict[str, Any]] = []
    enum_taken: set = set(w.lower() for w in TYPE_WORDS)
    for _ in range(rng.randint(*sz['enums'])):
        schema = rng.choice(schemas)
        name = _pick_name(rng, enum_taken, punct=punct)
        items_taken: set = set()
        items = []
        for _i in range(rng.randint(1, 4)):
            items.append({'name': _pick_name(rng, items_taken, punct=punct), 'note': _note(rng, P(0.25)),
                          'comment': _comment(rng, P(0.2))})
        enums.append({'schema': schema, 'name': name, 'comment': _comment(rng, P(0.25)), 'items': items})

    # ---- tables
    tables: List[Dict[str, Any]] = []
    tname_taken: set = set()      # names and aliases, all schemas together (no alias/name shadowing)
    n_tables = rng.randint(*sz['tables'])
    for _ in range(n_tables):
        schema = rng.choice(schemas)
        name = _pick_name(rng, tname_taken, punct=punct)
        alias = _pick_name(rng, tname_taken, punct=punct) if _maybe(rng, P(0.3)) else None
        col_taken: set = set()
        cols = []
        for _c in range(rng.randint(*sz['cols'])):
            c = {
                'name': _pick_name(rng, col_taken, punct=punct), 'type': _type(rng, enums),
                'unique': _maybe(rng, P(0.15)), 'not_null': _maybe(rng, P(0.2)), 'pk': _maybe(rng, P(0.15)),
                'autoinc': _maybe(rng, P(0.1)), 'default': _default(rng) if _maybe(rng, P(0.3)) else None,
                'note': _note(rng, P(0.2)), 'comment': _comment(rng, P(0.15), multi=False),
                'properties': _props(rng, P(0.4)) if allow_properties else [],
            }
            cols.append(c)
        indexes = []
        if _maybe(rng, P(0.35)):
            seen_subj = set()
            for _i in range(rng.randint(1, 3)):
                n_subj = rng.choice([1, 1, 2, 3])
                subjects = []
                names = [c['name'] for c in cols]
                rng.shuffle(names)
                exprs = list(IDX_EXPRS)
                rng.shuffle(exprs)
                for _s in range(n_subj):
                    if names and _maybe(rng, 0.7):
                        subjects.append({'col': names.pop()})
                    else:
                        subjects.append({'expr': exprs.pop()})
                key = repr(subjects)
                if key in seen_subj:
                    continue
                seen_subj.add(key)
                indexes.append({
                    'subjects': subjects,
                    'name': rng.choice(['idx_1', 'my index', "it's", 'back\\slash', 'IX']) if _maybe(rng, P(0.3)) else None,
                    'unique': _maybe(rng, P(0.25)), 'type': rng.choice(IDX_TYPES) if _maybe(rng, P(0.25)) else None,
                    'pk': _maybe(rng, P(0.12)), 'note': _note(rng, P(0.2)), 'comment': _comment(rng, P(0.2)),
                })
        tables.append({
            'schema': schema, 'name': name, 'alias': alias, 'note': _note(rng, P(0.3)),
            'header_color': rng.choice(COLOURS) if _maybe(rng, P(0.2)) else None,
            'comment': _comment(rng, P(0.25)),
            'properties': _props(rng, P(0.45)) if allow_properties else [],
            'columns': cols, 'indexes': indexes,
        })

    # ---- refs: endpoint pairs are pairwise distinct (unordered)
    inline_by_table: Dict[int, List[Tuple[int, Dict[str, Any]]]] = {}
    standalone: List[Dict[str, Any]] = []
    used_pairs: set = set()
    ref_names: set = set()
    for _ in range(rng.randint(*sz['refs'])):
        i1 = rng.randrange(n_tables)
        i2 = rng.randrange(n_tables)
        t1, t2 = tables[i1], tables[i2]
        composite = _maybe(rng, 0.2) and len(t1['columns']) >= 2 and len(t2['columns']) >= 2
        k = 2 if composite else 1
        c1 = rng.sample(range(len(t1['columns'])), k)
        c2 = rng.sample(range(len(t2['columns'])), k)
        e1 = (i1, tuple(c1))
        e2 = (i2, tuple(c2))
        if e1 == e2:
            continue
        pair = frozenset([e1, e2])
        if pair in used_pairs:
            continue
        used_pairs.add(pair)
        typ = rng.choice(['>', '<', '-', '<>', '>'])
        inline = (not composite) and typ != '<>' and _maybe(rng, 0.45)
        r = {'type': typ, 'inline': inline, 'name': None, 'comment': None, 'on_update': None, 'on_delete': None,
             't1': [t1['schema'], t1['name']], 'c1': [t1['columns'][j]['name'] for j in c1],
             't2': [t2['schema'], t2['name']], 'c2': [t2['columns'][j]['name'] for j in c2]}
        if inline:
            inline_by_table.setdefault(i1, []).append((c1[0], r))
        else:
            if _maybe(rng, P(0.35)):
                r['name'] = _pick_name(rng, ref_names)
            if _maybe(rng, P(0.3)):
                r['on_update'] = rng.choice(ACTIONS)
            if _maybe(rng, P(0.3)):
                r['on_delete'] = rng.choice(ACTIONS)
            r['comment'] = _comment(rng, P(0.25))
            standalone.append(r)
    # source order: inline refs travel with their table (by column, then position in the settings);
    # standalone refs are spread over the gaps between tables.
    gaps: List[List[Dict[str, Any]]] = [[] for _ in range(n_tables + 1)]
    for r in standalone:
        gaps[rng.choice([n_tables, n_tables, rng.randrange(n_tables + 1)])].append(r)
    refs: List[Dict[str, Any]] = []
    for i in range(n_tables):
        refs.extend(gaps[i])
        lst = inline_by_table.get(i, [])
        lst.sort(key=lambda cr: cr[0])      # stable: keeps draw order within a column
        refs.extend(r for _c, r in lst)
    refs.extend(gaps[n_tables])

    # ---- table groups (a table belongs to at most one group)
    groups = []
    gtaken: set = set()
    free = list(range(n_tables))
    rng.shuffle(free)
    for _ in range(rng.randint(*sz['groups'])):
        if not free:
            break
        k = rng.randint(1, min(3, len(free)))
        members = [free.pop() for _i in range(k)]
        groups.append({'name': _pick_name(rng, gtaken),
                       'items': [[tables[i]['schema'], tables[i]['name']] for i in members],
                       'comment': _comment(rng, P(0.25)), 'note': _note(rng, P(0.3)),
                       'color': rng.choice(COLOURS) if _maybe(rng, P(0.3)) else None})

    # ---- sticky notes
    staken: set = set()
    stickies = []
    for _ in range(rng.randint(*sz['notes'])):
        stickies.append({'name': _pick_name(rng, staken),
                         'text': rng.choice(NOTES_N) if _maybe(rng, 0.4) else rng.choice(NOTES_1)})

    # ---- project
    project = None
    if _maybe(rng, 0.4):
        keys = rng.sample(PROJECT_KEYS, rng.randint(0, 3))
        project = {'name': _pick_name(rng, set()), 'items': [[k, rng.choice(PROJECT_VALS)] for k in keys],
                   'note': _note(rng, P(0.5)), 'comment': _comment(rng, P(0.25))}

    m = {'allow_properties': bool(allow_properties), 'project': project, 'enums': enums, 'tables': tables,
         'refs': refs, 'table_groups': groups, 'sticky_notes': stickies}
    return normalize(m)


# ------------------------------------------------------------------ well-formedness (self check)

def wellformed_problems(m: Dict[str, Any]) -> List[str]:
    """Violations of the generator's own promises (used by the self tests, not by checks)."""
    out = []
    keys = set()
    names = set()
    for t in m['tables']:
        k = (t['schema'], t['name'])
        if k in keys:
            out.append(f'duplicate table {k}')
        keys.add(k)
        names.add(t['name'])
        if not t['columns']:
            out.append(f'empty table {k}')
        cn = [c['name'] for c in t['columns']]
        if len(set(cn)) != len(cn):
            out.append(f'duplicate column in {k}')
        for c in t['columns']:
            if c['comment'] and '\n' in c['comment']:
                out.append('multi-line column comment')
    aliases = [t['alias'] for t in m['tables'] if t['alias']]
    if len(set(aliases)) != len(aliases) or set(aliases) & names:
        out.append('alias clash')
    seen = set()
    for r in m['refs']:
        p = frozenset([(tuple(r['t1']), tuple(r['c1'])), (tuple(r['t2']), tuple(r['c2']))])
        if p in seen:
            out.append('duplicate ref endpoints')
        seen.add(p)
        if r['inline'] and (r['name'] or r['comment'] or r['on_update'] or r['on_delete'] or r['type'] == '<>'
                            or len(r['c1']) != 1):
            out.append('inline ref with standalone-only feature')
    return out


# ------------------------------------------------------------------ per-element feature products

def _col(name='id', type='int', **kw):
    d = {'name': name, 'type': type}
    d.update(kw)
    return d


def _table(name='t', columns=None, **kw):
    d = {'name': name, 'columns': columns if columns is not None else [_col()]}
    d.update(kw)
    return d


def _base(**kw):
    d = {'tables': [], 'enums': [], 'refs': [], 'table_groups': [], 'sticky_notes': [], 'project': None}
    d.update(kw)
    return d


# feature name -> (exclusive group, patch).  Values are chosen so that each feature is observable.
COLUMN_FEATURES = {
    'pk': (None, {'pk': True}), 'unique': (None, {'unique': True}), 'not_null': (None, {'not_null': True}),
    'autoinc': (None, {'autoinc': True}),
    'default_int': ('default', {'default': {'kind': 'int', 'value': 0}}),
    'default_float': ('default', {'default': {'kind': 'float', 'value': '1.5'}}),
    'default_bool': ('default', {'default': {'kind': 'bool', 'value': False}}),
    'default_null': ('default', {'default': {'kind': 'str', 'value': 'NULL'}}),
    'default_str': ('default', {'default': {'kind': 'str', 'value': "it's \"q\" \\ x"}}),
    'default_expr': ('default', {'default': {'kind': 'expr', 'value': "now() - interval '5 days'"}}),
    'note': ('note', {'note': "it's \"n\" \\ {x}"}), 'note_ml': ('note', {'note': "l1\n  l2 'q'\nl3"}),
    'comment': (None, {'comment': 'trailing {c}'}),
    'type_args': ('type', {'type': 'decimal(10, 2)'}),
    'type_quoted': ('type', {'type': 'double precision'}),
    'type_enum_schema': ('type', {'type': {'enum': ['s1', 'e b']}}),
    'name_reserved': ('name', {'name': 'note'}),
    'ref_inline': (None, '__ref__'),
    'type_array': ('type', {'type': 'int[]'}), 'type_enum': ('type', {'type': {'enum': ['public', 'e']}}),
    'name_quoted': ('name', {'name': 'a b'}), 'ref_inline2': (None, '__ref2__'),
    'prop': (None, '__prop__'), 'prop2': (None, '__prop2__'),
}
# features that are exercised alone and in pairs only (kept out of the triples to bound the product)
PAIR_ONLY = {
    'column': {'type_array', 'type_enum', 'name_quoted', 'ref_inline2', 'default_float', 'default_bool', 'default_null',
               'type_quoted', 'name_reserved', 'prop2', 'autoinc', 'type_enum_schema'},
    'table': {'name_quoted', 'name_reserved', 'comment_ml'},
    'ref_short': {'comment_ml', 'quoted', 'self'}, 'ref_long': {'comment_ml', 'quoted', 'self'},
    'index': {'quoted', 'note_ml'},
}

INDEX_FEATURES = {
    'name': (None, {'name': "ix 'q'"}), 'unique': (None, {'unique': True}), 'type': (None, {'type': 'hash'}),
    'pk': (None, {'pk': True}), 'note': ('note', {'note': 'idx "note"'}), 'note_ml': ('note', {'note': 'l1\nl2'}),
    'comment': (None, {'comment': 'index comment'}),
    'composite': ('subj', {'subjects': [{'col': 'id'}, {'col': 'a b'}]}),
    'expr': ('subj', {'subjects': [{'expr': 'id*2'}]}),
    'mixed': ('subj', {'subjects': [{'expr': "lower(x)"}, {'col': 'a b'}, {'col': 'id'}]}),
    'quoted': ('subj', {'subjects': [{'col': 'a b'}]}),
}

REF_FEATURES = {
    'name': (None, {'name': 'fk 1'}), 'on_update': (None, {'on_update': 'set null'}),
    'on_delete': (None, {'on_delete': 'no action'}), 'comment': (None, {'comment': 'ref comment'}),
    'comment_ml': (None, {'comment': 'l1\nl2'}),
    'lt': ('type', {'type': '<'}), 'one': ('type', {'type': '-'}), 'm2m': ('type', {'type': '<>'}),
    'composite': ('cols', '__composite__'), 'schema': ('tabs', '__schema__'), 'self': ('tabs', '__self__'),
    'quoted': ('cols', '__quoted__'),
}

TABLE_FEATURES = {
    'schema': (None, {'schema': 's 1'}), 'alias': (None, {'alias': 'T'}), 'note': ('note', {'note': "table 'note'"}),
    'note_ml': ('note', {'note': 'l1\n\n  l3'}), 'header_color': (None, {'header_color': '#3498DB'}),
    'comment': ('comment', {'comment': 'table comment'}), 'comment_ml': ('comment', {'comment': 'c1\nc2'}),
    'index': (None, {'indexes': [{'subjects': [{'col': 'id'}]}]}),
    'cols2': (None, '__cols2__'), 'name_quoted': ('name', {'name': 'order items'}),
    'name_reserved': ('name', {'name': 'table'}), 'prop': (None, '__prop__'),
}

ENUM_FEATURES = {
    'schema': (None, {'schema': 'core'}), 'comment': (None, {'comment': 'enum comment'}),
    'name_quoted': (None, {'name': 'product status'}),
    'item_note': (None, '__item_note__'), 'item_comment': (None, '__item_comment__'),
    'item_quoted': (None, '__item_quoted__'), 'items3': (None, '__items3__'),
    'item_note_ml': (None, '__item_note_ml__'),
}

GROUP_FEATURES = {
    'color': (None, {'color': '#a1B2c3'}), 'note': ('note', {'note': "group 'note'"}),
    'note_ml': ('note', {'note': 'g1\ng2'}), 'comment': (None, {'comment': 'group comment'}),
    'two': (None, '__two__'), 'schema_item': (None, '__schema_item__'), 'alias_item': (None, '__alias_item__'),
    'name_quoted': (None, {'name': 'my group'}),
}

PROJECT_FEATURES = {
    'item': (None, '__item__'), 'items2': (None, '__items2__'), 'item_ml': (None, '__item_ml__'),
    'note': ('note', {'note': "project 'note'"}), 'note_ml': ('note', {'note': 'p1\n  p2'}),
    'comment': (None, {'comment': 'project comment'}), 'name_quoted': (None, {'name': 'my project'}),
}

STICKY_FEATURES = {
    'ml': ('text', {'text': 'l1\n  l2\nl3'}), 'quotes': ('text', {'text': "it's \"q\" \\ ''' x"}),
    'name_quoted': ('name', {'name': 'my note'}), 'name_reserved': ('name', {'name': 'note'}),
    'second': (None, '__second__'),
}

ELEMENT_KINDS = {
    'column': COLUMN_FEATURES, 'index': INDEX_FEATURES, 'ref_short': REF_FEATURES, 'ref_long': REF_FEATURES,
    'ref_inline': {k: v for k, v in REF_FEATURES.items() if k in ('lt', 'one', 'schema', 'self', 'quoted')},
    'table': TABLE_FEATURES, 'enum': ENUM_FEATURES, 'table_group': GROUP_FEATURES,
    'project': PROJECT_FEATURES, 'sticky_note': STICKY_FEATURES,
}


def _all_features(kind: str) -> Dict[str, Any]:
    return ELEMENT_KINDS[kind]


def feature_subsets(kind: str, max_size: int = 3) -> Iterator[Tuple[str, ...]]:
    feats = _all_features(kind)
    names = list(feats)
    pair_only = PAIR_ONLY.get(kind, set())
    for k in range(0, max_size + 1):
        for sub in itertools.combinations(names, k):
            if k > 2 and pair_only & set(sub):
                continue
            groups = [feats[f][0] for f in sub if feats[f][0] is not None]
            if len(groups) != len(set(groups)):
                continue
            yield sub


def element_model(kind: str, features: Tuple[str, ...]) -> Dict[str, Any]:
    """Minimal document model holding one element of `kind` with exactly `features` switched on."""
    feats = _all_features(kind)
    patches = [feats[f][1] for f in features]
    plain = {}
    special = []
    for p in patches:
        if isinstance(p, dict):
            plain.update(p)
        else:
            special.append(p)
    allow = False
    if kind == 'column':
        col = _col(name='c', type='int')
        col.update(plain)
        other = _table('other', [_col('id'), _col('k', 'text')])
        enums = []
        if isinstance(col['type'], dict):
            enums.append({'schema': col['type']['enum'][0], 'name': col['type']['enum'][1],
                          'items': [{'name': 'x'}]})
        refs = []
        if '__ref__' in special:
            refs.append({'type': '>', 'inline': True, 't1': ['public', 't'], 'c1': [col['name']],
                         't2': ['public', 'other'], 'c2': ['id']})
        if '__ref2__' in special:
            refs.append({'type': '-', 'inline': True, 't1': ['public', 't'], 'c1': [col['name']],
                         't2': ['public', 'other'], 'c2': ['k']})
        if '__prop__' in special:
            col['properties'] = [['col_prop', "v 'q'"]]
            allow = True
        if '__prop2__' in special:
            col['properties'] = col.get('properties', []) + [['owner', 'l1\nl2'], ['x1', 'plain']]
            allow = True
        m = _base(tables=[_table('t', [_col('id'), col]), other], enums=enums, refs=refs)
    elif kind == 'index':
        idx = {'subjects': [{'col': 'id'}]}
        idx.update(plain)
        m = _base(tables=[_table('t', [_col('id'), _col('a b', 'text')], indexes=[idx])])
    elif kind in ('ref_short', 'ref_long', 'ref_inline'):
        t1 = _table('t', [_col('id'), _col('x'), _col('y')])
        t2 = _table('u', [_col('id'), _col('p'), _col('q')])
        r = {'type': '>', 'inline': kind == 'ref_inline', 't1': ['public', 't'], 'c1': ['x'],
             't2': ['public', 'u'], 'c2': ['id']}
        r.update(plain)
        tabs = [t1, t2]
        if '__composite__' in special:
            r['c1'] = ['x', 'y']
            r['c2'] = ['p', 'q']
        if '__quoted__' in special:
            t1['columns'].append(_col('a b'))
            t2['columns'].append(_col('é'))
            r['c1'] = ['a b']
            r['c2'] = ['é']
        if '__schema__' in special:
            t2['schema'] = 's1'
            r['t2'] = ['s1', 'u']
        if '__self__' in special:
            r['t2'] = ['public', 't']
            r['c2'] = ['id']
            tabs = [t1]
        m = _base(tables=tabs, refs=[r])
    elif kind == 'table':
        t = _table('t', [_col('id')])
        t.update(plain)
        if '__cols2__' in special:
            t['columns'] = [_col('id'), _col('a b', 'varchar(255)', not_null=True)]
        if '__prop__' in special:
            t['properties'] = [['table_prop', "v 'q'"]]
            allow = True
        m = _base(tables=[t])
    elif kind == 'enum':
        e = {'name': 'e', 'items': [{'name': 'x'}]}
        e.update(plain)
        if '__items3__' in special:
            e['items'] = [{'name': 'x'}, {'name': 'y'}, {'name': 'z'}]
        if '__item_quoted__' in special:
            e['items'].append({'name': 'out of stock'})
        if '__item_note__' in special:
            e['items'][0]['note'] = "item 'note'"
        if '__item_note_ml__' in special:
            e['items'][-1]['note'] = 'n1\nn2'
        if '__item_comment__' in special:
            e['items'][0]['comment'] = 'item comment'
        m = _base(enums=[e], tables=[_table('t', [_col('c', {'enum': [e.get('schema', 'public'), e['name']]})])])
    elif kind == 'table_group':
        g = {'name': 'g', 'items': [['public', 't']]}
        g.update(plain)
        tabs = [_table('t')]
        if '__two__' in special:
            tabs.append(_table('u'))
            g['items'].append(['public', 'u'])
        if '__schema_item__' in special:
            tabs.append(_table('v', schema='s1'))
            g['items'].append(['s1', 'v'])
        if '__alias_item__' in special:
            tabs.append(_table('w', alias='W'))
            g['items'].append(['public', 'w'])
        m = _base(tables=tabs, table_groups=[g])
    elif kind == 'project':
        p = {'name': 'p', 'items': []}
        p.update(plain)
        if '__item__' in special:
            p['items'].append(['database_type', 'PostgreSQL'])
        if '__items2__' in special:
            p['items'].extend([['author', "it's me"], ['version', '1.0']])
        if '__item_ml__' in special:
            p['items'].append(['desc', 'l1\nl2'])
        m = _base(project=p, tables=[_table('t')])
    elif kind == 'sticky_note':
        n = {'name': 'n', 'text': 'plain text'}
        n.update(plain)
        notes = [n]
        if '__second__' in special:
            notes.append({'name': 'n2', 'text': 'second'})
        m = _base(sticky_notes=notes, tables=[_table('t')])
    else:
        raise ValueError(kind)
    m['allow_properties'] = allow
    return normalize(m)


def enumerate_element_models(kind: str, max_size: int = 3) -> Iterator[Tuple[Tuple[str, ...], Dict[str, Any]]]:
    for sub in feature_subsets(kind, max_size):
        yield sub, element_model(kind, sub)
