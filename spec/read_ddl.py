"""Independent reader of the SQL DDL that PyDBML emits, and the DDL expected for a model.

* `read_ddl(text)` -- hand-written tokenising reader (no pydbml imports).  Returns a list of
  statement dicts (see the functions `_create_table` ... below for the shapes).  Raises
  `ReadError(where, message)` when the text is not readable as the DDL subset.
* `ddl(m)` -- the statements promised by properties C03/C04 for abstract model `m`
  (`spec/model.py`), written from the property statements, not from the renderer.
* `compare(m, statements)` -- list of `Mismatch(prop, key, message)`; lenient wherever the
  statements are silent (statement order, spelling of string defaults, quoting of note text,
  order of columns in a composite primary key, names of join-table columns).
* `readable(m)` -- True iff every user string of `m` is in the class for which the reader is
  unambiguous; a ReadError on a model that is not `readable` proves nothing.
"""
from __future__ import annotations

import re
from typing import Any, Dict, List, Optional, Tuple


class ReadError(Exception):
    def __init__(self, where: str, message: str):
        super().__init__(f'{where}: {message}')
        self.where = where
        self.message = message


# --------------------------------------------------------------------------- tokens

class Tok:
    __slots__ = ('kind', 'value', 'start', 'end')

    def __init__(self, kind: str, value: str, start: int, end: int):
        self.kind = kind      # 'qid' | 'lit' | 'word' | 'punct' | 'comment'
        self.value = value    # unquoted content for qid / lit
        self.start = start
        self.end = end

    def __repr__(self):
        return f'{self.kind}:{self.value!r}'

    def is_word(self, *words: str) -> bool:
        return self.kind == 'word' and self.value.upper() in words

    def is_punct(self, p: str) -> bool:
        return self.kind == 'punct' and self.value == p


_PUNCT = '(),;.'
_WORD_STOP = set(' \t\r\n\f\v"\'' + _PUNCT)


def tokenize(text: str) -> List[Tok]:
    toks: List[Tok] = []
    i, n = 0, len(text)
    while i < n:
        ch = text[i]
        if ch in ' \t\r\n\f\v':
            i += 1
            continue
        if ch == '-' and text.startswith('--', i):
            j = text.find('\n', i)
            if j < 0:
                j = n
            body = text[i + 2:j]
            if body.startswith(' '):
                body = body[1:]
            toks.append(Tok('comment', body.rstrip('\r'), i, j))
            i = j
            continue
        if ch == '"' or ch == "'":
            j = i + 1
            buf = []
            while True:
                k = text.find(ch, j)
                if k < 0:
                    what = 'identifier' if ch == '"' else 'literal'
                    raise ReadError(f'unterminated-{what}', f'opened at offset {i}: {text[i:i + 40]!r}')
                buf.append(text[j:k])
                if k + 1 < n and text[k + 1] == ch:      # doubled quote = escaped quote
                    buf.append(ch)
                    j = k + 2
                    continue
                j = k + 1
                break
            toks.append(Tok('qid' if ch == '"' else 'lit', ''.join(buf), i, j))
            i = j
            continue
        if ch in _PUNCT:
            toks.append(Tok('punct', ch, i, i + 1))
            i += 1
            continue
        j = i
        while j < n and text[j] not in _WORD_STOP and not text.startswith('--', j):
            j += 1
        if j == i:       # a lone '-' that starts no comment cannot happen (startswith above); be safe
            j = i + 1
        toks.append(Tok('word', text[i:j], i, j))
        i = j
    return toks


# --------------------------------------------------------------------------- statement parser

class _P:
    def __init__(self, text: str, toks: List[Tok], where: str):
        self.text = text
        self.toks = toks
        self.i = 0
        self.where = where

    def fail(self, what: str, msg: str = ''):
        t = self.peek()
        at = self.text[t.start:t.start + 40] if t else '<end of statement>'
        raise ReadError(f'{self.where}:{what}', f'{msg} at {at!r}')

    def peek(self, k: int = 0) -> Optional[Tok]:
        j = self.i + k
        return self.toks[j] if j < len(self.toks) else None

    def next(self) -> Tok:
        t = self.peek()
        if t is None:
            self.fail('truncated', 'unexpected end')
        self.i += 1
        return t

    def at_end(self) -> bool:
        return self.i >= len(self.toks)

    def at_word(self, *words: str) -> bool:
        t = self.peek()
        return t is not None and t.is_word(*words)

    def at_punct(self, p: str) -> bool:
        t = self.peek()
        return t is not None and t.is_punct(p)

    def word(self, *words: str) -> str:
        t = self.peek()
        if t is None or not t.is_word(*words):
            self.fail('keyword', 'expected ' + '/'.join(words))
        self.i += 1
        return t.value.upper()

    def punct(self, p: str):
        t = self.peek()
        if t is None or not t.is_punct(p):
            self.fail('punct', f'expected {p!r}')
        self.i += 1

    def ident(self) -> str:
        t = self.peek()
        if t is None or t.kind not in ('qid', 'word'):
            self.fail('identifier', 'expected an identifier')
        self.i += 1
        return t.value

    def qname(self) -> List[str]:
        parts = [self.ident()]
        while self.at_punct('.'):
            self.i += 1
            parts.append(self.ident())
        return parts

    def literal(self) -> str:
        t = self.peek()
        if t is None or t.kind != 'lit':
            self.fail('literal', 'expected a quoted literal')
        self.i += 1
        return t.value

    def group(self) -> List[List[Tok]]:
        """'(' item {',' item} ')' -> token lists of the items (split at top-level commas)."""
        self.punct('(')
        items: List[List[Tok]] = [[]]
        depth = 1
        while True:
            t = self.peek()
            if t is None:
                self.fail('unbalanced-parentheses', "missing ')'")
            self.i += 1
            if t.is_punct('('):
                depth += 1
            elif t.is_punct(')'):
                depth -= 1
                if depth == 0:
                    break
            elif t.is_punct(',') and depth == 1:
                items.append([])
                continue
            items[-1].append(t)
        if len(items) == 1 and not items[0]:
            return []
        return items

    def raw(self, toks: List[Tok]) -> str:
        if not toks:
            return ''
        return self.text[toks[0].start:toks[-1].end]

    def names(self, what: str) -> List[str]:
        out = []
        for item in self.group():
            if len(item) != 1 or item[0].kind not in ('qid', 'word'):
                self.fail(what, f'expected a column name, got {self.raw(item)!r}')
            out.append(item[0].value)
        return out

    def action(self) -> str:
        words = []
        while not self.at_end() and self.peek().kind == 'word' and not self.at_word('ON'):
            words.append(self.next().value.upper())
        if not words:
            self.fail('action', 'expected a referential action')
        return ' '.join(words)

    def fk_tail(self) -> Dict[str, Any]:
        """FOREIGN KEY (cols) REFERENCES qname (cols) [ON UPDATE a] [ON DELETE a]"""
        self.word('FOREIGN')
        self.word('KEY')
        cols = self.names('fk-columns')
        self.word('REFERENCES')
        ref_table = self.qname()
        ref_cols = self.names('fk-ref-columns')
        out = {'cols': cols, 'ref_table': ref_table, 'ref_cols': ref_cols, 'on_update': None, 'on_delete': None}
        while self.at_word('ON'):
            self.i += 1
            which = self.word('UPDATE', 'DELETE')
            k = 'on_update' if which == 'UPDATE' else 'on_delete'
            if out[k] is not None:
                self.fail('action', f'ON {which} given twice')
            out[k] = self.action()
        return out


_COL_KW = ('PRIMARY', 'AUTOINCREMENT', 'UNIQUE', 'NOT', 'DEFAULT')


def _subject_texts(p: _P, items: List[List[Tok]]) -> List[str]:
    return [p.raw(it).strip() for it in items]


def _column(p: _P, item: List[Tok]) -> Dict[str, Any]:
    q = _P(p.text, item, p.where)
    name = q.ident()
    ty: List[Tok] = []
    depth = 0
    while not q.at_end():
        t = q.peek()
        if depth == 0 and t.kind == 'word' and t.value.upper() in _COL_KW:
            break
        if t.is_punct('('):
            depth += 1
        elif t.is_punct(')'):
            depth -= 1
        ty.append(t)
        q.i += 1
    col = {'name': name, 'type_text': q.raw(ty).strip(), 'type_parts': None, 'pk': False,
           'autoincrement': False, 'unique': False, 'not_null': False, 'default_text': None}
    # a type that is a (qualified) identifier: "schema"."enum" / "enum" / word
    if ty and all((t.kind in ('qid', 'word')) if k % 2 == 0 else t.is_punct('.') for k, t in enumerate(ty)) \
            and len(ty) % 2 == 1:
        col['type_parts'] = [t.value for t in ty[::2]]

    def once(key):
        if col[key] not in (False, None):
            q.fail('column', f'{key} given twice for column {name!r}')

    while not q.at_end():
        if q.at_word('PRIMARY'):
            q.i += 1
            q.word('KEY')
            once('pk')
            col['pk'] = True
        elif q.at_word('AUTOINCREMENT'):
            q.i += 1
            once('autoincrement')
            col['autoincrement'] = True
        elif q.at_word('UNIQUE'):
            q.i += 1
            once('unique')
            col['unique'] = True
        elif q.at_word('NOT'):
            q.i += 1
            q.word('NULL')
            once('not_null')
            col['not_null'] = True
        elif q.at_word('DEFAULT'):
            q.i += 1
            once('default_text')
            val: List[Tok] = []
            depth = 0
            while not q.at_end():
                t = q.peek()
                if depth == 0 and t.kind == 'word' and t.value.upper() in _COL_KW:
                    break
                if t.is_punct('('):
                    depth += 1
                elif t.is_punct(')'):
                    depth -= 1
                val.append(t)
                q.i += 1
            col['default_text'] = q.raw(val).strip()
        else:
            q.fail('column', f'unexpected text in definition of column {name!r}')
    return col


def _create_table(p: _P) -> Dict[str, Any]:
    name = p.qname()
    st = {'kind': 'create_table', 'name': name, 'columns': [], 'primary_keys': [], 'primary_keys_text': [],
          'foreign_keys': []}
    for item in p.group():
        if not item:
            p.fail('empty-item', f'empty element in the body of table {name!r}')
        q = _P(p.text, item, p.where)
        first = item[0]
        if first.is_word('PRIMARY'):
            q.i += 1
            q.word('KEY')
            subs = q.group()
            if not q.at_end():
                q.fail('pk-clause', 'text after PRIMARY KEY (...)')
            st['primary_keys'].append([s[0].value if len(s) == 1 and s[0].kind in ('qid', 'word') else q.raw(s).strip()
                                       for s in subs])
            st['primary_keys_text'].append(_subject_texts(q, subs))
        elif first.is_word('CONSTRAINT', 'FOREIGN'):
            constraint = None
            if first.is_word('CONSTRAINT'):
                q.i += 1
                constraint = q.ident()
            fk = q.fk_tail()
            if not q.at_end():
                q.fail('fk-clause', 'text after the FOREIGN KEY clause')
            fk['constraint'] = constraint
            st['foreign_keys'].append(fk)
        else:
            st['columns'].append(_column(p, item))
    return st


def _create_type(p: _P) -> Dict[str, Any]:
    name = p.qname()
    p.word('AS')
    p.word('ENUM')
    items = []
    for item in p.group():
        if len(item) != 1 or item[0].kind != 'lit':
            p.fail('enum-item', f'expected one quoted literal, got {p.raw(item)!r}')
        items.append(item[0].value)
    return {'kind': 'create_type', 'name': name, 'items': items}


def _create_index(p: _P, unique: bool) -> Dict[str, Any]:
    name = None
    if not p.at_word('ON'):
        name = p.ident()
    p.word('ON')
    table = p.qname()
    using = None
    if p.at_word('USING'):
        p.i += 1
        using = p.ident().upper()
    start = p.peek()
    subs = p.group()
    end = p.toks[p.i - 1]
    return {'kind': 'create_index', 'unique': unique, 'name': name, 'table': table, 'using': using,
            'subjects': _subject_texts(p, subs),
            'subjects_text': p.text[start.end:end.start].strip()}


def _comment_on(p: _P) -> Dict[str, Any]:
    entity = p.word('TABLE', 'COLUMN')
    target = p.qname()
    p.word('IS')
    text = p.literal()
    return {'kind': 'comment_on', 'entity': entity, 'target': target, 'text': text}


def _alter(p: _P) -> Dict[str, Any]:
    table = p.qname()
    p.word('ADD')
    constraint = None
    if p.at_word('CONSTRAINT'):
        p.i += 1
        constraint = p.ident()
    fk = p.fk_tail()
    st = {'kind': 'alter_fk', 'table': table, 'constraint': constraint}
    st.update(fk)
    return st


def _statement(text: str, toks: List[Tok]) -> Dict[str, Any]:
    comments = [t.value for t in toks if t.kind == 'comment']
    code = [t for t in toks if t.kind != 'comment']
    p = _P(text, code, 'statement')
    if p.at_word('CREATE'):
        p.i += 1
        if p.at_word('TYPE'):
            p.i += 1
            p.where = 'create-type'
            st = _create_type(p)
        elif p.at_word('TABLE'):
            p.i += 1
            p.where = 'create-table'
            st = _create_table(p)
        elif p.at_word('UNIQUE', 'INDEX'):
            unique = p.at_word('UNIQUE')
            if unique:
                p.i += 1
            p.where = 'create-index'
            p.word('INDEX')
            st = _create_index(p, unique)
        else:
            p.fail('unknown-statement', 'CREATE what?')
    elif p.at_word('COMMENT'):
        p.i += 1
        p.where = 'comment-on'
        p.word('ON')
        st = _comment_on(p)
    elif p.at_word('ALTER'):
        p.i += 1
        p.where = 'alter-table'
        p.word('TABLE')
        st = _alter(p)
    else:
        p.fail('unknown-statement', 'not a statement of the DDL subset')
    if not p.at_end():
        p.fail('trailing-text', 'text after the end of the statement')
    st['comments'] = comments
    st['sql'] = text[code[0].start:code[-1].end] if code else ''
    return st


def read_ddl(text: str) -> List[Dict[str, Any]]:
    """Read the emitted SQL into a list of statements, in textual order."""
    toks = tokenize(text)
    out: List[Dict[str, Any]] = []
    cur: List[Tok] = []
    depth = 0
    for t in toks:
        if t.kind == 'punct':
            if t.value == '(':
                depth += 1
            elif t.value == ')':
                depth -= 1
                if depth < 0:
                    raise ReadError('unbalanced-parentheses', f"')' without '(' at {text[t.start - 30:t.start + 10]!r}")
            elif t.value == ';' and depth == 0:
                if not any(c.kind != 'comment' for c in cur):
                    raise ReadError('empty-statement', f'at offset {t.start}')
                out.append(_statement(text, cur))
                cur = []
                continue
        cur.append(t)
    if any(c.kind != 'comment' for c in cur):
        raise ReadError('unterminated-statement', f'no ; after {text[cur[0].start:cur[0].start + 60]!r}')
    if cur:
        out.append({'kind': 'comment_lines', 'comments': [c.value for c in cur], 'sql': text[cur[0].start:cur[-1].end]})
    return out


# --------------------------------------------------------------------------- readable models

_ID_BAD = re.compile(r'["\n\r]')
_TYPE_OK = re.compile(r'^[A-Za-z_][A-Za-z0-9_]*( [A-Za-z_][A-Za-z0-9_]*)?(\([0-9]+(, ?[0-9]+)?\))?(\[\])?$')
_STR_DEFAULT_OK = re.compile(r'^[A-Za-z0-9_ .:+/-]*$')
_KW = re.compile(r'\b(PRIMARY|AUTOINCREMENT|UNIQUE|NOT|DEFAULT|FOREIGN|CONSTRAINT)\b', re.I)


def _balanced_plain(s: str) -> bool:
    if any(c in s for c in '"\';\n\r') or '--' in s:
        return False
    d = 0
    for c in s:
        if c == '(':
            d += 1
        elif c == ')':
            d -= 1
            if d < 0:
                return False
    return d == 0


def unreadable_reasons(m: Dict[str, Any]) -> List[str]:
    """Why a ReadError on the SQL of `m` would prove nothing (empty list: it would be a finding)."""
    why: List[str] = []

    def ident(s, what):
        if s is None:
            return
        if _ID_BAD.search(s) or s == '':
            why.append(f'{what} {s!r}')

    for e in m['enums']:
        ident(e['schema'], 'enum schema')
        ident(e['name'], 'enum name')
        for it in e['items']:
            if "'" in it['name'] or '\n' in it['name']:
                why.append(f'enum item {it["name"]!r}')
    for t in m['tables']:
        ident(t['schema'], 'schema')
        ident(t['name'], 'table name')
        for c in t['columns']:
            ident(c['name'], 'column name')
            if isinstance(c['type'], str):
                if not _TYPE_OK.match(c['type']) or _KW.search(c['type']):
                    why.append(f'type {c["type"]!r}')
            d = c['default']
            if d is not None:
                if d['kind'] == 'str' and (not _STR_DEFAULT_OK.match(d['value']) or _KW.search(d['value'])
                                           or '--' in d['value']):
                    why.append(f'string default {d["value"]!r}')
                if d['kind'] == 'expr' and not _balanced_plain(d['value']):
                    why.append(f'expression default {d["value"]!r}')
        for i in t['indexes']:
            ident(i['name'], 'index name') if i['name'] is not None else None
            if i['type'] is not None and not re.match(r'^[A-Za-z]+$', i['type']):
                why.append(f'index type {i["type"]!r}')
            for s in i['subjects']:
                if 'expr' in s and not _balanced_plain(s['expr']):
                    why.append(f'index expression {s["expr"]!r}')
                if 'str' in s and (not _balanced_plain(s['str']) or ',' in _top_level(s['str']) or s['str'].strip() == ''):
                    why.append(f'index string subject {s["str"]!r}')
    for r in m['refs']:
        if r['name'] is not None:
            ident(r['name'], 'ref name')
        for k in ('on_update', 'on_delete'):
            if r[k] is not None and not re.match(r'^[A-Za-z]+( [A-Za-z]+)?$', r[k]):
                why.append(f'{k} {r[k]!r}')
            if r[k] is not None and re.search(r'\bON\b', r[k], re.I):
                why.append(f'{k} {r[k]!r}')
    return why


def _top_level(s: str) -> str:
    """Characters of s that are outside every parenthesis."""
    out, d = [], 0
    for c in s:
        if c == '(':
            d += 1
        elif c == ')':
            d -= 1
        elif d == 0:
            out.append(c)
    return ''.join(out)


def readable(m: Dict[str, Any]) -> bool:
    return not unreadable_reasons(m)


# --------------------------------------------------------------------------- expected DDL

def written_name(schema: str, name: str) -> List[str]:
    """How C03 says a table/enum is named: schema-qualified unless the schema is public."""
    return [name] if schema == 'public' else [schema, name]


def quote_name(parts: List[str]) -> str:
    return '.'.join('"%s"' % p for p in parts)


def _holder_sides(r):
    """(holder table key, holder cols, target table key, target cols) of a non-m2m reference (C04)."""
    if r['type'] in ('>', '-'):
        return r['t1'], r['c1'], r['t2'], r['c2']
    if r['type'] == '<':
        return r['t2'], r['c2'], r['t1'], r['c1']
    raise ValueError(r['type'])


def _action(a):
    return None if not a else ' '.join(a.upper().split())


def _subject_expected(s) -> str:
    if 'col' in s:
        return '"%s"' % s['col']
    if 'expr' in s:
        return '(%s)' % s['expr']
    return s['str']


def _default_expected(d) -> Optional[str]:
    if d is None:
        return None
    k, v = d['kind'], d['value']
    if k == 'expr':
        return '(%s)' % v
    if k == 'bool':
        return 'TRUE' if v else 'FALSE'     # compared case-insensitively
    if k == 'str':
        return v                              # quoting of string defaults is not promised either way
    return str(v)


def ddl(m: Dict[str, Any]) -> List[Dict[str, Any]]:
    """The statements C03/C04 promise for model `m` (normalized), in no particular order.

    Shapes are those of `read_ddl`; extra keys: create_table['model'] = (schema, name) or None for
    a join table, ['join_of'] = index of the many-to-many reference; fk entries carry 'ref' (index
    into m['refs']) and 'place' ('inline' | 'alter')."""
    out: List[Dict[str, Any]] = []
    cols_of = {}
    for e in m['enums']:
        out.append({'kind': 'create_type', 'name': written_name(e['schema'], e['name']),
                    'items': [i['name'] for i in e['items']]})
    tables = {}
    for t in m['tables']:
        w = written_name(t['schema'], t['name'])
        cols_of[(t['schema'], t['name'])] = {c['name']: c for c in t['columns']}
        pkcols = [c['name'] for c in t['columns'] if c['pk']]
        composite = len(pkcols) > 1
        st = {'kind': 'create_table', 'name': w, 'model': (t['schema'], t['name']), 'columns': [],
              'primary_keys': [], 'foreign_keys': []}
        for c in t['columns']:
            st['columns'].append({
                'name': c['name'], 'type': c['type'],
                'pk': bool(c['pk']) and not composite, 'autoincrement': bool(c['autoinc']),
                'unique': bool(c['unique']), 'not_null': bool(c['not_null']),
                'default': c['default'], 'default_text': _default_expected(c['default'])})
        if composite:
            st['primary_keys'].append(['"%s"' % n for n in pkcols])
        for i in t['indexes']:
            if i['pk']:
                st['primary_keys'].append([_subject_expected(s) for s in i['subjects']])
        tables[(t['schema'], t['name'])] = st
        out.append(st)
        for i in t['indexes']:
            if not i['pk']:
                out.append({'kind': 'create_index', 'unique': bool(i['unique']), 'name': i['name'], 'table': w,
                            'using': i['type'].upper() if i['type'] else None,
                            'subjects': [_subject_expected(s) for s in i['subjects']]})
        if t['note']:
            out.append({'kind': 'comment_on', 'entity': 'TABLE', 'target': w, 'text': t['note']})
        for c in t['columns']:
            if c['note']:
                out.append({'kind': 'comment_on', 'entity': 'COLUMN', 'target': w + [c['name']], 'text': c['note']})
    for k, r in enumerate(m['refs']):
        if r['type'] == '<>':
            t1, t2 = tuple(r['t1']), tuple(r['t2'])
            jw = written_name(t1[0], '%s_%s' % (t1[1], t2[1]))
            types = [cols_of[t1][c]['type'] for c in r['c1']] + [cols_of[t2][c]['type'] for c in r['c2']]
            out.append({'kind': 'create_table', 'name': jw, 'model': None, 'join_of': k,
                        'columns': [{'name': None, 'type': ty, 'pk': False, 'autoincrement': False, 'unique': False,
                                     'not_null': True, 'default': None, 'default_text': None} for ty in types],
                        'primary_keys': ['*all*'], 'foreign_keys': []})
            out.append({'kind': 'alter_fk', 'ref': k, 'place': 'any', 'table': jw, 'constraint': None, 'cols': None,
                        'ref_table': written_name(*t1), 'ref_cols': list(r['c1']), 'on_update': None, 'on_delete': None})
            out.append({'kind': 'alter_fk', 'ref': k, 'place': 'any', 'table': jw, 'constraint': None, 'cols': None,
                        'ref_table': written_name(*t2), 'ref_cols': list(r['c2']), 'on_update': None, 'on_delete': None})
            continue
        h, hc, tg, tc = _holder_sides(r)
        fk = {'ref': k, 'constraint': r['name'], 'cols': list(hc), 'ref_table': written_name(*tg),
              'ref_cols': list(tc), 'on_update': _action(r['on_update']), 'on_delete': _action(r['on_delete'])}
        if r['inline']:
            fk['place'] = 'inline'
            tables[tuple(h)]['foreign_keys'].append(fk)
        else:
            st = {'kind': 'alter_fk', 'place': 'alter', 'table': written_name(*h)}
            st.update(fk)
            out.append(st)
    return out


# --------------------------------------------------------------------------- comparison

class Mismatch:
    __slots__ = ('prop', 'key', 'message')

    def __init__(self, prop: str, key: str, message: str):
        self.prop, self.key, self.message = prop, key, message

    def __repr__(self):
        return f'<{self.prop} {self.key}: {self.message}>'


def _resolve(parts: List[str]) -> Tuple[str, ...]:
    """Written name -> (schema, name); an unqualified name lives in public."""
    if len(parts) == 1:
        return ('public', parts[0])
    return tuple(parts)


def _norm_note(s: str) -> str:
    # the documented line continuation (backslash newline) and the quote style are not promised by C03
    return re.sub(r'\\\n', '', s).replace("'", '"')


def _norm_ws(s: str) -> str:
    return ' '.join(s.split())


def _type_ok(expected, col, enum_written) -> bool:
    if isinstance(expected, dict):
        sch, nm = expected['enum']
        parts = col.get('type_parts')
        if parts is None:
            return False
        if sch == 'public':
            return parts == [nm] or parts == ['public', nm]
        return parts == [sch, nm]
    return _norm_ws(col['type_text']) == _norm_ws(expected)


def _default_ok(d, text: str) -> bool:
    k, v = d['kind'], d['value']
    text = text.strip()
    if k == 'int':
        return text == str(v)
    if k == 'float':
        try:
            return float(text) == float(v)
        except ValueError:
            return False
    if k == 'bool':
        return text.lower() == ('true' if v else 'false')
    if k == 'expr':
        return _norm_ws(text) == _norm_ws('(%s)' % v)
    if k == 'str':
        if text == v.strip():
            return True
        if len(text) >= 2 and text[0] == "'" and text[-1] == "'":
            return text[1:-1].replace("''", "'") == v
        return False
    return False


def _falsy(d) -> bool:
    return d['kind'] != 'expr' and (d['value'] in (0, False, '') or d['value'] == '0.0')


def _cmp_columns(prop, exp, act, out, where):
    en = [c['name'] for c in exp['columns']]
    an = [c['name'] for c in act['columns']]
    if exp.get('model') is None:
        return
    if en != an:
        missing = [n for n in en if n not in an]
        extra = [n for n in an if n not in en]
        if missing:
            out.append(Mismatch(prop, 'column-missing', f'{where}: columns {missing} absent; read {an}, model has {en}'))
        elif extra:
            out.append(Mismatch(prop, 'column-extra', f'{where}: columns {extra} not in the model; read {an}, model has {en}'))
        else:
            out.append(Mismatch(prop, 'column-order', f'{where}: read {an}, model has {en}'))
        return
    for ec, ac in zip(exp['columns'], act['columns']):
        w = f'{where} column {ec["name"]!r}'
        if not _type_ok(ec['type'], ac, None):
            kind = 'enum' if isinstance(ec['type'], dict) else 'plain'
            out.append(Mismatch(prop, f'column-type:{kind}', f'{w}: read type {ac["type_text"]!r}, model type {ec["type"]!r}'))
        for flag, label in (('pk', 'pk'), ('autoincrement', 'autoincrement'), ('unique', 'unique'), ('not_null', 'not_null')):
            if ec[flag] and not ac[flag]:
                if flag == 'pk':
                    out.append(Mismatch(prop, 'pk-clause:column-level-missing', f'{w}: single pk column without PRIMARY KEY'))
                else:
                    out.append(Mismatch(prop, f'flag-missing:{label}', f'{w}: {label} is set but not emitted'))
            elif ac[flag] and not ec[flag]:
                if flag == 'pk':
                    out.append(Mismatch(prop, 'pk-clause:column-level-unexpected',
                                        f'{w}: column-level PRIMARY KEY although the table has '
                                        f'{"a composite pk" if exp["primary_keys"] else "no pk on this column"}'))
                else:
                    out.append(Mismatch(prop, f'flag-unexpected:{label}', f'{w}: {label} emitted but not set'))
        d = ec['default']
        if d is None:
            if ac['default_text'] is not None:
                out.append(Mismatch(prop, 'default-unexpected', f'{w}: DEFAULT {ac["default_text"]!r} emitted, none set'))
        elif ac['default_text'] is None:
            k = d['kind'] + (':falsy' if _falsy(d) else '')
            out.append(Mismatch(prop, f'default-missing:{k}', f'{w}: default {d!r} set but no DEFAULT emitted'))
        elif not _default_ok(d, ac['default_text']):
            out.append(Mismatch(prop, f'default-text:{d["kind"]}',
                                f'{w}: DEFAULT text {ac["default_text"]!r} does not state {d!r}'))


def _cmp_pks(prop, exp, act, out, where):
    exp_pks = [sorted(_norm_ws(s) for s in pk) for pk in exp['primary_keys']]
    act_pks = [sorted(_norm_ws(s) for s in pk) for pk in act['primary_keys_text']]
    rest = list(act_pks)
    for pk in exp_pks:
        if pk in rest:
            rest.remove(pk)
        else:
            out.append(Mismatch(prop, 'pk-clause:missing',
                                f'{where}: no table-level PRIMARY KEY ({", ".join(pk)}); read {act_pks}'))
    for pk in rest:
        out.append(Mismatch(prop, 'pk-clause:extra', f'{where}: unexpected PRIMARY KEY ({", ".join(pk)}); expected {exp_pks}'))


def compare(m: Dict[str, Any], statements: List[Dict[str, Any]],
            parts: Tuple[str, ...] = ('types', 'tables', 'indexes', 'comments', 'fks')) -> List[Mismatch]:
    """All differences between what C03/C04 promise for `m` and what was read.

    `parts` selects what is compared (element-level `.sql` is compared against a sub-model)."""
    out: List[Mismatch] = []
    exp = ddl(m)
    # ---- enums (C03)
    if 'types' in parts:
        act_types = [s for s in statements if s['kind'] == 'create_type']
        used = set()
        for e in (x for x in exp if x['kind'] == 'create_type'):
            alts = [e['name']] + ([['public'] + e['name']] if len(e['name']) == 1 else [])
            found = [i for i, a in enumerate(act_types) if a['name'] in alts]
            if not found:
                unq = [i for i, a in enumerate(act_types) if a['name'] == e['name'][-1:]]
                if unq and len(e['name']) == 2:
                    out.append(Mismatch('C03', 'create-type-unqualified', f'enum {e["name"]} created as {act_types[unq[0]]["name"]}'))
                    used.update(unq[:1])
                else:
                    out.append(Mismatch('C03', 'create-type-missing', f'no CREATE TYPE for enum {e["name"]}'))
                continue
            if len(found) > 1:
                out.append(Mismatch('C03', 'create-type-twice', f'enum {e["name"]} created {len(found)} times'))
            used.update(found)
            a = act_types[found[0]]
            if a['items'] != e['items']:
                key = 'enum-items-order' if sorted(a['items']) == sorted(e['items']) else 'enum-items'
                out.append(Mismatch('C03', key, f'enum {e["name"]}: read items {a["items"]}, model {e["items"]}'))
        for i, a in enumerate(act_types):
            if i not in used:
                out.append(Mismatch('C03', 'create-type-extra', f'CREATE TYPE {a["name"]} matches no enum of the model'))

    # ---- tables
    exp_tables = [x for x in exp if x['kind'] == 'create_table']
    act_tables = [s for s in statements if s['kind'] == 'create_table']
    by_written: Dict[Tuple[str, ...], List[Dict[str, Any]]] = {}
    for a in act_tables:
        by_written.setdefault(tuple(a['name']), []).append(a)
    matched: Dict[int, Dict[str, Any]] = {}       # index in exp_tables -> actual statement
    used_ids = set()
    for k, e in enumerate(exp_tables):
        is_join = e['model'] is None
        prop = 'C04' if is_join else 'C03'
        pre = 'm2m-join-table:' if is_join else ''
        cands = by_written.get(tuple(e['name']), [])
        if len(e['name']) == 1:
            cands = cands + by_written.get(('public', e['name'][0]), [])
        cands = [c for c in cands if id(c) not in used_ids]
        if not cands:
            unq = [c for c in by_written.get((e['name'][-1],), []) if id(c) not in used_ids] if len(e['name']) == 2 else []
            # only an unqualified twin that is not itself a table of the model
            model_public = {(x['name'][0]) for x in exp_tables if len(x['name']) == 1}
            if unq and e['name'][-1] not in model_public:
                if 'tables' in parts or is_join:
                    out.append(Mismatch(prop, pre + 'create-table-unqualified' if not is_join else 'm2m-join-table:schema',
                                        f'table {e["name"]} created as {unq[0]["name"]}'))
                matched[k] = unq[0]
                used_ids.add(id(unq[0]))
            else:
                if is_join and 'fks' in parts:
                    out.append(Mismatch('C04', 'm2m-join-table:missing',
                                        f'no CREATE TABLE {quote_name(e["name"])} for many-to-many ref {m["refs"][e["join_of"]]}; '
                                        f'tables read: {[a["name"] for a in act_tables]}'))
                elif not is_join and 'tables' in parts:
                    out.append(Mismatch('C03', 'create-table-missing', f'no CREATE TABLE {quote_name(e["name"])}; '
                                        f'tables read: {[a["name"] for a in act_tables]}'))
            continue
        matched[k] = cands[0]
        used_ids.add(id(cands[0]))
        if len(cands) > 1:
            same = [c for c in cands]
            for c in same[1:]:
                used_ids.add(id(c))
            if (not is_join and 'tables' in parts) or (is_join and 'fks' in parts):
                out.append(Mismatch(prop, pre + 'create-table-twice', f'table {e["name"]} created {len(cands)} times'))
    if 'tables' in parts:
        for a in act_tables:
            if id(a) not in used_ids:
                out.append(Mismatch('C03', 'create-table-extra', f'CREATE TABLE {a["name"]} matches no table of the model '
                                    f'(expected {[e["name"] for e in exp_tables]})'))

    for k, e in enumerate(exp_tables):
        a = matched.get(k)
        if a is None or e['model'] is None:
            continue
        if 'tables' in parts:
            where = f'table {quote_name(e["name"])}'
            _cmp_columns('C03', e, a, out, where)
            _cmp_pks('C03', e, a, out, where)

    # ---- indexes (C03)
    if 'indexes' in parts:
        act_idx = [s for s in statements if s['kind'] == 'create_index']
        exp_idx = [x for x in exp if x['kind'] == 'create_index']
        left_a = list(range(len(act_idx)))
        left_e = list(range(len(exp_idx)))

        def attrs(x):
            return (bool(x['unique']), x['name'], x['using'], [_norm_ws(s) for s in x['subjects']])

        def take(pred):
            for ei in list(left_e):
                for ai in list(left_a):
                    if pred(exp_idx[ei], act_idx[ai]):
                        left_e.remove(ei)
                        left_a.remove(ai)
                        yield exp_idx[ei], act_idx[ai]
                        break

        for _ in take(lambda e, a: a['table'] == e['table'] and attrs(a) == attrs(e)):
            pass
        for e, a in take(lambda e, a: len(e['table']) == 2 and a['table'] == e['table'][-1:] and attrs(a) == attrs(e)):
            out.append(Mismatch('C03', 'index-on-unqualified',
                                f'index on table {quote_name(e["table"])} is created ON {quote_name(a["table"])}: {a["sql"]!r}'))
        for e, a in take(lambda e, a: _resolve(a['table'])[-1] == e['table'][-1]
                         and [_norm_ws(s) for s in a['subjects']] == [_norm_ws(s) for s in e['subjects']]):
            for key, label in (('unique', 'unique'), ('name', 'name'), ('using', 'using')):
                if a[key] != e[key]:
                    out.append(Mismatch('C03', f'index-{label}', f'index on {quote_name(e["table"])} {e["subjects"]}: '
                                        f'{label} read {a[key]!r}, model {e[key]!r}: {a["sql"]!r}'))
            if a['table'] != e['table'] and a['table'] != e['table'][-1:]:
                out.append(Mismatch('C03', 'index-on-wrong-table', f'{a["sql"]!r} should be ON {quote_name(e["table"])}'))
        for ei in left_e:
            e = exp_idx[ei]
            out.append(Mismatch('C03', 'index-missing', f'no CREATE INDEX for index {e} ; read {[act_idx[i]["sql"] for i in left_a]}'))
        if True:
            for ai in left_a:
                out.append(Mismatch('C03', 'index-extra', f'{act_idx[ai]["sql"]!r} matches no index of the model'))

    # ---- comments (C03)
    if 'comments' in parts:
        act_c = [s for s in statements if s['kind'] == 'comment_on']
        exp_c = [x for x in exp if x['kind'] == 'comment_on']
        left_a = list(range(len(act_c)))
        for e in exp_c:
            ent = e['entity'].lower()
            tbl = e['target'] if e['entity'] == 'TABLE' else e['target'][:-1]

            def find(target):
                hits = [ai for ai in left_a if act_c[ai]['entity'] == e['entity'] and act_c[ai]['target'] == target]
                same_text = [ai for ai in hits if _norm_note(act_c[ai]['text']) == _norm_note(e['text'])]
                return (same_text or hits or [None])[0]
            ai = find(e['target'])
            if ai is None and len(tbl) == 2:
                ai = find(e['target'][1:])
                if ai is not None:
                    out.append(Mismatch('C03', f'comment-on-{ent}-unqualified',
                                        f'note of {ent} {quote_name(e["target"])} is addressed to {quote_name(act_c[ai]["target"])}: '
                                        f'{act_c[ai]["text"]!r}; its CREATE TABLE says {quote_name(tbl)}'))
            if ai is None:
                out.append(Mismatch('C03', f'comment-missing:{ent}', f'no COMMENT ON {e["entity"]} {quote_name(e["target"])}; '
                                    f'read {[(act_c[i]["entity"], act_c[i]["target"]) for i in left_a]}'))
                continue
            left_a.remove(ai)
            if _norm_note(act_c[ai]['text']) != _norm_note(e['text']):
                out.append(Mismatch('C03', f'comment-text:{ent}', f'COMMENT ON {e["entity"]} {quote_name(e["target"])}: '
                                    f'read {act_c[ai]["text"]!r}, note is {e["text"]!r}'))
        if True:
            for ai in left_a:
                a = act_c[ai]
                out.append(Mismatch('C03', 'comment-extra', f'COMMENT ON {a["entity"]} {a["target"]} matches no note of the model'))

    # ---- foreign keys (C04)
    if 'fks' in parts:
        _cmp_fks(m, exp, exp_tables, matched, statements, out)
    return out


def _cmp_fks(m, exp, exp_tables, matched, statements, out):
    # every FK read, with its place and holder
    act: List[Dict[str, Any]] = []
    for s in statements:
        if s['kind'] == 'create_table':
            for fk in s['foreign_keys']:
                act.append({'place': 'inline', 'holder': s['name'], 'stmt': s, **{k: fk[k] for k in
                            ('constraint', 'cols', 'ref_table', 'ref_cols', 'on_update', 'on_delete')}})
        elif s['kind'] == 'alter_fk':
            act.append({'place': 'alter', 'holder': s['table'], 'stmt': s, **{k: s[k] for k in
                        ('constraint', 'cols', 'ref_table', 'ref_cols', 'on_update', 'on_delete')}})

    def sig(a):
        return (_resolve(a['holder']), tuple(a['cols']), _resolve(a['ref_table']), tuple(a['ref_cols']))

    def show(a):
        return a['stmt']['sql'] if a['place'] == 'alter' else \
            f'FOREIGN KEY ({a["cols"]}) REFERENCES {a["ref_table"]} ({a["ref_cols"]}) inside CREATE TABLE {a["holder"]}'

    free = list(range(len(act)))
    # expected non-m2m FKs
    expected = []
    for x in exp:
        if x['kind'] == 'alter_fk' and x['place'] == 'alter':
            expected.append((x['table'], x))
        elif x['kind'] == 'create_table':
            for fk in x['foreign_keys']:
                expected.append((x['name'], fk))
    # join tables claim their FKs first (holder = the join table as actually written)
    join_names = {}
    for k, e in enumerate(exp_tables):
        if e['model'] is None:
            a = matched.get(k)
            join_names[e['join_of']] = (e, a)
    join_fk = {}
    for k, (e, a) in join_names.items():
        if a is None:
            continue
        mine = [i for i in free if act[i]['holder'] == a['name']]
        # a model table may share the written name only if the generator allowed a clash; it does not
        for i in mine:
            free.remove(i)
        join_fk[k] = [act[i] for i in mine]

    exp_sigs = {}
    for holder, fk in expected:
        s = (_resolve(holder), tuple(fk['cols']), _resolve(fk['ref_table']), tuple(fk['ref_cols']))
        exp_sigs.setdefault(s, []).append(fk)

    overcounted = set()
    for holder, fk in expected:
        r = m['refs'][fk['ref']]
        s = (_resolve(holder), tuple(fk['cols']), _resolve(fk['ref_table']), tuple(fk['ref_cols']))
        if s in overcounted:
            continue
        found = [i for i in free if sig(act[i]) == s]
        desc = f'ref #{fk["ref"]} {r["t1"]}.{r["c1"]} {r["type"]} {r["t2"]}.{r["c2"]} ({"inline" if r["inline"] else "not inline"})'
        want = f'FOREIGN KEY on {quote_name(holder)} ({fk["cols"]}) REFERENCES {quote_name(fk["ref_table"])} ({fk["ref_cols"]})'
        if not found:
            rev = (s[2], s[3], s[0], s[1])
            revf = [i for i in free if sig(act[i]) == rev and rev not in exp_sigs]
            if revf:
                out.append(Mismatch('C04', f'direction:{r["type"]}', f'{desc}: expected {want}, read the reverse: {show(act[revf[0]])}'))
                free.remove(revf[0])
                continue
            perm = [i for i in free if sig(act[i])[0] == s[0] and sig(act[i])[2] == s[2]
                    and sorted(act[i]['cols']) == sorted(fk['cols']) and sorted(act[i]['ref_cols']) == sorted(fk['ref_cols'])]
            if perm:
                out.append(Mismatch('C04', 'column-order', f'{desc}: expected {want}, read {show(act[perm[0]])}'))
                free.remove(perm[0])
                continue
            unq = [i for i in free if (act[i]['holder'][-1], tuple(act[i]['cols']), act[i]['ref_table'][-1], tuple(act[i]['ref_cols']))
                   == (holder[-1], tuple(fk['cols']), fk['ref_table'][-1], tuple(fk['ref_cols']))]
            if unq:
                out.append(Mismatch('C04', 'fk-table-qualification', f'{desc}: expected {want}, read {show(act[unq[0]])}'))
                free.remove(unq[0])
                continue
            other = [i for i in free if (tuple(act[i]['cols']), _resolve(act[i]['ref_table']), tuple(act[i]['ref_cols'])) == s[1:]]
            if other and act[other[0]]['place'] == 'inline':
                out.append(Mismatch('C04', 'inline-in-wrong-table', f'{desc}: expected {want}, read {show(act[other[0]])}'))
                free.remove(other[0])
                continue
            out.append(Mismatch('C04', f'fk-missing:{r["type"]}:{"inline" if r["inline"] else "alter"}',
                                f'{desc}: expected {want}; foreign keys read: {[show(act[i]) for i in free][:6]}'))
            continue
        n_same = len(exp_sigs[s])
        if len(found) > n_same:
            places = {act[i]['place'] for i in found}
            if n_same == 1 and places == {'inline', 'alter'}:
                out.append(Mismatch('C04', 'inline-and-alter', f'{desc} is rendered both inside CREATE TABLE and as ALTER TABLE'))
            else:
                out.append(Mismatch('C04', 'fk-count', f'{desc} is rendered {len(found)} times: {[show(act[i]) for i in found]}'))
            for i in found:
                free.remove(i)
            overcounted.add(s)
            continue
        # choose the best candidate (same constraint name if several refs share the signature)
        found.sort(key=lambda i: (act[i]['constraint'] != fk['constraint'], act[i]['place'] != fk['place']))
        a = act[found[0]]
        free.remove(found[0])
        if a['place'] != fk['place']:
            out.append(Mismatch('C04', f'place:expected-{fk["place"]}-got-{a["place"]}', f'{desc}: read {show(a)}'))
        if a['constraint'] != fk['constraint']:
            out.append(Mismatch('C04', 'constraint-name:' + ('missing' if a['constraint'] is None else
                                                             'unexpected' if fk['constraint'] is None else 'wrong'),
                                f'{desc}: ref name {fk["constraint"]!r}, CONSTRAINT read {a["constraint"]!r} in {show(a)}'))
        for k, label in (('on_update', 'on-update'), ('on_delete', 'on-delete')):
            if a[k] != fk[k]:
                out.append(Mismatch('C04', label, f'{desc}: {k} {fk[k]!r}, read {a[k]!r} in {show(a)}'))

    # many-to-many join tables
    cols_of = {(t['schema'], t['name']): {c['name']: c for c in t['columns']} for t in m['tables']}
    for k, (e, a) in sorted(join_names.items()):
        if a is None:
            continue
        r = m['refs'][k]
        desc = f'join table {quote_name(a["name"])} of ref #{k} {r["t1"]}.{r["c1"]} <> {r["t2"]}.{r["c2"]}'
        n = len(e['columns'])
        if len(a['columns']) != n:
            out.append(Mismatch('C04', 'm2m-join-table:column-count', f'{desc}: {len(a["columns"])} columns, expected {n}'))
            continue
        nn = [c['name'] for c in a['columns'] if not c['not_null']]
        if nn:
            out.append(Mismatch('C04', 'm2m-join-table:not-null', f'{desc}: columns {nn} are not NOT NULL'))
        names = [c['name'] for c in a['columns']]
        pk_ok = (len(a['primary_keys']) == 1 and sorted(a['primary_keys'][0]) == sorted(names)
                 and not any(c['pk'] for c in a['columns']))
        if not pk_ok:
            out.append(Mismatch('C04', 'm2m-join-table:primary-key',
                                f'{desc}: expected one PRIMARY KEY over {names}; read table-level {a["primary_keys"]}, '
                                f'column-level {[c["name"] for c in a["columns"] if c["pk"]]}'))
        fks = join_fk.get(k, [])
        if len(fks) != 2:
            out.append(Mismatch('C04', 'm2m-join-table:fk-count', f'{desc}: {len(fks)} foreign keys, expected 2: {[show(f) for f in fks]}'))
            continue
        sides = [(_resolve(written_name(*r['t1'])), list(r['c1']), tuple(r['t1'])),
                 (_resolve(written_name(*r['t2'])), list(r['c2']), tuple(r['t2']))]
        got = [(_resolve(f['ref_table']), list(f['ref_cols'])) for f in fks]
        order = None
        if got == [s[:2] for s in sides]:
            order = [0, 1]
        elif got == [s[:2] for s in reversed(sides)]:
            order = [1, 0]
        if order is None:
            out.append(Mismatch('C04', 'm2m-join-table:fk-target',
                                f'{desc}: foreign keys reference {got}, expected {[s[:2] for s in sides]}'))
            continue
        typed_ok = True
        all_fk_cols: List[str] = []
        unique_names = len(set(names)) == len(names)
        for f, si in zip(fks, order):
            side = sides[si]
            all_fk_cols += f['cols']
            if len(f['cols']) != len(side[1]):
                typed_ok = False
                continue
            if not unique_names:
                continue
            for jc, rc in zip(f['cols'], side[1]):
                ac = next((c for c in a['columns'] if c['name'] == jc), None)
                if ac is None:
                    out.append(Mismatch('C04', 'm2m-join-table:fk-columns', f'{desc}: foreign key column {jc!r} is not a column of the join table {names}'))
                    typed_ok = None
                    break
                if not _type_ok(cols_of[side[2]][rc]['type'], ac, None):
                    out.append(Mismatch('C04', 'm2m-join-table:column-type',
                                        f'{desc}: column {jc!r} has type {ac["type_text"]!r}, referenced column '
                                        f'{side[2]}.{rc} has type {cols_of[side[2]][rc]["type"]!r}'))
        if typed_ok is False:
            out.append(Mismatch('C04', 'm2m-join-table:fk-columns', f'{desc}: foreign key column counts do not match the referenced columns'))
        elif typed_ok and unique_names and sorted(all_fk_cols) != sorted(names):
            out.append(Mismatch('C04', 'm2m-join-table:fk-columns',
                                f'{desc}: the two foreign keys use {all_fk_cols}, the join table has {names}'))
    for i in free:
        out.append(Mismatch('C04', 'fk-extra', f'{show(act[i])} corresponds to no reference of the model'))
