"""Generators of normalized abstract models (spec/model.py) for API-built databases.

* `random_model(rng, ...)`            one seeded random valid model
* `FAMILIES[name]()`                  exhaustive small enumerations, each a generator of models
* `compact(m)` / `spec.model.normalize` round-trip: `normalize(compact(m)) == m`

All models satisfy the library's validity rules: unique (schema, table), unique column names per
table, unique (schema, enum), references with equally long column lists whose columns belong to
one table per side, no two references with the same foreign-key signature, and no many-to-many
join-table name that collides with a table of the model or with another join table.
User strings stay inside the `readable` class of spec/read_ddl.py unless `weird=True`.
"""
from __future__ import annotations

import copy
import itertools
import random
from typing import Any, Dict, Iterator, List, Optional

from spec.model import normalize, _TABLE_DEF, _COL_DEF, _IDX_DEF, _REF_DEF, _ENUM_DEF, _ITEM_DEF

SCHEMAS = ['public', 's1', 'my schema']
TABLE_NAMES = ['t1', 'users', 'order items', 'Orders', 'a.b', 'tbl_x', 'b', 'c']
COLUMN_NAMES = ['id', 'name', 'user id', 'Ref', 'c.d', 'x', 'y', 'z']
TYPES = ['int', 'integer', 'varchar', 'varchar(255)', 'numeric(10, 2)', 'int[]', 'double precision', 'text']
DEFAULTS = [
    None,
    {'kind': 'int', 'value': 0}, {'kind': 'int', 'value': 5}, {'kind': 'int', 'value': -3},
    {'kind': 'float', 'value': '0.0'}, {'kind': 'float', 'value': '1.5'},
    {'kind': 'bool', 'value': False}, {'kind': 'bool', 'value': True},
    {'kind': 'str', 'value': ''}, {'kind': 'str', 'value': 'abc'}, {'kind': 'str', 'value': 'NULL'},
    {'kind': 'expr', 'value': 'now()'}, {'kind': 'expr', 'value': 'coalesce(a, (b + 1) * 2)'},
]
NOTES = [None, 'simple note', "it's a 'quoted' note", 'two\nlines', 'conti\\\nnued', 'with "double" quotes',
         'semi; colon, comma -- dashes (paren']
COMMENTS = [None, 'a comment', 'two\nline comment', "a ' quote", 'semi; colon (paren']
INDEX_TYPES = [None, 'btree', 'hash']
INDEX_NAMES = [None, 'idx', 'my idx']
ACTIONS = [None, 'cascade', 'set null', 'no action', 'restrict', 'set default']
REF_NAMES = [None, 'fk_1', 'fk name']
REF_TYPES = ['>', '<', '-', '<>']


def compact(m: Dict[str, Any]) -> Dict[str, Any]:
    """Drop every key that `normalize` would fill in again (small, readable recipes)."""
    def strip(d, defaults):
        return {k: v for k, v in d.items() if k not in defaults or v != defaults[k]}
    out: Dict[str, Any] = {}
    if m.get('allow_properties'):
        out['allow_properties'] = True
    if m.get('project'):
        out['project'] = m['project']
    if m.get('enums'):
        out['enums'] = []
        for e in m['enums']:
            e2 = strip(e, _ENUM_DEF)
            e2['items'] = [strip(i, _ITEM_DEF) for i in e['items']]
            out['enums'].append(e2)
    out['tables'] = []
    for t in m.get('tables', []):
        t2 = strip(t, _TABLE_DEF)
        t2['columns'] = [strip(c, _COL_DEF) for c in t['columns']]
        if t.get('indexes'):
            t2['indexes'] = [strip(i, _IDX_DEF) for i in t['indexes']]
        out['tables'].append(t2)
    if m.get('refs'):
        out['refs'] = [strip(r, _REF_DEF) for r in m['refs']]
    for k in ('table_groups', 'sticky_notes'):
        if m.get(k):
            out[k] = m[k]
    return out


# --------------------------------------------------------------------------- validity

def fk_signature(r):
    if r['type'] == '<':
        return (tuple(r['t2']), tuple(r['c2']), tuple(r['t1']), tuple(r['c1']))
    if r['type'] == '<>':
        return ('<>', tuple(r['t1']), tuple(r['c1']), tuple(r['t2']), tuple(r['c2']))
    return (tuple(r['t1']), tuple(r['c1']), tuple(r['t2']), tuple(r['c2']))


def join_name(r):
    return (r['t1'][0], '%s_%s' % (r['t1'][1], r['t2'][1]))


def valid(m: Dict[str, Any]) -> bool:
    """The library's own validity rules plus the unambiguity rules stated in the module docstring."""
    tk = [(t['schema'], t['name']) for t in m['tables']]
    if len(set(tk)) != len(tk):
        return False
    ek = [(e['schema'], e['name']) for e in m['enums']]
    if len(set(ek)) != len(ek):
        return False
    for e in m['enums']:
        if not e['items'] or len({i['name'] for i in e['items']}) != len(e['items']):
            return False
    cols = {}
    for t in m['tables']:
        names = [c['name'] for c in t['columns']]
        if not names or len(set(names)) != len(names):
            return False
        cols[(t['schema'], t['name'])] = set(names)
        for c in t['columns']:
            if isinstance(c['type'], dict) and tuple(c['type']['enum']) not in ek:
                return False
        for i in t['indexes']:
            if not i['subjects']:
                return False
            for s in i['subjects']:
                if 'col' in s and s['col'] not in names:
                    return False
    sigs, joins = set(), set()
    for r in m['refs']:
        for tkey, cs in ((tuple(r['t1']), r['c1']), (tuple(r['t2']), r['c2'])):
            if tkey not in cols or not cs or len(set(cs)) != len(cs) or not set(cs) <= cols[tkey]:
                return False
        if len(r['c1']) != len(r['c2']):
            return False
        s = fk_signature(r)
        if s in sigs:
            return False
        sigs.add(s)
        if r['type'] == '<>':
            j = join_name(r)
            if j in joins or j in tk:
                return False
            joins.add(j)
    return True


# --------------------------------------------------------------------------- small builders

def col(name, type='int', **kw):
    d = {'name': name, 'type': type}
    d.update(kw)
    return d


def table(name, columns, schema='public', **kw):
    d = {'name': name, 'schema': schema, 'columns': columns}
    d.update(kw)
    return d


def ref(type, t1, c1, t2, c2, **kw):
    d = {'type': type, 't1': list(t1), 'c1': list(c1), 't2': list(t2), 'c2': list(c2)}
    d.update(kw)
    return d


def model(tables, refs=(), enums=()):
    return normalize({'tables': list(tables), 'refs': list(refs), 'enums': list(enums)})


# --------------------------------------------------------------------------- exhaustive families

def fam_columns() -> Iterator[Dict[str, Any]]:
    """One probed column: 16 flag combinations x 13 defaults x 5 type kinds x 2 schemas."""
    enums = [{'name': 'level', 'items': [{'name': 'low'}, {'name': 'high'}]},
             {'name': 'mood', 'schema': 's1', 'items': [{'name': 'ok'}]}]
    types = ['int', 'varchar(255)', 'int[]', {'enum': ['public', 'level']}, {'enum': ['s1', 'mood']}]
    for schema in ('public', 's1'):
        for ty in types:
            for d in DEFAULTS:
                for flags in itertools.product((False, True), repeat=4):
                    u, nn, pk, ai = flags
                    c = col('probe', ty, unique=u, not_null=nn, pk=pk, autoinc=ai, default=d)
                    yield model([table('t', [col('first'), c, col('last', 'text')], schema=schema)],
                                enums=[e for e in enums if isinstance(ty, dict)])


def fam_pk_layouts() -> Iterator[Dict[str, Any]]:
    """pk column subsets of 3 columns x pk index shapes x a second index x inline/plain ref x schema."""
    pk_indexes = [None, [{'col': 'a'}], [{'col': 'a'}, {'col': 'b'}], [{'col': 'c'}, {'col': 'a'}]]
    for schema in ('public', 's1'):
        for pks in itertools.product((False, True), repeat=3):
            for pki in pk_indexes:
                for other in (False, True):
                    for rf in (None, 'inline', 'alter'):
                        cols = [col(n, 'int', pk=p) for n, p in zip('abc', pks)]
                        idx = []
                        if pki:
                            idx.append({'subjects': pki, 'pk': True})
                        if other:
                            idx.append({'subjects': [{'col': 'b'}], 'unique': True, 'name': 'ix'})
                        t = table('t', cols, schema=schema, indexes=idx)
                        o = table('o', [col('id', 'int', pk=True)])
                        refs = [ref('>', [schema, 't'], ['c'], ['public', 'o'], ['id'], inline=(rf == 'inline'))] if rf else []
                        yield model([t, o], refs)


INDEX_SUBJECTS = [
    [{'col': 'a'}], [{'col': 'b'}, {'col': 'a'}], [{'expr': 'lower(a)'}], [{'str': 'a'}],
    [{'col': 'a'}, {'expr': 'b * 2'}], [{'str': 'b'}, {'col': 'a'}, {'expr': 'upper(a) || lower(b)'}],
    [{'expr': 'a + (b * 2)'}, {'expr': 'b'}],
]


def fam_indexes() -> Iterator[Dict[str, Any]]:
    """7 subject shapes x unique x 3 types x 3 names x 3 schemas; plus every pair of options on one table."""
    for schema in SCHEMAS:
        for subj in INDEX_SUBJECTS:
            for unique in (False, True):
                for ty in INDEX_TYPES:
                    for name in INDEX_NAMES:
                        i = {'subjects': subj, 'unique': unique, 'type': ty, 'name': name}
                        yield model([table('t x', [col('a'), col('b', 'text')], schema=schema, indexes=[i])])
    for schema in ('public', 's1'):
        opts = [{'subjects': [{'col': 'a'}]}, {'subjects': [{'col': 'a'}], 'unique': True},
                {'subjects': [{'col': 'a'}], 'name': 'n1', 'type': 'hash'}, {'subjects': [{'col': 'a'}], 'pk': True},
                {'subjects': [{'col': 'b'}, {'col': 'a'}], 'unique': True, 'name': 'n2', 'type': 'btree',
                 'note': 'index note', 'comment': 'index comment'}]
        for i1, i2 in itertools.product(opts, repeat=2):
            yield model([table('t', [col('a'), col('b')], schema=schema, indexes=[i1, i2]),
                         table('t', [col('a')], schema='other')])


def fam_notes() -> Iterator[Dict[str, Any]]:
    """7 table notes x 7 column notes x 3 schemas (+ comments on every element)."""
    for schema in SCHEMAS:
        for k, (tn, cn) in enumerate(itertools.product(NOTES, NOTES)):
            cm = COMMENTS[k % len(COMMENTS)]
            yield model([table('t', [col('a', note=cn, comment=cm), col('b c', 'text', note=tn)], schema=schema,
                               note=tn, comment=cm)])


def fam_enums() -> Iterator[Dict[str, Any]]:
    """enum schema x 1..3 items x comments x using table schema."""
    items_all = [{'name': 'low'}, {'name': 'very high', 'comment': 'item comment', 'note': 'item note'}, {'name': 'x-1'}]
    for es in SCHEMAS:
        for n in (1, 2, 3):
            for cm in COMMENTS[:3]:
                for ts in ('public', 's1'):
                    e = {'name': 'level', 'schema': es, 'items': items_all[:n], 'comment': cm}
                    e2 = {'name': 'level', 'schema': 'zz', 'items': list(reversed(items_all[:n]))}
                    yield model([table('t', [col('id'), col('lv', {'enum': [es, 'level']}, not_null=True),
                                             col('lv2', {'enum': ['zz', 'level']})], schema=ts)], enums=[e, e2])


def fam_names() -> Iterator[Dict[str, Any]]:
    """identifier shapes (spaces, dots, case, non-ASCII) at every site that names a table."""
    tnames = ['t1', 'order items', 'Orders', 'a.b', 'tabé', 'select']
    snames = ['public', 's1', 'my schema', 'S.2']
    cnames = ['id', 'user id', 'C.d', 'näme']
    for tn in tnames:
        for sn in snames:
            for cn in cnames:
                t = table(tn, [col(cn, 'int', pk=True, note='column note'), col('other', 'text')], schema=sn,
                          note='table note', indexes=[{'subjects': [{'col': cn}], 'name': 'i ' + tn}])
                u = table('u', [col('fk'), col('fk2')], schema=sn)
                refs = [ref('>', [sn, 'u'], ['fk'], [sn, tn], [cn], inline=True),
                        ref('<', [sn, tn], [cn], [sn, 'u'], ['fk2'], name='r ' + tn)]
                yield model([t, u], refs)


def fam_tables() -> Iterator[Dict[str, Any]]:
    """2..4 tables, same name in different schemas, every table exactly once."""
    for n in (2, 3, 4):
        for schemas in itertools.product(('public', 's1'), repeat=n):
            names = ['t', 't', 'u', 'u'][:n]
            keys = list(zip(schemas, names))
            if len(set(keys)) != n:
                continue
            ts = [table(nm, [col('id', 'int', pk=True), col('v', 'text', note='n%d' % k)], schema=sc, note='T%d' % k,
                        indexes=[{'subjects': [{'col': 'v'}]}]) for k, (sc, nm) in enumerate(keys)]
            yield model(ts)


SCHEMA_PAIRS = [('public', 'public'), ('public', 's1'), ('s1', 'public'), ('s1', 's2'), ('s1', 's1')]


def _two_tables(s1, s2, self_ref=False):
    a = table('a', [col('id', 'int', pk=True), col('x', 'int'), col('y', 'varchar(10)'), col('p', 'int')], schema=s1)
    b = table('b', [col('id', 'int', pk=True), col('u', 'int'), col('v', 'varchar(10)')], schema=s2)
    return a, b


def fam_refs() -> Iterator[Dict[str, Any]]:
    """one reference: 4 types x inline x 3 names x 3x3 actions x single/composite x 5 schema pairs + self-reference."""
    acts = [None, 'cascade', 'set null']
    k = 0
    for (s1, s2) in SCHEMA_PAIRS:
        a, b = _two_tables(s1, s2)
        for ty in REF_TYPES:
            for inline in (False, True):
                for name in REF_NAMES:
                    for ou in acts:
                        for od in acts:
                            for comp in (1, 2):
                                k += 1
                                c1 = ['x', 'y'][:comp]
                                c2 = ['u', 'v'][:comp]
                                r = ref(ty, [s1, 'a'], c1, [s2, 'b'], c2, inline=inline, name=name, on_update=ou,
                                        on_delete=od, comment=COMMENTS[k % len(COMMENTS)])
                                yield model([a, b], [r])
    for s1 in ('public', 's1'):
        a, _ = _two_tables(s1, s1)
        for ty in REF_TYPES:
            for inline in (False, True):
                for comp in (1, 2):
                    c1 = ['p', 'y'][:comp]
                    c2 = ['id', 'x'][:comp]
                    yield model([a], [ref(ty, [s1, 'a'], c1, [s1, 'a'], c2, inline=inline, name='self')])
    for ou in ACTIONS:
        for od in ACTIONS:
            a, b = _two_tables('public', 's1')
            yield model([a, b], [ref('>', ['public', 'a'], ['x'], ['s1', 'b'], ['id'], on_update=ou, on_delete=od, inline=True),
                                 ref('<', ['public', 'a'], ['id'], ['s1', 'b'], ['u'], on_update=od, on_delete=ou)])


def fam_ref_pairs() -> Iterator[Dict[str, Any]]:
    """two references between the same two tables: (type, inline)^2 x same/opposite orientation x 2 schema pairs."""
    shapes = [(ty, inl) for ty in REF_TYPES for inl in (False, True)]
    for (s1, s2) in (('public', 'public'), ('s1', 'public')):
        a, b = _two_tables(s1, s2)
        for (ty1, in1), (ty2, in2) in itertools.product(shapes, repeat=2):
            for flip in (False, True):
                r1 = ref(ty1, [s1, 'a'], ['x'], [s2, 'b'], ['id'], inline=in1, name='first')
                if flip:
                    r2 = ref(ty2, [s2, 'b'], ['u'], [s1, 'a'], ['id'], inline=in2)
                else:
                    r2 = ref(ty2, [s1, 'a'], ['p'], [s2, 'b'], ['u'], inline=in2)
                m = model([a, b], [r1, r2])
                if valid(m):
                    yield m


def fam_ref_mix() -> Iterator[Dict[str, Any]]:
    """three tables, one reference of every kind at once, in every order of the four, inline flags all ways."""
    a = table('a', [col('id', 'int', pk=True), col('b_id'), col('c_id'), col('k1'), col('k2', 'text')])
    b = table('b', [col('id', 'int', pk=True), col('a_id'), col('k1'), col('k2', 'text')], schema='s1')
    c = table('c', [col('id', 'int', pk=True), col('a_id'), col('b_id')], note='third', indexes=[{'subjects': [{'col': 'a_id'}]}])
    base = [
        lambda i: ref('>', ['public', 'a'], ['b_id'], ['s1', 'b'], ['id'], inline=i, name='a_b'),
        lambda i: ref('<', ['public', 'a'], ['id'], ['public', 'c'], ['a_id'], inline=i, on_delete='cascade'),
        lambda i: ref('-', ['public', 'c'], ['b_id'], ['s1', 'b'], ['id'], inline=i, on_update='restrict'),
        lambda i: ref('<>', ['public', 'a'], ['k1', 'k2'], ['s1', 'b'], ['k1', 'k2'], inline=i),
    ]
    for perm in itertools.permutations(range(4)):
        for inl in itertools.product((False, True), repeat=4):
            yield model([a, b, c], [base[k](inl[k]) for k in perm])


BRACE_PROBES = [
    ('ref-comment', '{x}'), ('ref-comment', '{'), ('ref-comment', '{}'), ('ref-comment', 'a } b'),
    ('ref-name', '{x}'), ('column-name', '{x}'), ('table-name', '{x}'),
    # no exception, but str.format rewrites the text: '{{' -> '{', '{c}' -> the CONSTRAINT clause
    ('column-name', '{{x}}'), ('column-name', '{c}'), ('table-name', '{c}'), ('ref-name', '{{x}}'),
]


def fam_braces() -> Iterator[Dict[str, Any]]:
    """a brace-bearing user string at each site that reaches the SQL of a reference, for 4 types x inline."""
    for site, text in BRACE_PROBES:
        for ty in REF_TYPES:
            for inline in (False, True):
                tn = 'b' + text if site == 'table-name' else 'b'
                cn = 'u' + text if site == 'column-name' else 'u'
                a = table('a', [col('id', 'int', pk=True), col('x')])
                b = table(tn, [col('id', 'int', pk=True), col(cn)])
                r = ref(ty, ['public', 'a'], ['x'], ['public', tn], [cn], inline=inline,
                        name=('fk' + text) if site == 'ref-name' else None,
                        comment=('see ' + text) if site == 'ref-comment' else None)
                yield model([a, b], [r])


FAMILIES = {
    'columns': fam_columns, 'pk_layouts': fam_pk_layouts, 'indexes': fam_indexes, 'notes': fam_notes,
    'enums': fam_enums, 'names': fam_names, 'tables': fam_tables,
    'refs': fam_refs, 'ref_pairs': fam_ref_pairs, 'ref_mix': fam_ref_mix, 'braces': fam_braces,
}


# --------------------------------------------------------------------------- random models

def _pick(rng: random.Random, seq, p_first: float = 0.0):
    if p_first and rng.random() < p_first:
        return seq[0]
    return seq[rng.randrange(len(seq))]


def random_model(rng: random.Random, max_tables: int = 4, max_cols: int = 4, refs: bool = True, m2m: bool = True,
                 enums: bool = True, max_refs: int = 5) -> Dict[str, Any]:
    """A random valid model: <= max_tables tables x <= max_cols columns, all options, readable strings."""
    for _ in range(50):
        m = _random_model(rng, max_tables, max_cols, refs, m2m, enums, max_refs)
        if valid(m):
            return m
    return model([table('t', [col('id')])])


def _random_model(rng, max_tables, max_cols, with_refs, m2m, with_enums, max_refs):
    en = []
    if with_enums and rng.random() < 0.5:
        for k in range(rng.randint(1, 2)):
            en.append({'name': _pick(rng, ['level', 'mood', 'my enum']), 'schema': _pick(rng, SCHEMAS, 0.4),
                       'comment': _pick(rng, COMMENTS, 0.6),
                       'items': [{'name': nm, 'comment': _pick(rng, COMMENTS, 0.8), 'note': _pick(rng, NOTES, 0.8)}
                                 for nm in rng.sample(['a', 'b b', 'C', 'd-1', ''], rng.randint(1, 4)) if nm]})
        en = [e for e in en if e['items']]
        seen = set()
        en = [e for e in en if (e['schema'], e['name']) not in seen and not seen.add((e['schema'], e['name']))]
    tables = []
    used = set()
    for _ in range(rng.randint(1, max_tables)):
        key = (_pick(rng, SCHEMAS, 0.4), _pick(rng, TABLE_NAMES))
        if key in used:
            continue
        used.add(key)
        names = rng.sample(COLUMN_NAMES, rng.randint(1, max_cols))
        pk_mode = _pick(rng, ['none', 'single', 'composite', 'none'])
        cols = []
        for k, n in enumerate(names):
            ty: Any = _pick(rng, TYPES)
            if en and rng.random() < 0.25:
                e = _pick(rng, en)
                ty = {'enum': [e['schema'], e['name']]}
            cols.append(col(n, ty, unique=rng.random() < 0.25, not_null=rng.random() < 0.3,
                            autoinc=rng.random() < 0.15,
                            pk=(pk_mode == 'single' and k == 0) or (pk_mode == 'composite' and k < 2 + (rng.random() < 0.3)),
                            default=_pick(rng, DEFAULTS, 0.4), note=_pick(rng, NOTES, 0.6), comment=_pick(rng, COMMENTS, 0.7)))
        idx = []
        for _i in range(_pick(rng, [0, 0, 1, 2, 3])):
            subj = []
            for _s in range(rng.randint(1, 3)):
                kind = _pick(rng, ['col', 'col', 'expr', 'str'])
                if kind == 'col':
                    subj.append({'col': _pick(rng, names)})
                elif kind == 'expr':
                    subj.append({'expr': _pick(rng, ['lower(x)', 'a + (b * 2)', 'now()'])})
                else:
                    subj.append({'str': _pick(rng, ['x', 'lower(y)', 'id'])})
            idx.append({'subjects': subj, 'name': _pick(rng, INDEX_NAMES, 0.4), 'unique': rng.random() < 0.4,
                        'type': _pick(rng, INDEX_TYPES, 0.4), 'pk': rng.random() < 0.15,
                        'note': _pick(rng, NOTES, 0.8), 'comment': _pick(rng, COMMENTS, 0.8)})
        tables.append(table(key[1], cols, schema=key[0], indexes=idx, note=_pick(rng, NOTES, 0.5),
                            comment=_pick(rng, COMMENTS, 0.6)))
    rs = []
    if with_refs and tables:
        for _ in range(rng.randint(0, max_refs)):
            t1, t2 = _pick(rng, tables), _pick(rng, tables)
            n = min(len(t1['columns']), len(t2['columns']), _pick(rng, [1, 1, 1, 2, 2, 3]))
            c1 = [c['name'] for c in rng.sample(t1['columns'], n)]
            c2 = [c['name'] for c in rng.sample(t2['columns'], n)]
            ty = _pick(rng, REF_TYPES if m2m else REF_TYPES[:3])
            r = ref(ty, [t1['schema'], t1['name']], c1, [t2['schema'], t2['name']], c2, inline=rng.random() < 0.5,
                    name=_pick(rng, REF_NAMES, 0.4), comment=_pick(rng, COMMENTS, 0.6),
                    on_update=_pick(rng, ACTIONS, 0.5), on_delete=_pick(rng, ACTIONS, 0.5))
            trial = model(tables, rs + [r], en)
            if valid(trial):
                rs.append(r)
    return model(tables, rs, en)
