"""Surface unparser: DBML text for an abstract model `m` under spelling choices `sp`.

Written from the DBML documentation (dbml.org syntax as summarised in /repo/README.md and
/repo/docs) and the statement of C01; it never imports pydbml.  Contract:
    view(PyDBML(surface(m, sp), allow_properties=m['allow_properties'])) == normalize(m)

`sp` is a small JSON value:
    {"seed": int,                      # every free spelling decision is drawn from hash(seed, label, context)
     "pin":  ["*" | dim | "dim@site"], # these decisions take their canonical (documentation) option
     "free": ["dim@site", ...],        # if present: every decision NOT listed takes its canonical option
     "force": {dim | "dim@site": option}}   # these decisions take the named option where it applies
A decision is identified by a *dimension* and a *site*; `Sp.used` records the labels "dim@site" of all
non-canonical decisions made, which lets a failing check find the responsible spelling dimension by
pinning labels one at a time.  Decisions are keyed by the element's context (table/column name ...),
not by a running counter, so removing one element does not respell the others.

Spelling dimensions (statement of C01): bare / double-quoted identifiers (bare only for plain words;
reserved words are quoted where a bare word would be ambiguous); keyword case; blank lines and
indentation; single / double / triple-quoted strings with escapes; settings order; one-line or
multi-line settings lists; position of the note, the index block and properties in a table body and
note in settings vs body; short vs block form of Ref (inline refs are always written inline in the
settings of their first col1 column); schema-qualified / bare / alias addressing; comment above vs
trailing where both are captured.
"""
from __future__ import annotations

import hashlib
import re
from typing import Any, Dict, List, Optional, Sequence, Tuple

PLAIN_RE = re.compile(r'^[A-Za-z_][A-Za-z0-9_]*$')
RESERVED = {'table', 'note', 'ref', 'indexes', 'enum', 'project', 'tablegroup', 'as', 'null', 'not', 'pk',
            'unique', 'primary', 'default', 'increment', 'true', 'false', 'headercolor', 'color'}
# sites where a bare reserved word could be read as a keyword (start of a body line)
AMBIGUOUS_SITES = {'col_name', 'group_item', 'project_key', 'prop_key', 'type'}

# documentation spelling of every keyword (canonical), keyed by site
KEYWORDS = {
    'table': 'Table', 'as': 'as', 'enum': 'Enum', 'ref': 'Ref', 'ref_inline': 'ref', 'tablegroup': 'TableGroup',
    'project': 'Project', 'note_body': 'Note', 'note_setting': 'note', 'sticky': 'Note', 'indexes': 'indexes',
    'headercolor': 'headercolor', 'color': 'color', 'pk': 'pk', 'primary_key': 'primary key', 'unique': 'unique',
    'increment': 'increment', 'not_null': 'not null', 'null': 'null', 'default': 'default',
    'bool': None, 'idx_type': 'type', 'idx_type_val': None, 'idx_name': 'name', 'update': 'update',
    'delete': 'delete', 'action': None,
}


class SurfaceError(ValueError):
    """The model cannot be written (generator bug), e.g. ref order not realisable."""


class Sp:
    def __init__(self, sp: Any):
        if isinstance(sp, int):
            sp = {'seed': sp}
        sp = sp or {}
        self.seed = int(sp.get('seed', 0))
        # "wildness": probability that a free decision is drawn at all (else canonical).  By default one third of
        # the seeds stay close to the documentation spelling, one third are mixed, one third vary everything.
        self.wild = float(sp.get('wild', (0.12, 0.4, 1.0)[self.seed % 3]))
        self.pin = set(sp.get('pin', ()))
        self.free = set(sp['free']) if 'free' in sp else None     # if given: every label NOT listed is pinned
        self.force = dict(sp.get('force', {}))
        self.ctx: List[str] = []
        self.count: Dict[str, int] = {}
        self.used: Dict[str, set] = {}

    def _decide(self, dim: str, label: str, options=None):
        """'canon' | ('force', value) | 'random'.  An exact label pin (or absence from `free`) beats force,
        force beats a dimension-wide or '*' pin."""
        if self.free is not None and label not in self.free:
            return 'canon'
        if label in self.pin:
            return 'canon'
        for key in (label, dim):
            if key in self.force and (options is None or self.force[key] in options):
                return ('force', self.force[key])
        if self.free is None and ('*' in self.pin or dim in self.pin):
            return 'canon'
        if self.free is not None and '*' in self.pin and label not in self.free:
            return 'canon'
        return 'random'

    def _u(self, dim: str, site: str) -> float:
        base = f'{self.seed}|{dim}|{site}|{"/".join(self.ctx)}'
        k = self.count.get(base, 0)
        self.count[base] = k + 1
        h = hashlib.blake2b(f'{base}|{k}'.encode('utf8'), digest_size=8).digest()
        return int.from_bytes(h, 'big') / 2.0 ** 64

    def pick(self, dim: str, site: str, options: Sequence[Any], weights: Optional[Sequence[float]] = None) -> Any:
        """options[0] is the canonical option."""
        label = f'{dim}@{site}'
        u = self._u(dim, site)          # always consume, so pin/force do not shift other decisions
        if len(options) == 1:
            return options[0]
        d = self._decide(dim, label, options)
        if d == 'canon':
            choice = options[0]
        elif d == 'random':
            if weights is None:
                weights = [1.0] * len(options)
            tot = float(sum(weights))
            x = (u / self.wild) * tot if u < self.wild else 0.0
            acc = 0.0
            choice = options[-1]
            for o, w in zip(options, weights):
                acc += w
                if x < acc:
                    choice = o
                    break
        else:
            choice = d[1]
        if choice != options[0]:
            self.used.setdefault(label, set()).add(choice)
        return choice

    def perm(self, dim: str, site: str, n: int) -> List[int]:
        """A permutation of range(n); canonical is the identity.  force value: list of indices."""
        label = f'{dim}@{site}'
        us = [self._u(dim, site) for _ in range(n)]
        d = self._decide(dim, label)
        if d == 'canon' or n < 2:
            p = list(range(n))
        elif d == 'random':
            p = list(range(n)) if us[0] > self.wild * 1.5 else sorted(range(n), key=lambda i: us[i])
        else:
            p = [i for i in d[1] if i < n]
            p += [i for i in range(n) if i not in p]
        if p != list(range(n)):
            self.used.setdefault(label, set()).add('perm')
        return p

    class _Ctx:
        def __init__(self, sp, name):
            self.sp, self.name = sp, name

        def __enter__(self):
            self.sp.ctx.append(self.name)

        def __exit__(self, *a):
            self.sp.ctx.pop()

    def at(self, name: str):
        return Sp._Ctx(self, name)


# ------------------------------------------------------------------ lexical level

def _case(word: str, mode: str) -> str:
    if mode == 'doc':
        return word
    if mode == 'lower':
        return word.lower()
    if mode == 'upper':
        return word.upper()
    if mode == 'title':
        return ' '.join(w[:1].upper() + w[1:].lower() for w in word.split(' '))
    if mode == 'mixed':
        return ''.join(ch.upper() if i % 2 else ch.lower() for i, ch in enumerate(word))
    raise ValueError(mode)


class Surface:
    def __init__(self, m: Dict[str, Any], sp: Any):
        self.m = m
        self.sp = sp if isinstance(sp, Sp) else Sp(sp)
        self.tables = {(t['schema'], t['name']): t for t in m['tables']}

    # -- keywords
    def kw(self, site: str, word: Optional[str] = None) -> str:
        word = word if word is not None else KEYWORDS[site]
        mode = self.sp.pick('kw', site, ['doc', 'lower', 'upper', 'title', 'mixed'], [4, 2, 2, 1, 1])
        return _case(word, mode)

    # -- identifiers
    def ident(self, name: str, site: str) -> str:
        if '"' in name or '\n' in name:
            raise SurfaceError(f'identifier cannot be written: {name!r}')
        plain = bool(PLAIN_RE.match(name))
        if plain and not (name.lower() in RESERVED and site in AMBIGUOUS_SITES):
            q = self.sp.pick('quote', site, ['bare', 'quoted'], [3, 2])
        else:
            q = 'quoted'
        return name if q == 'bare' else f'"{name}"'

    # -- strings
    def string(self, value: str, site: str, styles: Sequence[str] = ('single', 'double', 'triple'),
               is_note: bool = False, indent: str = '') -> str:
        if '\n' in value:
            style = 'triple'
            self.sp.pick('str', site, ['triple'])
        else:
            style = self.sp.pick('str', site, list(styles), [4, 2, 2][:len(styles)])
        v = value.replace('\\', '\\\\')
        if style == 'single':
            return "'" + v.replace("'", "\\'") + "'"
        if style == 'double':
            return '"' + v.replace('"', '\\"') + '"'
        # triple: a quote must be escaped when it could be read as (part of) the terminator
        esc = self.sp.pick('esc', site, ['all', 'min'])
        if esc == 'all':
            body = v.replace("'", "\\'")
        else:
            out = []
            for i, ch in enumerate(v):
                if ch == "'" and (i == 0 or i == len(v) - 1 or v[i + 1] == "'"):
                    out.append("\\'")
                else:
                    out.append(ch)
            body = ''.join(out)
        if is_note:
            pad = self.sp.pick('pad', site, ['none', 'wrap', 'wrap_deep'], [3, 2, 1])
            if pad != 'none':
                ind = indent + ('  ' if pad == 'wrap' else '\t    ')
                lines = body.split('\n')
                lines = [(ind + l) if l != '' else l for l in lines]
                body = '\n' + '\n'.join(lines) + '\n' + indent
        return "'''" + body + "'''"

    # -- comments
    def comment_block(self, text: str, site: str, indent: str = '') -> List[str]:
        """Lines of a comment written above an element."""
        style = self.sp.pick('cstyle', site, ['slashes', 'block'], [4, 1]) if '*/' not in text else 'slashes'
        if style == 'block':
            return (indent + '/*' + text + '*/').split('\n')
        sep = self.sp.pick('cspace', site, [' ', '', '  '], [4, 1, 1])
        return [f'{indent}//{sep}{l}' for l in text.split('\n')]

    def comment_trailing(self, text: str, site: str) -> str:
        assert '\n' not in text
        style = self.sp.pick('cstyle', site, ['slashes', 'block'], [4, 1]) if '*/' not in text else 'slashes'
        if style == 'block':
            return ' /*' + text + '*/'
        sep = self.sp.pick('cspace', site, [' ', '', '  '], [4, 1, 1])
        return f' //{sep}{text}'

    # -- settings list
    def settings(self, items: List[str], site: str, indent: str, keep_order: Optional[List[int]] = None) -> str:
        """`[a, b, c]` one-line or multi-line; `items` are permuted except that the items whose indices
        are in keep_order stay in their relative order."""
        if not items:
            return ''
        n = len(items)
        p = self.sp.perm('order', site, n)
        if keep_order and len(keep_order) > 1:
            slots = sorted(i for i, j in enumerate(p) if j in keep_order)
            for s, j in zip(slots, keep_order):
                p[s] = j
        items = [items[j] for j in p]
        multi = self.sp.pick('ml', site, ['one', 'multi'], [3, 2])
        if multi == 'multi':
            inner = indent + '  '
            return '[\n' + ',\n'.join(inner + it for it in items) + '\n' + indent + ']'
        sp_in = self.sp.pick('space', site, ['', ' '], [4, 1])
        comma = self.sp.pick('comma', site, [', ', ',', ' , '], [5, 1, 1])
        return '[' + sp_in + comma.join(items) + sp_in + ']'

    # -- addressing of a table
    def table_addr(self, key: Tuple[str, str], site: str) -> str:
        t = self.tables[tuple(key)]
        opts = []
        if t['schema'] == 'public':
            opts.append('bare')
        opts.append('qualified')
        if t.get('alias'):
            opts.append('alias')
        how = self.sp.pick('addr', site, opts)
        if how == 'bare':
            return self.ident(t['name'], site)
        if how == 'alias':
            return self.ident(t['alias'], site)
        return self.ident(t['schema'], site) + '.' + self.ident(t['name'], site)

    def decl_name(self, schema: str, name: str, site: str) -> str:
        if schema == 'public':
            how = self.sp.pick('declpublic', site, ['bare', 'qualified'], [5, 1])
            if how == 'bare':
                return self.ident(name, site)
        return self.ident(schema, 'schema') + '.' + self.ident(name, site)

    def note_body(self, text: str, site: str, indent: str) -> List[str]:
        form = self.sp.pick('noteform', site, ['colon', 'block'], [1, 1])
        if form == 'colon':
            return [indent + self.kw('note_body') + ': ' + self.string(text, 'note_' + site, is_note=True, indent=indent)]
        inner = indent + self.body_indent(site + '_note')
        return ([indent + self.kw('note_body') + ' {'] + self.blank('noteblock')
                + [inner + self.string(text, 'note_' + site, is_note=True, indent=inner)] + self.blank('noteblock_end')
                + [indent + '}'])

    def body_indent(self, site: str) -> str:
        return self.sp.pick('indent', site, ['    ', '  ', '', '\t', ' '], [4, 3, 1, 1, 1])

    def blank(self, site: str) -> List[str]:
        n = self.sp.pick('blank', site, [0, 1, 2], [5, 2, 1])
        return [''] * n

    # ------------------------------------------------------------------ elements

    def column(self, t: Dict[str, Any], c: Dict[str, Any], inline_refs: List[Dict[str, Any]], indent: str) -> List[str]:
        sp = self.sp
        with sp.at('c:' + c['name']):
            head = (indent + self.ident(c['name'], 'col_name') + sp.pick('colsep', 'col', [' ', '  ', '\t', '   '], [5, 1, 1, 1])
                    + self.col_type(c['type']))
            items: List[str] = []
            ref_idx: List[int] = []
            if c['pk']:
                which = sp.pick('pkword', 'col', ['pk', 'primary_key'], [3, 1])
                items.append(self.kw(which))
            if c['autoinc']:
                items.append(self.kw('increment'))
            if c['default'] is not None:
                items.append(self.kw('default') + ': ' + self.default(c['default']))
            if c['unique']:
                items.append(self.kw('unique'))
            if c['not_null']:
                items.append(self.kw('not_null'))
            elif sp.pick('explicitnull', 'col', ['no', 'yes'], [9, 1]) == 'yes':
                items.append(self.kw('null'))
            if c['note'] is not None:
                items.append(self.kw('note_setting') + ': ' + self.string(c['note'], 'note_col', is_note=True,
                                                                          indent=indent + '  '))
            for r in inline_refs:
                ref_idx.append(len(items))
                target = self.table_addr(tuple(r['t2']), 'inline_target') + '.' + self.ident(r['c2'][0], 'ref_col')
                items.append(self.kw('ref_inline') + ': ' + r['type'] + ' ' + target)
            for k, v in c.get('properties') or []:
                ref_idx.append(len(items))      # properties keep their relative order too
                items.append(self.ident(k, 'prop_key') + ': ' + self.string(v, 'prop_val', styles=('single', 'triple')))
            # relative order must be kept separately for refs and properties: keep all of them in order
            line = head
            if items:
                line += ' ' + self.settings(items, 'col_props' if c.get('properties') else 'col', indent, keep_order=ref_idx)
            if c['comment']:
                line += self.comment_trailing(c['comment'], 'col')
            return line.split('\n')

    def col_type(self, ty: Any) -> str:
        if isinstance(ty, dict):
            schema, name = ty['enum']
            if schema == 'public':
                how = self.sp.pick('enumaddr', 'type', ['bare', 'qualified'], [3, 1])
                if how == 'bare':
                    return self.ident(name, 'type')
            return self.ident(schema, 'type') + '.' + self.ident(name, 'type')
        if PLAIN_RE.match(ty):
            return self.ident(ty, 'type')
        if re.match(r'^[A-Za-z_][A-Za-z0-9_]*(\(.*\)|\[\])$', ty):
            return ty
        return '"' + ty + '"'

    def default(self, d: Dict[str, Any]) -> str:
        k, v = d['kind'], d['value']
        if k == 'int':
            return str(v)
        if k == 'float':
            return str(v)
        if k == 'bool':
            return self.kw('bool', 'true' if v else 'false')
        if k == 'expr':
            return '`' + v + '`'
        if k == 'str' and v == 'NULL' and self.sp.pick('nullform', 'default', ['keyword', 'string'], [4, 1]) == 'keyword':
            return self.kw('bool', 'null')
        return self.string(v, 'default')

    def index(self, ix: Dict[str, Any], indent: str, n: int) -> List[str]:
        sp = self.sp
        with sp.at('i:' + repr(ix['subjects'])):
            subs = []
            for s in ix['subjects']:
                if 'col' in s:
                    subs.append(self.ident(s['col'], 'idx_subject'))
                elif 'expr' in s:
                    subs.append('`' + s['expr'] + '`')
                else:
                    raise SurfaceError('string index subjects cannot be declared in DBML')
            if len(subs) == 1 and sp.pick('paren', 'idx', ['no', 'yes'], [4, 1]) == 'no':
                head = subs[0]
            else:
                comma = sp.pick('comma', 'idx_subjects', [', ', ',', ' , '], [5, 1, 1])
                head = '(' + comma.join(subs) + ')'
            items = []
            if ix['type'] is not None:
                items.append(self.kw('idx_type') + ': ' + self.kw('idx_type_val', ix['type']))
            if ix['name'] is not None:
                items.append(self.kw('idx_name') + ': ' + self.string(ix['name'], 'idx_name'))
            if ix['unique']:
                items.append(self.kw('unique'))
            if ix['pk']:
                items.append(self.kw('pk'))
            if ix['note'] is not None:
                items.append(self.kw('note_setting') + ': ' + self.string(ix['note'], 'note_idx', is_note=True,
                                                                          indent=indent + '  '))
            lines: List[str] = []
            line = indent + head
            if items:
                line += ' ' + self.settings(items, 'idx', indent)
            if ix['comment']:
                where = 'above'
                if '\n' not in ix['comment']:
                    where = sp.pick('cpos', 'idx', ['trailing', 'above'])
                if where == 'above':
                    lines.extend(self.comment_block(ix['comment'], 'idx', indent))
                else:
                    line += self.comment_trailing(ix['comment'], 'idx')
            lines.extend(line.split('\n'))
            return lines

    def table(self, t: Dict[str, Any], inline: Dict[str, List[Dict[str, Any]]]) -> List[str]:
        sp = self.sp
        with sp.at(f't:{t["schema"]}.{t["name"]}'):
            lines: List[str] = []
            if t['comment']:
                lines.extend(self.comment_block(t['comment'], 'table'))
            head = self.kw('table') + ' ' + self.decl_name(t['schema'], t['name'], 'table_name')
            if t['alias']:
                head += ' ' + self.kw('as') + ' ' + self.ident(t['alias'], 'alias')
            items = []
            note_in_settings = False
            if t['header_color']:
                items.append(self.kw('headercolor') + ': ' + t['header_color'])
            if t['note'] is not None:
                note_in_settings = sp.pick('notepos', 'table', ['body', 'settings'], [3, 1]) == 'settings'
                if note_in_settings:
                    items.append(self.kw('note_setting') + ': ' + self.string(t['note'], 'note_table', is_note=True,
                                                                              indent='  '))
            if items:
                head += ' ' + self.settings(items, 'table', '')
            head += ' {'
            lines.extend(head.split('\n'))
            indent = self.body_indent('table')
            # body elements
            elems: List[List[str]] = [self.column(t, c, inline.get(c['name'], []), indent) for c in t['columns']]
            n_cols = len(elems)

            def insert(block: List[str], site: str, lo: int = 0):
                pos = sp.pick('bodypos', site, list(range(len(elems), lo - 1, -1)),
                              [4] + [1] * (len(elems) - lo))
                elems.insert(pos, block)
                return pos

            lo = 0
            for k, v in t.get('properties') or []:
                with sp.at('p:' + k):
                    block = [indent + self.ident(k, 'prop_key') + ': ' +
                             self.string(v, 'prop_val', styles=('single', 'triple'))]
                    block = '\n'.join(block).split('\n')
                    lo = insert(block, 'prop', lo) + 1
            if t['note'] is not None and not note_in_settings:
                insert(self.note_body(t['note'], 'table', indent), 'note')
            if t['indexes']:
                inner = indent + self.body_indent('indexes')
                block = [indent + self.kw('indexes') + ' {']
                for n, ix in enumerate(t['indexes']):
                    block.extend(self.blank('idx'))
                    block.extend(self.index(ix, inner, n))
                block.extend(self.blank('idx_end'))
                block.append(indent + '}')
                insert(block, 'indexes')
            for e in elems:
                lines.extend(self.blank('body'))
                lines.extend(e)
            lines.extend(self.blank('body_end'))
            lines.append('}')
            return lines

    def enum(self, e: Dict[str, Any]) -> List[str]:
        sp = self.sp
        with sp.at(f'e:{e["schema"]}.{e["name"]}'):
            lines: List[str] = []
            if e['comment']:
                lines.extend(self.comment_block(e['comment'], 'enum'))
            lines.append(self.kw('enum') + ' ' + self.decl_name(e['schema'], e['name'], 'enum_name') + ' {')
            indent = self.body_indent('enum')
            for it in e['items']:
                with sp.at('it:' + it['name']):
                    lines.extend(self.blank('enum_body'))
                    line = indent + self.ident(it['name'], 'enum_item')
                    if it['note'] is not None:
                        line += ' ' + self.settings(
                            [self.kw('note_setting') + ': ' + self.string(it['note'], 'note_item', is_note=True,
                                                                          indent=indent + '  ')], 'enum_item', indent)
                    if it['comment']:
                        where = 'above'
                        if '\n' not in it['comment']:
                            where = sp.pick('cpos', 'enum_item', ['trailing', 'above'])
                        if where == 'above':
                            lines.extend(self.comment_block(it['comment'], 'enum_item', indent))
                        else:
                            line += self.comment_trailing(it['comment'], 'enum_item')
                    lines.extend(line.split('\n'))
            lines.extend(self.blank('enum_end'))
            lines.append('}')
            return lines

    def endpoint(self, key, cols: List[str]) -> str:
        tab = self.table_addr(tuple(key), 'ref_ep')
        if len(cols) == 1:
            return tab + '.' + self.ident(cols[0], 'ref_col')
        comma = self.sp.pick('comma', 'ref_cols', [', ', ',', ' , '], [5, 1, 1])
        return tab + '.(' + comma.join(self.ident(c, 'ref_col') for c in cols) + ')'

    def ref(self, r: Dict[str, Any], n: int) -> List[str]:
        sp = self.sp
        with sp.at(f'r:{r["t1"]}{r["c1"]}{r["t2"]}{r["c2"]}'):
            lines: List[str] = []
            form = sp.pick('refform', 'ref', ['short', 'long'], [3, 2])
            indent = self.body_indent('ref') if form == 'long' else ''
            body = self.endpoint(r['t1'], r['c1']) + ' ' + r['type'] + ' ' + self.endpoint(r['t2'], r['c2'])
            items = []
            if r['on_update'] is not None:
                items.append(self.kw('update') + ': ' + self.kw('action', r['on_update']))
            if r['on_delete'] is not None:
                items.append(self.kw('delete') + ': ' + self.kw('action', r['on_delete']))
            if items:
                body += ' ' + self.settings(items, 'ref', indent)
            trailing = ''
            if r['comment']:
                where = 'above'
                if '\n' not in r['comment']:
                    where = sp.pick('cpos', 'ref', ['above', 'trailing'])
                if where == 'above':
                    lines.extend(self.comment_block(r['comment'], 'ref'))
                else:
                    trailing = self.comment_trailing(r['comment'], 'ref')
            head = self.kw('ref')
            if r['name'] is not None:
                head += ' ' + self.ident(r['name'], 'ref_name')
            if form == 'short':
                lines.extend((head + ': ' + body + trailing).split('\n'))
            else:
                lines.append(head + ' {')
                lines.extend(self.blank('ref_body'))
                lines.extend((indent + body + trailing).split('\n'))
                lines.extend(self.blank('ref_end'))
                lines.append('}')
            return lines

    def group(self, g: Dict[str, Any]) -> List[str]:
        sp = self.sp
        with sp.at('g:' + g['name']):
            lines: List[str] = []
            if g['comment']:
                lines.extend(self.comment_block(g['comment'], 'group'))
            head = self.kw('tablegroup') + ' ' + self.ident(g['name'], 'group_name')
            items = []
            note_in_settings = False
            if g['color']:
                items.append(self.kw('color') + ': ' + g['color'])
            if g['note'] is not None:
                note_in_settings = sp.pick('notepos', 'group', ['body', 'settings'], [2, 1]) == 'settings'
                if note_in_settings:
                    items.append(self.kw('note_setting') + ': ' + self.string(g['note'], 'note_group', is_note=True,
                                                                              indent='  '))
            if items:
                head += ' ' + self.settings(items, 'group', '')
            lines.extend((head + ' {').split('\n'))
            indent = self.body_indent('group')
            elems = [[indent + self.table_addr(tuple(k), 'group_item')] for k in g['items']]
            if g['note'] is not None and not note_in_settings:
                pos = sp.pick('bodypos', 'group_note', list(range(len(elems), -1, -1)), [4] + [1] * len(elems))
                elems.insert(pos, self.note_body(g['note'], 'group', indent))
            for e in elems:
                lines.extend(self.blank('group_body'))
                lines.extend(e)
            lines.extend(self.blank('group_end'))
            lines.append('}')
            return lines

    def project(self, p: Dict[str, Any]) -> List[str]:
        sp = self.sp
        with sp.at('project'):
            lines: List[str] = []
            if p['comment']:
                lines.extend(self.comment_block(p['comment'], 'project'))
            lines.append(self.kw('project') + ' ' + self.ident(p['name'], 'project_name') + ' {')
            indent = self.body_indent('project')
            elems = []
            for k, v in p['items']:
                with sp.at('k:' + k):
                    elems.append((indent + self.ident(k, 'project_key') + ': ' +
                                  self.string(v, 'project_val')).split('\n'))
            if p['note'] is not None:
                pos = sp.pick('bodypos', 'project_note', list(range(len(elems), -1, -1)), [4] + [1] * len(elems))
                elems.insert(pos, self.note_body(p['note'], 'project', indent))
            for e in elems:
                lines.extend(self.blank('project_body'))
                lines.extend(e)
            lines.extend(self.blank('project_end'))
            lines.append('}')
            return lines

    def sticky(self, n: Dict[str, Any]) -> List[str]:
        sp = self.sp
        with sp.at('n:' + n['name']):
            indent = self.body_indent('sticky')
            lines = [self.kw('sticky') + ' ' + self.ident(n['name'], 'sticky_name') + ' {']
            lines.extend(self.blank('sticky_body'))
            lines.extend((indent + self.string(n['text'], 'sticky', is_note=True, indent=indent)).split('\n'))
            lines.extend(self.blank('sticky_end'))
            lines.append('}')
            return lines

    # ------------------------------------------------------------------ document

    def units(self) -> List[Tuple[str, List[str]]]:
        m, sp = self.m, self.sp
        tables = m['tables']
        tindex = {(t['schema'], t['name']): i for i, t in enumerate(tables)}
        n = len(tables)
        # --- inline refs travel with their table
        refs = m['refs']
        inline: Dict[int, Dict[str, List[Dict[str, Any]]]] = {}
        inline_idx: Dict[int, Dict[str, List[int]]] = {}
        for i, r in enumerate(refs):
            if r['inline']:
                ti = tindex[tuple(r['t1'])]
                if r['type'] == '<>' or len(r['c1']) != 1 or len(r['c2']) != 1:
                    raise SurfaceError('inline refs are single-column and not many-to-many')
                if r['name'] or r['comment'] or r['on_update'] or r['on_delete']:
                    raise SurfaceError('inline refs cannot carry name/actions/comment')
                inline.setdefault(ti, {}).setdefault(r['c1'][0], []).append(r)
                inline_idx.setdefault(ti, {}).setdefault(r['c1'][0], []).append(i)
        # --- gaps for standalone refs: gap g = just before table g (g == n: after all tables)
        seq: List[Tuple[str, Any]] = []
        placements: List[Tuple[int, int, Dict[str, Any]]] = []
        lo = 0
        for i, r in enumerate(refs):
            if r['inline']:
                lo = max(lo, tindex[tuple(r['t1'])] + 1)
                continue
            hi = n
            for r2 in refs[i + 1:]:
                if r2['inline']:
                    hi = tindex[tuple(r2['t1'])]
                    break
            if lo > hi:
                raise SurfaceError('ref order is not realisable in source order')
            with sp.at(f'r:{r["t1"]}{r["c1"]}{r["t2"]}{r["c2"]}'):
                g = sp.pick('refgap', 'ref', list(range(hi, lo - 1, -1)), [4] + [1] * (hi - lo))
            lo = g
            placements.append((g, i, r))
        order: List[int] = []
        for ti in range(n + 1):
            for g, i, r in placements:
                if g == ti:
                    seq.append(('ref', (i, r)))
                    order.append(i)
            if ti < n:
                seq.append(('table', ti))
                for c in tables[ti]['columns']:
                    order.extend(inline_idx.get(ti, {}).get(c['name'], []))
        if order != list(range(len(refs))):
            raise SurfaceError('ref order is not realisable in source order')
        # --- other kinds are free: insert in order at random positions
        def scatter(kind: str, objs: List[Any], canonical_front: bool):
            pos_lo = 0
            for k, o in enumerate(objs):
                with sp.at(f'{kind}:{o.get("name")}'):
                    if canonical_front:
                        # canonical: before everything that is not of an earlier-scattered kind
                        opts = list(range(pos_lo, len(seq) + 1))
                    else:
                        opts = list(range(len(seq), pos_lo - 1, -1))
                    pos = sp.pick('toppos', kind, opts, [4] + [1] * (len(opts) - 1))
                seq.insert(pos, (kind, o))
                pos_lo = pos + 1
        scatter('enum', m['enums'], True)
        scatter('group', m['table_groups'], False)
        scatter('sticky', m['sticky_notes'], False)
        if m['project']:
            scatter('project', [m['project']], True)
        out: List[Tuple[str, List[str]]] = []
        for kind, o in seq:
            if kind == 'table':
                out.append((kind, self.table(tables[o], inline.get(o, {}))))
            elif kind == 'ref':
                out.append((kind, self.ref(o[1], o[0])))
            elif kind == 'enum':
                out.append((kind, self.enum(o)))
            elif kind == 'group':
                out.append((kind, self.group(o)))
            elif kind == 'sticky':
                out.append((kind, self.sticky(o)))
            elif kind == 'project':
                out.append((kind, self.project(o)))
        return out

    def render(self) -> str:
        sp = self.sp
        lines: List[str] = []
        lines.extend([''] * sp.pick('blank', 'top', [0, 1, 2], [5, 1, 1]))
        first = True
        for kind, block in self.units():
            if not first:
                lines.extend([''] * sp.pick('blank', 'between', [1, 0, 2, 3], [5, 2, 2, 1]))
            first = False
            lines.extend(block)
        eof = sp.pick('eof', 'doc', ['\n', '', '\n\n'], [4, 2, 1])
        return '\n'.join(lines) + eof


def surface(m: Dict[str, Any], sp: Any) -> str:
    return Surface(m, sp).render()


def surface_ex(m: Dict[str, Any], sp: Any) -> Tuple[str, Dict[str, list]]:
    """Text plus the non-canonical spelling decisions that were taken: {label: [options chosen]}."""
    s = Surface(m, sp)
    text = s.render()
    return text, {k: sorted(v, key=repr) for k, v in sorted(s.sp.used.items())}


CANONICAL = {'seed': 0, 'pin': ['*']}
