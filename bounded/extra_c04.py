"""C04 extra: "exactly one correctly directed FOREIGN KEY" must hold for the model *as it is now*.  A reference's kind
and inline flag are plain attributes a client may reassign; whether it is an inline clause, an ALTER TABLE or a join
table has to follow the current values, also after the database was rendered once (nothing decided at construction
or at an earlier rendering may survive the edit)."""
from __future__ import annotations

import itertools
from typing import Optional, Tuple

from lib.bounded import BObl
from spec.model import normalize, build_api
from spec.gen_api import model, ref, _two_tables, REF_TYPES
from spec.read_ddl import compare, read_ddl, ReadError


class FkAfterRetype(BObl):
    id = 'C04.B.fk-after-retype'
    property = 'C04'
    rule = ('API-built database with one reference a -> b: (initial kind, initial inline flag) x (kind assigned '
            'afterwards) x (inline flag assigned afterwards: none / False / True, before or after the kind) x (rendered '
            'before the edits or not) x single/composite x 2 schema pairs; the foreign keys read back from db.sql after '
            'the edits must be those of the statement of C04 for the model with the final kind and flag. '
            'Non-trivial = the kind or the flag changed.')
    bound = '4 x 2 x 4 x 5 x 2 x 2 x 2 = 1280 histories, enumerated exhaustively'
    budget = {'quick': 20.0, 'thorough': 60.0}
    chunk = 64

    def cases(self, tier, seed):
        for (s1, s2) in (('public', 'public'), ('s1', 'public')):
            for t0, i0, t1 in itertools.product(REF_TYPES, (False, True), REF_TYPES):
                for flag in ('keep', 'F-before', 'T-before', 'F-after', 'T-after'):
                    for pre in (False, True):
                        for comp in (1, 2):
                            yield {'s': [s1, s2], 't0': t0, 'i0': i0, 't1': t1, 'flag': flag, 'pre': pre, 'comp': comp}

    def nontrivial(self, recipe):
        return recipe['t0'] != recipe['t1'] or recipe['flag'] != 'keep'

    def check(self, recipe) -> Optional[Tuple[str, str]]:
        s1, s2 = recipe['s']
        a, b = _two_tables(s1, s2)
        c1, c2 = ['x', 'y'][:recipe['comp']], ['u', 'v'][:recipe['comp']]
        m0 = model([a, b], [ref(recipe['t0'], [s1, 'a'], c1, [s2, 'b'], c2, inline=recipe['i0'], name='k')])
        db = build_api(m0)
        if recipe['pre']:
            try:
                db.sql
            except Exception:       # noqa: BLE001 - not what this obligation is about
                return None
        r = db.refs[0]
        flag, final = recipe['flag'], recipe['i0']
        if flag.endswith('before'):
            final = flag[0] == 'T'
            r.inline = final
        r.type = recipe['t1']
        if flag.endswith('after'):
            final = flag[0] == 'T'
            r.inline = final
        want = normalize(model([a, b], [ref(recipe['t1'], [s1, 'a'], c1, [s2, 'b'], c2, inline=final, name='k')]))
        try:
            stmts = read_ddl(db.sql)
        except ReadError as e:
            return f'unreadable-after-retype:{e.where}', f'{recipe}: {e}'
        except Exception as e:     # noqa: BLE001
            return f'crash-after-retype:{type(e).__name__}', f'{recipe}: {str(e)[:200]!r}'
        ms = [x for x in compare(want, stmts, parts=('fks',)) if x.prop == 'C04']
        if not ms:
            return None
        x = sorted(ms, key=lambda x: (x.key, x.message))[0]
        return f'after-retype:{x.key}', f'{x.message[:300]} | history {recipe}'


OBLIGATIONS = [FkAfterRetype()]
