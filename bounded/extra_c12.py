"""C12 extra: the empty document and falsy unsupported source types on every route."""
from __future__ import annotations

import io
import os
import tempfile
from pathlib import Path

from lib.bounded import BObl


class EmptyAndFalsy(BObl):
    id = 'C12.B.empty-and-falsy'
    property = 'C12'
    rule = 'fixed family: empty / whitespace-only / comment-only text on the seven routes; falsy and other unsupported source types'
    bound = 'exhaustive over the fixed family'

    def cases(self, tier, seed):
        for text in ('', '\n', '// c\n', '﻿'):
            yield {'kind': 'text', 'text': text}
        for name in ('0', 'b""', '[]', '()', '{}', 'False', '0.0', '1', 'b"x"', '["a"]', 'object()'):
            yield {'kind': 'bad', 'expr': name}

    def exhaustive(self, tier):
        return True

    def check(self, r):
        from pydbml import PyDBML
        from pydbml.database import Database
        if r['kind'] == 'bad':
            v = eval(r['expr'])
            try:
                res = PyDBML(v)
            except TypeError:
                return None
            except Exception as e:
                return ('wrong-error:' + type(e).__name__, f'PyDBML({r["expr"]}) raised {type(e).__name__}')
            return ('unsupported-source-accepted', f'PyDBML({r["expr"]}) returned {res!r} instead of raising TypeError')
        text = r['text']
        outs = {}
        with tempfile.TemporaryDirectory() as d:
            p = os.path.join(d, 'x.dbml')
            open(p, 'w', encoding='utf8').write(text)
            routes = {
                'str': lambda: PyDBML(text),
                'path': lambda: PyDBML(Path(p)),
                'parse': lambda: PyDBML.parse(text),
                'inst.parse': lambda: PyDBML().parse(text),
                'parse_file:str': lambda: PyDBML.parse_file(p),
                'parse_file:path': lambda: PyDBML.parse_file(Path(p)),
            }
            for n, f in routes.items():
                try:
                    res = f()
                    outs[n] = 'Database' if isinstance(res, Database) else type(res).__name__
                except Exception as e:
                    outs[n] = 'EXC:' + type(e).__name__
            for n in ('file', 'parse_file:file'):
                with open(p, encoding='utf8') as fh:
                    try:
                        res = PyDBML(fh) if n == 'file' else PyDBML.parse_file(fh)
                        outs[n] = 'Database' if isinstance(res, Database) else type(res).__name__
                    except Exception as e:
                        outs[n] = 'EXC:' + type(e).__name__
        if len(set(outs.values())) != 1:
            return ('routes-disagree:empty-document', f'text {text!r}: {outs}')
        if set(outs.values()) != {'Database'}:
            return ('empty-document-not-a-database', f'text {text!r}: {outs}')
        return None


OBLIGATIONS = [EmptyAndFalsy()]
