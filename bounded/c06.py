"""C06 (bounded): rule-breaking documents are rejected with the error belonging to the rule.

Contract on `PyDBML(source)`:
    requires  source == surface(inject(m, rule, variant, position), sp)   (m well-formed, exactly one violation)
    ensures   PyDBML(source) raises E(rule)

    rule              violation injected                                                         E(rule)
    dup-table         a second table with the same schema and name                               DatabaseValidationError
    dup-alias:alias   a new table whose alias is another table's alias                           DatabaseValidationError
    dup-alias:fullname a new table whose alias is another table's key "schema.name"             DatabaseValidationError
    dup-enum          a second enum with the same schema and name                                DatabaseValidationError
    dup-group         a second table group with the same name                                    DatabaseValidationError
    group-dup-item    a group listing one table twice (bare / schema-qualified / alias)          ValidationError
    dup-ref           an identical reference repeated (inline / short / block, any addressing)   DatabaseValidationError
    dup-ref:comment-differs   same endpoints, kind, name and actions; only the comment differs   DatabaseValidationError
    empty-table       a table without columns                                                    SyntaxError (builtin)
    missing-table@ref | @group      a reference / group naming a table that does not exist       TableNotFoundError
    missing-column@ref | @index     a reference / index naming a column that does not exist      ColumnNotFoundError

Not injected, because the statement does not promise an error: an alias equal to another table's *bare* name, a
table in two groups, mirrored references (`a.x > b.y` and `b.y < a.x`), duplicate column names.

Keys:  accepted:<rule>                    a Database was returned
       wrong-error:<rule>:<ExceptionClass>
"""
from __future__ import annotations

import copy
import random
from typing import Any, Dict, List, Optional, Tuple

from lib.bounded import BObl
from spec.gen import random_model
from spec.model import normalize
from spec.surface import Surface, Sp, SurfaceError

EXPECT = {
    'dup-table': 'DatabaseValidationError', 'dup-alias:alias': 'DatabaseValidationError',
    'dup-alias:fullname': 'DatabaseValidationError', 'dup-enum': 'DatabaseValidationError',
    'dup-group': 'DatabaseValidationError', 'group-dup-item': 'ValidationError',
    'dup-ref': 'DatabaseValidationError', 'dup-ref:comment-differs': 'DatabaseValidationError',
    'empty-table': 'SyntaxError', 'missing-table@ref': 'TableNotFoundError', 'missing-table@group': 'TableNotFoundError',
    'missing-column@ref': 'ColumnNotFoundError', 'missing-column@index': 'ColumnNotFoundError',
}

POSITIONS = ('start', 'middle', 'end')
FORMS = ('inline', 'short', 'long')


def combos() -> List[Tuple[str, str]]:
    """(rule, variant) pairs; every pair is crossed with the three positions."""
    out: List[Tuple[str, str]] = []
    out += [('dup-table', v) for v in ('plain', 'other-columns', 'referenced')]
    out += [('dup-alias:alias', v) for v in ('existing-alias', 'fresh-alias')]
    out += [('dup-alias:fullname', v) for v in ('public', 'any')]
    out += [('dup-enum', v) for v in ('plain', 'used-as-type')]
    out += [('dup-group', v) for v in ('plain',)]
    out += [('group-dup-item', f'{a}+{b}{sep}') for a in ('bare', 'qualified', 'alias') for b in ('bare', 'qualified', 'alias')
            for sep in ('', '/apart')]
    out += [('dup-ref', f'{a}+{b}') for a in FORMS for b in FORMS]
    out += [('dup-ref', f'{a}+{b}/named') for a in FORMS[1:] for b in FORMS[1:]]
    out += [('dup-ref', f'{a}+{b}/composite') for a in FORMS[1:] for b in FORMS[1:]]
    out += [('dup-ref:comment-differs', f'{a}+{b}') for a in FORMS[1:] for b in FORMS[1:]]
    out += [('empty-table', v) for v in ('bare', 'note-only', 'alias-and-settings')]
    out += [('missing-table@ref', f'{form}/{end}/{how}') for form in FORMS for end in ('t1', 't2') for how in ('fresh', 'wrong-schema')
            if not (form == 'inline' and end == 't1')]
    out += [('missing-table@group', f'{how}/{where}') for how in ('fresh', 'wrong-schema') for where in ('new-group', 'existing-group')]
    out += [('missing-column@ref', f'{form}/{end}/{how}') for form in FORMS for end in ('c1', 'c2') for how in ('fresh', 'other-table')
            if not (form == 'inline' and end == 'c1')]
    out += [('missing-column@ref', f'{form}/{end}/composite') for form in FORMS[1:] for end in ('c1', 'c2')]
    out += [('missing-column@index', v) for v in ('single', 'composite', 'other-table')]
    return out


COMBOS = [(r, v, p) for (r, v) in combos() for p in POSITIONS]


# ------------------------------------------------------------------ surface that tolerates the injected violation

class InjSurface(Surface):
    def __init__(self, m, sp):
        super().__init__(m, sp)
        self.tables = {}
        for t in m['tables']:           # the first declaration is the one references address
            self.tables.setdefault((t['schema'], t['name']), t)
        self.addr_plan: Dict[Tuple[str, Tuple[str, str]], List[str]] = {}

    def table_addr(self, key, site):
        key = tuple(key)
        plan = self.addr_plan.get((site, key))
        t = self.tables.get(key)
        if plan:
            how = plan.pop(0)
        elif t is None:
            opts = ['qualified'] if key[0] != 'public' else ['bare', 'qualified']
            how = self.sp.pick('addr', site, opts)
        else:
            return super().table_addr(key, site)
        if how == 'bare':
            return self.ident(key[1], site)
        if how == 'alias':
            return self.ident(t['alias'], site)
        return self.ident(key[0], site) + '.' + self.ident(key[1], site)

    def ref(self, r, n):
        form = r.get('_form')
        if form:
            old = self.sp.force.get('refform@ref')
            self.sp.force['refform@ref'] = form
            try:
                return super().ref(r, n)
            finally:
                if old is None:
                    del self.sp.force['refform@ref']
                else:
                    self.sp.force['refform@ref'] = old
        return super().ref(r, n)


def reorder_refs(m: Dict[str, Any], standalone_first: bool) -> None:
    """Put the references in an order that can be written down: inline ones by table and column, the others all
    before or all after them."""
    tindex: Dict[Tuple[str, str], int] = {}
    for i, t in enumerate(m['tables']):
        tindex[(t['schema'], t['name'])] = i
    inline = [r for r in m['refs'] if r['inline']]
    alone = [r for r in m['refs'] if not r['inline']]

    def pos(r):
        ti = tindex[tuple(r['t1'])]
        cols = [c['name'] for c in m['tables'][ti]['columns']]
        return (ti, cols.index(r['c1'][0]))
    inline.sort(key=pos)
    m['refs'] = (alone + inline) if standalone_first else (inline + alone)


def write(m: Dict[str, Any], sp: Any, plan=None) -> str:
    last = None
    for attempt in range(3):
        mm = m
        if attempt:
            mm = copy.deepcopy(m)
            reorder_refs(mm, standalone_first=(attempt == 2))
        s = InjSurface(mm, Sp(sp))
        if plan:
            s.addr_plan = {k: list(v) for k, v in plan.items()}
        try:
            return s.render()
        except SurfaceError as e:
            last = e
    raise last


# ------------------------------------------------------------------ injection

def _at(lst: List[Any], item: Any, position: str, rng: random.Random) -> None:
    if position == 'start':
        lst.insert(0, item)
    elif position == 'end':
        lst.append(item)
    else:
        lst.insert(rng.randint(min(1, len(lst)), max(len(lst) - 1, min(1, len(lst)))), item)


def _key(t) -> List[str]:
    return [t['schema'], t['name']]


def _new_table(name: str, **kw) -> Dict[str, Any]:
    t = {'schema': 'public', 'name': name, 'alias': None, 'note': None, 'header_color': None, 'comment': None,
         'properties': [], 'indexes': [],
         'columns': [{'name': 'id', 'type': 'int', 'unique': False, 'not_null': False, 'pk': False, 'autoinc': False,
                      'default': None, 'note': None, 'comment': None, 'properties': []}]}
    t.update(kw)
    return t


def _col(name: str, type_='int') -> Dict[str, Any]:
    return {'name': name, 'type': type_, 'unique': False, 'not_null': False, 'pk': False, 'autoinc': False,
            'default': None, 'note': None, 'comment': None, 'properties': []}


def _ref(t1, c1, t2, c2, **kw) -> Dict[str, Any]:
    r = {'type': '>', 'inline': False, 'name': None, 'comment': None, 'on_update': None, 'on_delete': None,
         't1': list(t1), 'c1': list(c1), 't2': list(t2), 'c2': list(c2)}
    r.update(kw)
    return r


def _grouped(m) -> set:
    return {tuple(k) for g in m['table_groups'] for k in g['items']}


def _unused_schema(m, rng) -> str:
    used = {t['schema'] for t in m['tables']}
    for s in ('s9', 'other', 'zz schema', 'S9x'):
        if s not in used:
            return s
    return 'zz_s'


def inject(m: Dict[str, Any], rule: str, variant: str, position: str, rng: random.Random):
    """(ill-formed model, addressing plan or None), or None when the combination does not apply to `m`."""
    m = copy.deepcopy(m)
    tables = m['tables']
    plan = None

    if rule == 'dup-table':
        orig = rng.choice(tables)
        if variant == 'referenced':
            cands = [t for t in tables if any(r['t2'] == _key(t) or r['t1'] == _key(t) for r in m['refs'])]
            if not cands:
                return None
            orig = rng.choice(cands)
        key = _key(orig)
        for r in m['refs']:             # the original keeps its references, written as standalone ones
            if r['inline'] and r['t1'] == key:
                r['inline'] = False
        dup = _new_table(orig['name'], schema=orig['schema'])
        if variant == 'other-columns':
            dup['columns'] = [_col('zz_a', 'text'), _col('zz_b')]
            dup['note'] = 'duplicate'
        else:
            dup['columns'] = [copy.deepcopy(c) for c in orig['columns']]
        _at(tables, dup, position, rng)

    elif rule == 'dup-alias:alias':
        if variant == 'existing-alias':
            cands = [t for t in tables if t['alias']]
            if not cands:
                return None
            orig = rng.choice(cands)
        else:
            orig = rng.choice(tables)
            orig['alias'] = rng.choice(['AL9', 'zz alias', 'al_9'])
        _at(tables, _new_table('zz_new', alias=orig['alias'], schema=rng.choice(['public', 'public', 's1'])), position, rng)

    elif rule == 'dup-alias:fullname':
        cands = [t for t in tables if t['schema'] == 'public'] if variant == 'public' else list(tables)
        cands = [t for t in cands if '"' not in t['schema'] + t['name']]
        if not cands:
            return None
        orig = rng.choice(cands)
        _at(tables, _new_table('zz_new', alias=f'{orig["schema"]}.{orig["name"]}'), position, rng)

    elif rule == 'dup-enum':
        if variant == 'used-as-type':
            used = [tuple(c['type']['enum']) for t in tables for c in t['columns'] if isinstance(c['type'], dict)]
            cands = [e for e in m['enums'] if (e['schema'], e['name']) in used]
        else:
            cands = list(m['enums'])
        if not cands:
            if variant == 'used-as-type':
                return None
            m['enums'].append({'schema': 'public', 'name': 'zz_enum', 'comment': None,
                               'items': [{'name': 'a', 'note': None, 'comment': None}]})
            cands = [m['enums'][-1]]
        orig = rng.choice(cands)
        dup = {'schema': orig['schema'], 'name': orig['name'], 'comment': None,
               'items': [{'name': 'zz_item', 'note': None, 'comment': None}]}
        _at(m['enums'], dup, position, rng)

    elif rule == 'dup-group':
        tables.append(_new_table('zz_grp_a'))
        tables.append(_new_table('zz_grp_b'))
        if not m['table_groups']:
            m['table_groups'].append({'name': 'zz_group', 'items': [['public', 'zz_grp_a']], 'comment': None,
                                      'note': None, 'color': None})
            orig = m['table_groups'][0]
        else:
            orig = rng.choice(m['table_groups'])
        dup = {'name': orig['name'], 'items': [['public', 'zz_grp_b']], 'comment': None, 'note': None, 'color': None}
        _at(m['table_groups'], dup, position, rng)

    elif rule == 'group-dup-item':
        pair, _, sep = variant.partition('/')
        a, b = pair.split('+')
        schema = 'public' if 'bare' in (a, b) else rng.choice(['public', 's1'])
        t = _new_table('zz_member', schema=schema, alias='ZM' if 'alias' in (a, b) else None)
        _at(tables, t, rng.choice(POSITIONS), rng)
        key = (schema, 'zz_member')
        items = [list(key), list(key)]
        if sep:
            tables.append(_new_table('zz_between'))
            items.insert(1, ['public', 'zz_between'])
        g = {'name': 'zz_g', 'items': items, 'comment': None, 'note': None, 'color': None}
        _at(m['table_groups'], g, position, rng)
        plan = {('group_item', key): [a, b]}

    elif rule in ('dup-ref', 'dup-ref:comment-differs'):
        pair, _, extra = variant.partition('/')
        fa, fb = pair.split('+')
        need_inline = 'inline' in (fa, fb)
        composite = extra == 'composite'
        # endpoints: two (new) columns so that the pair is certainly not referenced yet
        t1 = rng.choice(tables)
        t2 = rng.choice(tables)
        n = 2 if composite else 1
        c1 = [f'zz_f{i}' for i in range(n)]
        c2 = [f'zz_k{i}' for i in range(n)]
        for c in c1:
            _at(t1['columns'], _col(c), rng.choice(POSITIONS), rng)
        for c in c2:
            _at(t2['columns'], _col(c), rng.choice(POSITIONS), rng)
        typ = rng.choice(['>', '<', '-']) if need_inline else rng.choice(['>', '<', '-', '<>'])
        base = _ref(_key(t1), c1, _key(t2), c2, type=typ)
        if extra == 'named':
            base['name'] = rng.choice(['fk_dup', 'fk dup'])
            base['on_delete'] = rng.choice([None, 'cascade', 'set null'])
            base['on_update'] = rng.choice([None, 'no action', 'restrict'])
        ra, rb = copy.deepcopy(base), copy.deepcopy(base)
        for r, f in ((ra, fa), (rb, fb)):
            if f == 'inline':
                r['inline'] = True
            else:
                r['_form'] = f
        if rule == 'dup-ref:comment-differs':
            ra['comment'] = rng.choice([None, 'first copy'])
            rb['comment'] = 'second copy'
        elif not need_inline and rng.random() < 0.3:
            ra['comment'] = rb['comment'] = 'same comment'
        refs = m['refs']
        _at(refs, ra, position, rng)
        i = refs.index(ra)
        if rng.random() < 0.5:
            refs.insert(i + 1, rb)
        else:
            _at(refs, rb, rng.choice(POSITIONS), rng)

    elif rule == 'empty-table':
        t = _new_table('zz_empty', schema=rng.choice(['public', 'public', 's1']))
        t['columns'] = []
        if variant == 'note-only':
            t['note'] = 'no columns here'
        elif variant == 'alias-and-settings':
            t['alias'] = 'ZE'
            t['header_color'] = '#fff'
        _at(tables, t, position, rng)

    elif rule == 'missing-table@ref':
        form, end, how = variant.split('/')
        host = rng.choice(tables)
        if how == 'fresh':
            missing = [rng.choice(['public', 'public', 's1']), rng.choice(['zz_missing', 'zz missing'])]
        else:
            missing = [_unused_schema(m, rng), rng.choice(tables)['name']]
        hc = [rng.choice(host['columns'])['name']]
        if end == 't2':
            r = _ref(_key(host), hc, missing, ['id'])
        else:
            r = _ref(missing, ['id'], _key(host), hc)
        r['type'] = rng.choice(['>', '<', '-'])
        if form == 'inline':
            r['inline'] = True
        else:
            r['_form'] = form
        _at(m['refs'], r, position, rng)

    elif rule == 'missing-table@group':
        how, where = variant.split('/')
        if how == 'fresh':
            missing = [rng.choice(['public', 'public', 's1']), 'zz_missing']
        else:
            missing = [_unused_schema(m, rng), rng.choice(tables)['name']]
        if where == 'existing-group':
            if not m['table_groups']:
                return None
            g = rng.choice(m['table_groups'])
            _at(g['items'], missing, position, rng)
        else:
            tables.append(_new_table('zz_grp_a'))
            items = [['public', 'zz_grp_a']]
            _at(items, missing, position, rng)
            g = {'name': 'zz_g', 'items': items, 'comment': None, 'note': None, 'color': None}
            _at(m['table_groups'], g, position, rng)

    elif rule == 'missing-column@ref':
        form, end, how = variant.split('/')
        ta = rng.choice(tables)
        tb = rng.choice(tables)
        good_a = rng.choice(ta['columns'])['name']
        if how == 'other-table':
            names_b = {c['name'] for c in tb['columns']}
            pool = sorted({c['name'] for t in tables for c in t['columns']} - names_b)
            if not pool:
                return None
            bad = [rng.choice(pool)]
        elif how == 'composite':
            if len(ta['columns']) < 2:
                ta['columns'].append(_col('zz_second'))
            good2 = [c['name'] for c in ta['columns'] if c['name'] != good_a][0]
            bad = [rng.choice(tb['columns'])['name'], 'zz_nocol']
            rng.shuffle(bad)
            good = [good_a, good2]
        else:
            bad = [rng.choice(['zz_nocol', 'zz no col'])]
        if how != 'composite':
            good = [good_a]
        if end == 'c2':
            r = _ref(_key(ta), good, _key(tb), bad)
        else:
            r = _ref(_key(tb), bad, _key(ta), good)
        r['type'] = rng.choice(['>', '<', '-'])
        if form == 'inline':
            r['inline'] = True
        else:
            r['_form'] = form
        _at(m['refs'], r, position, rng)

    elif rule == 'missing-column@index':
        t = rng.choice(tables)
        if variant == 'other-table':
            pool = sorted({c['name'] for x in tables for c in x['columns']} - {c['name'] for c in t['columns']})
            if not pool:
                return None
            subjects = [{'col': rng.choice(pool)}]
        elif variant == 'composite':
            subjects = [{'col': rng.choice(t['columns'])['name']}, {'col': 'zz_nocol'}]
            rng.shuffle(subjects)
        else:
            subjects = [{'col': rng.choice(['zz_nocol', 'zz no col'])}]
        ix = {'subjects': subjects, 'name': None, 'unique': rng.random() < 0.3, 'type': None, 'pk': False, 'note': None,
              'comment': None}
        _at(t['indexes'], ix, position, rng)
    else:
        raise ValueError(rule)
    return m, plan


# ------------------------------------------------------------------ obligation

def build(recipe) -> Optional[Tuple[Dict[str, Any], str, str]]:
    """(base model, base text, injected text) or None when the combination does not apply."""
    mseed, size, allow, spseed = recipe['base']
    m = random_model(random.Random(mseed), size, bool(allow))
    rng = random.Random(recipe['inj'])
    got = inject(m, recipe['rule'], recipe['variant'], recipe['position'], rng)
    if got is None:
        return None
    m2, plan = got
    try:
        text = write(m2, spseed, plan)
    except SurfaceError:
        return None
    return m, m2, text


def parse(text: str, allow: bool):
    from pydbml import PyDBML
    return PyDBML(text, allow_properties=True) if allow else PyDBML(text)


def expected_class(rule: str):
    import pydbml.exceptions as X
    name = EXPECT[rule]
    return SyntaxError if name == 'SyntaxError' else getattr(X, name)


class RulesRejected(BObl):
    id = 'C06.B.rules'
    property = 'C06'
    rule = ('seeded well-formed base schemas (spec/gen.py, tiny/small, every 4th with properties) x injected violation: '
            f'{len(COMBOS) // 3} (rule, variant) pairs x position start/middle/end of the offending declaration in its list '
            '(both orders of the two clashing declarations), spelled by surface() with a seeded spelling (quoting, case, '
            'addressing bare/qualified/alias, short/block/inline forms, settings layout).  Each base takes a rotating '
            'window of the combinations, so every combination is exercised on many bases in every run.  Oracle: the '
            'exception class of the violated rule (isinstance), from the statement.  Non-trivial = the combination applies '
            'to the base (e.g. an aliased table exists).')
    bound = ('quick: 200 bases x 30 combinations (of %d); thorough: 5000 bases x 30; <= 4 tables, <= 4 columns' % len(COMBOS))
    budget = {'quick': 25.0, 'thorough': 900.0}
    chunk = 30
    per_base = 30

    def cases(self, tier, seed):
        n = {'quick': 200, 'thorough': 5000}.get(tier, 200)
        rng = random.Random(seed * 104729 + 6)
        L = len(COMBOS)
        for i in range(n):
            base = [rng.randrange(10 ** 9), ('tiny', 'small', 'small')[i % 3], i % 4 == 3, rng.randrange(10 ** 6)]
            start = (i * self.per_base) % L
            for j in range(self.per_base):
                rule, variant, position = COMBOS[(start + j) % L]
                yield {'base': base, 'rule': rule, 'variant': variant, 'position': position, 'inj': rng.randrange(10 ** 6)}

    def nontrivial(self, recipe):
        return build(recipe) is not None

    def check(self, recipe) -> Optional[Tuple[str, str]]:
        got = build(recipe)
        if got is None:
            return None
        m, m2, text = got
        allow = m['allow_properties']
        rule = recipe['rule']
        E = expected_class(rule)
        outcome = None
        try:
            parse(text, allow)
        except BaseException as e:
            if isinstance(e, (KeyboardInterrupt, SystemExit)):
                raise
            if isinstance(e, E):
                return None
            outcome = e
        # a base document that is refused by itself is C01's business, not this rule's
        try:
            parse(write(m, recipe['base'][3]), allow)
        except BaseException as e0:
            if isinstance(e0, (KeyboardInterrupt, SystemExit)):
                raise
            return None
        where = f'{rule} [{recipe["variant"]}, {recipe["position"]}]'
        shown = _excerpt(text)
        if outcome is None:
            return (f'accepted:{rule}', f'{where}: a Database was returned; expected {EXPECT[rule]} | document: {shown!r}')
        return (f'wrong-error:{rule}:{type(outcome).__name__}',
                f'{where}: raised {type(outcome).__name__}: {str(outcome)[:120]}; expected {EXPECT[rule]} | document: {shown!r}')


def _excerpt(text: str, width: int = 460) -> str:
    """The part of the document around the injected names (they all start with zz), else its head."""
    i = text.find('zz')
    if i < 0 or len(text) <= width:
        return text[:width]
    lo = max(0, i - width // 3)
    return ('...' if lo else '') + text[lo:lo + width] + ('...' if lo + width < len(text) else '')


OBLIGATIONS = [RulesRejected()]
