"""C09 -- the container stays consistent under any sequence of add, delete and rename.

Run-time contract around every call of a history of container operations on a real
Database (C09.B.history) and on a real Table (C09.B.table-level).  The reference model is
written from the property statement: ordered list of contained tables, current names,
sets of the other contained objects, the project slot.  Where the statement leaves the
outcome open (deleting by an equal-but-not-identical object, adding the same sticky note
twice, generic delete of a sticky note, a rename that makes two contained tables clash)
the model accepts either outcome as long as the result is consistent.
"""
from __future__ import annotations

import itertools
import random
from typing import Any, Dict, List, Optional, Tuple

from lib.bounded import BObl
from bounded._api_models import short, exc_name


# ======================================================================================
# database level
# ======================================================================================

TABLES = ['T0', 'T1', 'T2', 'T3', 'T4', 'T5']
REFS = ['R0', 'R1', 'R2']
ENUMS = ['E0', 'E1', 'E2']
GROUPS = ['G0', 'G1', 'G2']
NOTES = ['N0', 'N1']
PROJECTS = ['P0', 'P1']
UNSUPPORTED = ['X0', 'X1']

KIND = {}
for _k in TABLES:
    KIND[_k] = 'table'
for _k in REFS:
    KIND[_k] = 'reference'
for _k in ENUMS:
    KIND[_k] = 'enum'
for _k in GROUPS:
    KIND[_k] = 'table_group'
for _k in NOTES:
    KIND[_k] = 'sticky_note'
for _k in PROJECTS:
    KIND[_k] = 'project'
for _k in UNSUPPORTED:
    KIND[_k] = 'unsupported'

# model-level initial names: schema, name, alias
INIT_NAMES = {
    'T0': ['public', 'a', None],
    'T1': ['public', 'b', 'bb'],
    'T2': ['public', 'a', None],      # shares its full name with T0, different content
    'T3': ['s', 'c', 'bb'],           # shares its alias with T1
    'T4': ['public', 'b', 'bb'],      # equal copy of T1
    'T5': ['s', 'd', None],
}
REF_TABLES = {'R0': ['T0', 'T1'], 'R1': ['T3', 'T5'], 'R2': ['T0', 'T1']}
# structural content classes (columns): tables of the same class are equal objects whenever their
# schema, name and alias coincide (T4 is that from the start, the others can become so by renames)
CONTENT = {'T0': 'A', 'T1': 'A', 'T3': 'A', 'T4': 'A', 'T2': 'B', 'T5': 'C'}
REF_COLS = {'R0': (('T0', 'x'), ('T1', 'id')), 'R1': (('T3', 'x'), ('T5', 'id')), 'R2': (('T0', 'x'), ('T1', 'id'))}
ENUM_NAMES = {'E0': ('public', 'e'), 'E1': ('s', 'f'), 'E2': ('public', 'e')}
GROUP_NAMES = {'G0': 'g', 'G1': 'h', 'G2': 'g'}

SPECIFIC_ADD = {'table': 'add_table', 'reference': 'add_reference', 'enum': 'add_enum',
                'table_group': 'add_table_group', 'sticky_note': 'add_sticky_note', 'project': 'add_project'}
SPECIFIC_DEL = {'table': 'delete_table', 'reference': 'delete_reference', 'enum': 'delete_enum',
                'table_group': 'delete_table_group'}


def make_universe():
    from pydbml.database import Database
    from pydbml.classes import (Table, Column, Enum, EnumItem, Reference, Project, TableGroup, StickyNote)
    u: Dict[str, Any] = {}

    def tbl(key, cols):
        schema, name, alias = INIT_NAMES[key]
        t = Table(name=name, schema=schema, alias=alias)
        for cn, ct in cols:
            t.add_column(Column(cn, ct))
        u[key] = t
        return t

    tbl('T0', [('id', 'int'), ('x', 'int')])
    tbl('T1', [('id', 'int'), ('x', 'int')])
    tbl('T2', [('id', 'int'), ('y', 'varchar')])
    tbl('T3', [('id', 'int'), ('x', 'int')])
    tbl('T4', [('id', 'int'), ('x', 'int')])
    tbl('T5', [('id', 'int')])
    u['R0'] = Reference('>', u['T0']['x'], u['T1']['id'])
    u['R1'] = Reference('>', u['T3']['x'], u['T5']['id'])
    u['R2'] = Reference('>', u['T0']['x'], u['T1']['id'])
    u['E0'] = Enum('e', [EnumItem('a'), EnumItem('b')])
    u['E1'] = Enum('f', ['x'], schema='s')
    u['E2'] = Enum('e', ['z'])
    u['G0'] = TableGroup('g', [u['T0']])
    u['G1'] = TableGroup('h', [u['T1'], u['T3']])
    u['G2'] = TableGroup('g', [u['T5']])
    u['N0'] = StickyNote('n0', 'first')
    u['N1'] = StickyNote('n1', 'second')
    u['P0'] = Project('p0', items={'k': 'v'})
    u['P1'] = Project('p1')
    u['X0'] = 'public.a'
    u['X1'] = Column('free', 'int')
    u['db'] = Database()
    return u


def universe_snapshot(u) -> List[Any]:
    db = u['db']
    snap: List[Any] = [
        [id(t) for t in db.tables],
        sorted((k, id(v)) for k, v in db.table_dict.items()),
        [id(r) for r in db.refs], [id(e) for e in db.enums], [id(g) for g in db.table_groups],
        [id(n) for n in db.sticky_notes], id(db.project) if db.project is not None else None,
    ]
    for key in TABLES + REFS + ENUMS + GROUPS + NOTES + PROJECTS:
        o = u[key]
        d = o.database
        snap.append((key, id(d) if d is not None else None))
    for key in TABLES:
        t = u[key]
        snap.append((key, t.schema, t.name, t.alias, [id(c) for c in t.columns], [id(c.table) for c in t.columns],
                     [id(i) for i in t.indexes]))
    for key in REFS:
        r = u[key]
        snap.append((key, [id(c) for c in r.col1], [id(c) for c in r.col2]))
    for key in GROUPS:
        snap.append((key, [id(t) for t in u[key].items]))
    return snap


class DbModel:
    def __init__(self):
        self.tables: List[str] = []
        self.refs: List[str] = []
        self.enums: List[str] = []
        self.groups: List[str] = []
        self.notes: List[str] = []
        self.project: Optional[str] = None
        self.names = {k: list(v) for k, v in INIT_NAMES.items()}
        self.renamed = {k: set() for k in TABLES}     # attrs renamed while contained (kept after removal)
        self.pool = set()
        for s, n, a in INIT_NAMES.values():
            self.pool.add(f'{s}.{n}')
            if a:
                self.pool.add(a)

    def clone(self) -> 'DbModel':
        c = DbModel.__new__(DbModel)
        c.tables, c.refs, c.enums, c.groups, c.notes = (list(self.tables), list(self.refs), list(self.enums),
                                                        list(self.groups), list(self.notes))
        c.project = self.project
        c.names = {k: list(v) for k, v in self.names.items()}
        c.renamed = {k: set(v) for k, v in self.renamed.items()}
        c.pool = set(self.pool)
        return c

    def full(self, k):
        return f'{self.names[k][0]}.{self.names[k][1]}'

    def alias(self, k):
        return self.names[k][2]

    def holders(self, name) -> List[str]:
        return [k for k in self.tables if self.full(k) == name or (self.alias(k) and self.alias(k) == name)]

    def lst(self, kind) -> List[str]:
        return {'table': self.tables, 'reference': self.refs, 'enum': self.enums, 'table_group': self.groups,
                'sticky_note': self.notes}[kind]

    def ref_sig(self, key):
        return tuple((self.full(t), c) for t, c in REF_COLS[key])

    def eq_contained(self, key) -> List[str]:
        """Contained objects that are equal in content to, but not identical with, `key`."""
        kind = KIND[key]
        if kind == 'table':
            return [o for o in self.tables if o != key and CONTENT[o] == CONTENT[key] and self.names[o] == self.names[key]]
        if kind == 'reference':
            return [o for o in self.refs if o != key and self.ref_sig(o) == self.ref_sig(key)]
        return []

    def expect(self, op) -> Tuple[str, Any]:
        """('ok'|'reject'|'either', effect) -- effect is applied when the call returns normally."""
        verb = op[0]
        if verb == 'ren':
            _, key, attr, val = op
            new = list(self.names[key])
            new[{'schema': 0, 'name': 1, 'alias': 2}[attr]] = val
            clash = False
            if key in self.tables:
                nf, na = f'{new[0]}.{new[1]}', new[2]
                for o in self.tables:
                    if o == key:
                        continue
                    theirs = {self.full(o)} | ({self.alias(o)} if self.alias(o) else set())
                    if nf in theirs or (na and na in theirs):
                        clash = True
            return ('either' if clash else 'ok'), ('ren', key, attr, val)
        key = op[1]
        kind = KIND.get(key, 'project')
        if verb in ('add', 'addx'):
            if kind == 'unsupported':
                return 'reject', None
            if kind == 'table':
                if key in self.tables:
                    return 'reject', None
                f, a = self.full(key), self.alias(key)
                cross = False
                for o in self.tables:
                    if self.full(o) == f:
                        return 'reject', None
                    if a and self.alias(o) == a:
                        return 'reject', None
                    if (a and self.full(o) == a) or (self.alias(o) and self.alias(o) == f):
                        cross = True
                return ('either' if cross else 'ok'), ('append', 'table', key)
            if kind == 'reference':
                if key in self.refs:
                    return 'reject', None
                if not any(t in self.tables for t in REF_TABLES[key]):
                    return 'reject', None
                eq = self.eq_contained(key)
                if any(REF_COLS[o] == REF_COLS[key] for o in eq):      # same relationship between the same columns
                    return 'reject', None
                # equal only because differently-owned columns currently carry the same table name: open
                return ('either' if eq else 'ok'), ('append', kind, key)
            if kind == 'enum':
                if any(ENUM_NAMES[e] == ENUM_NAMES[key] for e in self.enums):
                    return 'reject', None
                return 'ok', ('append', kind, key)
            if kind == 'table_group':
                if any(GROUP_NAMES[g] == GROUP_NAMES[key] for g in self.groups):
                    return 'reject', None
                return 'ok', ('append', kind, key)
            if kind == 'sticky_note':
                return ('either' if key in self.notes else 'ok'), ('append', kind, key)
            if kind == 'project':
                return 'ok', ('project', key)
        if verb in ('del', 'delx'):
            if key == 'P':     # delete_project()
                return ('ok', ('project', None)) if self.project is not None else ('reject', None)
            if kind == 'unsupported':
                return 'reject', None
            if kind == 'project':
                return ('ok', ('project', None)) if self.project == key else ('reject', None)
            if kind == 'sticky_note':
                return ('either', ('remove', kind, key)) if key in self.notes else ('reject', None)
            lst = self.lst(kind)
            if key in lst:
                # delete looks the object up by equality (list.index): when an equal object is contained as well
                # (possible after a rename made two tables alike), either of them may be the one removed
                twins = self.eq_contained(key) if kind in ('table', 'reference') else []
                if twins:
                    return 'either', [('remove', kind, c) for c in [key] + twins]
                return 'ok', ('remove', kind, key)
            eq = self.eq_contained(key)
            if eq:
                return 'either', [('remove', kind, c) for c in eq]
            return 'reject', None
        raise ValueError(op)

    def apply(self, effect):
        if effect is None:
            return
        what = effect[0]
        if what == 'ren':
            _, key, attr, val = effect
            self.names[key][{'schema': 0, 'name': 1, 'alias': 2}[attr]] = val
            if key in self.tables:
                self.renamed[key].add(attr)
            self.pool.add(self.full(key))
            if self.alias(key):
                self.pool.add(self.alias(key))
        elif what == 'append':
            _, kind, key = effect
            self.lst(kind).append(key)
            if kind == 'table':
                self.renamed[key] = set()
        elif what == 'remove':
            _, kind, key = effect
            self.lst(kind).remove(key)
        elif what == 'project':
            self.project = effect[1]


def op_label(op) -> str:
    if op[0] == 'ren':
        return f'rename:{op[2]}'
    verb = 'add' if op[0] in ('add', 'addx') else 'delete'
    key = op[1]
    return f'{verb}:{KIND.get(key, "project")}'


def call_op(u, op):
    db = u['db']
    verb = op[0]
    if verb == 'ren':
        _, key, attr, val = op
        setattr(u[key], attr, val)
        return None
    key = op[1]
    if verb == 'add':
        return db.add(u[key])
    if verb == 'del':
        return db.delete(u[key])
    kind = KIND.get(key, 'project')
    if verb == 'addx':
        return getattr(db, SPECIFIC_ADD[kind])(u[key])
    if verb == 'delx':
        if key == 'P':
            return db.delete_project()
        return getattr(db, SPECIFIC_DEL[kind])(u[key])
    raise ValueError(op)


def rename_attr_for(m: DbModel, key: str, by: str) -> Optional[str]:
    r = m.renamed.get(key, set())
    if not r:
        return None
    if by == 'alias':
        return 'alias' if 'alias' in r else None
    if 'name' in r:
        return 'name'
    if 'schema' in r:
        return 'schema'
    return None


def check_db_invariants(u, m: DbModel) -> List[Tuple[str, str, bool]]:
    """List of (key, message, soft).  soft = lookup failure attributable to a rename."""
    db = u['db']
    out: List[Tuple[str, str, bool]] = []
    want = [u[k] for k in m.tables]
    try:
        got_iter = list(db)
        got_pos = [db[i] for i in range(len(want))]
        extra = None
        try:
            extra = db[len(want)]
        except Exception:
            pass
        if len(got_iter) != len(want) or any(a is not b for a, b in zip(got_iter, want)):
            out.append(('contents:table', f'iteration lists {got_iter!r}, expected {want!r}', False))
        elif any(a is not b for a, b in zip(got_pos, want)) or extra is not None:
            out.append(('contents:table', f'positional lookup lists {got_pos!r} (+{extra!r}), expected {want!r}', False))
    except Exception as e:
        out.append(('contents:table', f'iteration/positional lookup raised {exc_name(e)}: {e}', False))
    if out:
        return out
    # lookups under current names
    for k in m.tables:
        for by, name in (('name', m.full(k)), ('alias', m.alias(k))):
            if not name:
                continue
            holders = m.holders(name)
            try:
                got = db[name]
                ok = any(got is u[h] for h in holders)
                obs = f'returned {got!r}'
            except Exception as e:
                ok = False
                obs = f'raised {exc_name(e)}'
            if not ok:
                attr = rename_attr_for(m, k, by)
                if attr:
                    out.append((f'rename-stale-index:{attr}',
                                f'db[{name!r}] {obs}; expected the contained table {k} whose current '
                                f'{"alias" if by == "alias" else "full name"} that is (renamed {sorted(m.renamed[k])} while contained)',
                                True))
                else:
                    out.append((f'lookup:{by}', f'db[{name!r}] {obs}; expected contained table {k}', False))
    # names nobody holds now must find nothing
    for name in sorted(m.pool):
        if m.holders(name):
            continue
        try:
            got = db[name]
        except Exception:
            continue
        who = [k for k in TABLES if u[k] is got]
        k = who[0] if who else None
        attr = None
        if k is not None:
            r = m.renamed.get(k, set())
            if '.' not in name:      # aliases of the universe contain no dot, full names always do
                attr = 'alias' if 'alias' in r else None
            else:
                attr = 'name' if 'name' in r else ('schema' if 'schema' in r else None)
        if attr:
            out.append((f'rename-stale-index:{attr}',
                        f'db[{name!r}] still finds {got!r} ({k}) although no contained table currently has that '
                        f'{"alias" if "." not in name else "full name"}', True))
        else:
            out.append(('lookup-finds-absent', f'db[{name!r}] returned {got!r} ({k}); no contained table has that name', False))
    # back-pointers
    contained = set(m.tables) | set(m.refs) | set(m.enums) | set(m.groups) | set(m.notes)
    if m.project:
        contained.add(m.project)
    for key in TABLES + REFS + ENUMS + GROUPS + NOTES + PROJECTS:
        d = u[key].database
        if key in contained:
            if d is not db:
                out.append((f'backpointer:{KIND[key]}', f'{key} is contained but its .database is {d!r}', False))
        elif d is not None:
            out.append((f'backpointer:{KIND[key]}', f'{key} is not contained but its .database is {d!r}', False))
    # other lists
    for kind, real in (('reference', db.refs), ('enum', db.enums), ('table_group', db.table_groups),
                       ('sticky_note', db.sticky_notes)):
        wantl = sorted(id(u[k]) for k in m.lst(kind))
        gotl = sorted(id(o) for o in real)
        if wantl != gotl:
            out.append((f'contents:{kind}', f'{kind}s are {list(real)!r}, expected {m.lst(kind)!r}', False))
    wp = u[m.project] if m.project else None
    if db.project is not wp:
        out.append(('contents:project', f'project is {db.project!r}, expected {m.project!r}', False))
    return out


def run_db_history(history) -> Optional[Tuple[str, str]]:
    from pydbml.exceptions import DatabaseValidationError
    u = make_universe()
    m = DbModel()
    soft: Optional[Tuple[str, str]] = None
    done: List[Any] = []

    def fail(key, msg):
        text = f'{msg}; history so far: {done!r}'
        return key, short(text, 600)

    def hard(key, msg):
        # after a contained table has been renamed (name index not maintained), later failures are
        # consequences of that: they are folded into the rename keys / a small set of after-rename keys
        if soft is not None:
            return soft[0], short(soft[1] + f' | later: [{key}] {msg}', 600)
        table_related = (key.startswith('lookup') or key in ('contents:table', 'backpointer:table')
                         or ':table' in key)
        if table_related and any(m.renamed[k] for k in TABLES):
            cls = key.split(':')[0]
            cls = ('lookup' if cls.startswith('lookup') else
                   'add' if ':add:' in key + ':' else 'delete' if ':delete:' in key + ':' else 'other')
            return fail(f'after-rename:{cls}', f'[{key}] {msg} (tables renamed while contained: '
                        f'{ {k: sorted(v) for k, v in m.renamed.items() if v} })')
        return fail(key, msg)

    for op in history:
        done.append(op)
        label = op_label(op)
        exp, effect = m.expect(op)
        before = universe_snapshot(u)
        try:
            call_op(u, op)
            exc = None
        except Exception as e:
            exc = e
        if exc is not None:
            changed = universe_snapshot(u) != before
            if exp == 'ok':
                key = op[1]
                if (label == 'delete:table' and isinstance(exc, KeyError) and m.renamed.get(key)):
                    return fail('delete-after-rename-keyerror',
                                f'deleting contained table {key} after renaming its {sorted(m.renamed[key])} raised '
                                f'KeyError({exc}); list and name index now disagree: tables={u["db"].tables!r} '
                                f'table_dict keys={sorted(u["db"].table_dict)!r}')
                if label == 'add:table' and isinstance(exc, DatabaseValidationError) and any(m.renamed[k] for k in TABLES):
                    return fail('add-after-rename-stale-clash',
                                f'adding {key} ({m.full(key)!r}, alias {m.alias(key)!r}) was rejected ({exc}) although no '
                                f'contained table currently has that name or alias (stale entry after a rename)')
                return hard(f'accepted-op-raised:{label}:{exc_name(exc)}',
                            f'{op!r} must succeed but raised {exc_name(exc)}: {exc}')
            if not isinstance(exc, DatabaseValidationError):
                return hard(f'rejected-op-wrong-exception:{label}:{exc_name(exc)}',
                            f'{op!r} must raise DatabaseValidationError, raised {exc_name(exc)}: {exc}')
            if changed:
                return hard(f'rejected-op-mutated:{label}', f'{op!r} raised {exc_name(exc)} but changed the database/universe')
            continue
        # returned normally
        if exp == 'reject':
            if label == 'delete:project' and op[1] != 'P' and m.project is not None and m.project != op[1]:
                return hard('delete-absent-project-removes-current',
                            f'delete({op[1]}) where the database project is {m.project}: expected DatabaseValidationError '
                            f'(object absent), but the call returned and project is now {u["db"].project!r}')
            return hard(f'rejected-op-accepted:{label}', f'{op!r} must raise DatabaseValidationError but returned normally')
        effs = effect if isinstance(effect, list) else [effect]
        problems = []
        for cand in effs:
            trial = m.clone()
            trial.apply(cand)
            problems = check_db_invariants(u, trial)
            if not any(not sft for _, _, sft in problems) or cand is effs[-1]:
                m = trial
                break
        for key, msg, is_soft in problems:
            if is_soft:
                if soft is None:
                    soft = fail(key, msg)
            else:
                return hard(key, msg)
    return soft


def adds(keys, specific=False):
    return [['addx' if specific else 'add', k] for k in keys]


def dels(keys, specific=False):
    return [['delx' if specific else 'del', k] for k in keys]


CORE_OPS: List[Any] = (
    adds(TABLES + REFS + ENUMS + GROUPS + ['N0'] + PROJECTS + ['X0'])
    + dels(TABLES + ['R0', 'R2', 'E0', 'E2', 'G0', 'G2', 'N0'] + PROJECTS + ['X0'])
    + [['delx', 'P']]
    + adds(['T0', 'T1', 'T3', 'R0', 'E0', 'G0', 'P0'], specific=True)
    + dels(['T0', 'T1', 'R0', 'E0', 'G0'], specific=True)
    + [['ren', 'T5', 'alias', 'bb'], ['ren', 'T2', 'name', 'q'],
       ['ren', 'T0', 'name', 'z0'], ['ren', 'T0', 'schema', 's2'], ['ren', 'T0', 'alias', 'y0'],
       ['ren', 'T1', 'alias', 'y1'], ['ren', 'T1', 'alias', None], ['ren', 'T1', 'name', 'z1'],
       ['ren', 'T3', 'alias', 'y3'], ['ren', 'T4', 'name', 'z4'], ['ren', 'T2', 'schema', 's2']]
)

FULL_OPS: List[Any] = (
    adds(TABLES + REFS + ENUMS + GROUPS + NOTES + PROJECTS + UNSUPPORTED)
    + adds(TABLES + REFS + ENUMS + GROUPS + NOTES + PROJECTS, specific=True)
    + dels(TABLES + REFS + ENUMS + GROUPS + NOTES + PROJECTS + UNSUPPORTED)
    + dels(TABLES + REFS + ENUMS + GROUPS + ['P'], specific=True)
    + [['ren', t, 'name', f'z{t[1]}'] for t in TABLES]
    + [['ren', t, 'schema', 's2'] for t in TABLES]
    + [['ren', t, 'alias', f'y{t[1]}'] for t in TABLES]
    + [['ren', t, 'alias', None] for t in TABLES]
    + [['ren', 'T0', 'name', 'b'], ['ren', 'T5', 'alias', 'bb'], ['ren', 'T2', 'name', 'a'], ['ren', 'T4', 'name', 'b']]
)

SMALL_OPS: List[Any] = (
    adds(['T0', 'T1', 'T2', 'T3', 'T4', 'R0', 'R2', 'E0', 'E2', 'G0', 'P0', 'P1'])
    + dels(['T0', 'T1', 'T4', 'R0', 'R2', 'E0', 'G0', 'P1'])
    + [['ren', 'T0', 'name', 'z0'], ['ren', 'T1', 'alias', 'y1'], ['ren', 'T1', 'alias', None],
       ['ren', 'T0', 'schema', 's2'], ['ren', 'T4', 'name', 'z4']]
)


def product_upto(ops, depth):
    for d in range(1, depth + 1):
        for h in itertools.product(ops, repeat=d):
            yield list(h)


class DbHistory(BObl):
    id = 'C09.B.history'
    property = 'C09'
    chunk = 512
    rule = ('histories of add/delete (generic and specific methods) of tables, references, enums, groups, sticky '
            'notes, projects, an unsupported object, and renames (name/schema/alias by assignment) of tables, on one '
            'fresh Database; universe: 6 tables (two sharing a full name, two sharing an alias, one equal copy), '
            '3 references (one equal copy), 3 enums and 3 groups (one name clash each), 2 notes, 2 projects; after '
            'every call the model-based contract is evaluated (list/iteration/positional lookup, lookup under current '
            'and stale names, back-pointers, other lists, exception class, rejected calls leave a deep identity '
            'snapshot unchanged); non-trivial = at least one call succeeds')
    bound = ('quick: exhaustive over all histories of depth<=3 on a 59-op core alphabet (205k) and depth<=2 on the full '
             '105-op alphabet (11k), + 3000 seeded histories of depth 4..30; thorough: depth<=3 on the full alphabet '
             '(1.17M), depth 4 on a 25-op alphabet (390k), + 40000 seeded')
    budget = {'quick': 22.0, 'thorough': 280.0}

    def cases(self, tier, seed):
        if tier == 'quick':
            yield from product_upto(FULL_OPS, 2)
            for h in itertools.product(CORE_OPS, repeat=3):
                yield list(h)
            n = 3000
        else:
            yield from product_upto(FULL_OPS, 3)
            for h in itertools.product(SMALL_OPS, repeat=4):
                yield list(h)
            n = 40000
        rnd = random.Random(f'c09-history-{seed}')
        addops = [o for o in FULL_OPS if o[0] in ('add', 'addx')]
        delops = [o for o in FULL_OPS if o[0] in ('del', 'delx')]
        renops = [o for o in FULL_OPS if o[0] == 'ren']
        for _ in range(n):
            ln = rnd.randint(4, 30)
            h = []
            for _i in range(ln):
                x = rnd.random()
                pool = addops if x < 0.45 else (delops if x < 0.75 else renops)
                h.append(rnd.choice(pool))
            yield h

    def exhaustive(self, tier):
        return False      # the exhaustive prefix is complete, the seeded tail is a sample

    def check(self, recipe):
        return run_db_history(recipe)

    def nontrivial(self, recipe):
        m = DbModel()
        for op in recipe:
            exp, eff = m.expect(op)
            if exp != 'reject' and op[0] != 'ren':
                return True
            if exp != 'reject':
                m.apply(eff[0] if isinstance(eff, list) else eff)
        return False


# ======================================================================================
# table level
# ======================================================================================

COLS = ['c0', 'c1', 'c2', 'c3', 'c4', 'c5']
IDXS = ['i0', 'i1', 'i2', 'i3', 'i4', 'i5', 'i6']
IDX_COLS = {'i0': ['c0'], 'i1': ['c1'], 'i2': ['c0'], 'i3': ['c4'], 'i4': ['c2'], 'i5': [], 'i6': ['c3']}
COL_TYPES = {'c0': 'int', 'c1': 'int', 'c2': 'text', 'c3': 'int', 'c4': 'int', 'c5': 'varchar'}
IDX_EXTRA = {'i0': '', 'i1': 'expr+name', 'i2': '', 'i3': '', 'i4': '', 'i5': 'str', 'i6': ''}   # non-column content
INIT_COLNAMES = {'c0': 'id', 'c1': 'x', 'c2': 'y', 'c3': 'id', 'c4': 'id', 'c5': 'id'}
OWNED_ELSEWHERE = {'c3': 'U', 'c4': 'V'}


def make_table_universe():
    from pydbml.classes import Table, Column, Index, Expression
    u: Dict[str, Any] = {}
    u['c0'] = Column('id', 'int')
    u['c1'] = Column('x', 'int')
    u['c2'] = Column('y', 'text')
    u['c3'] = Column('id', 'int')       # equal copy of c0 (lives in another table with the same full name)
    u['c4'] = Column('id', 'int')       # column of a different table
    u['c5'] = Column('id', 'varchar')   # free column with the name of c0
    T = Table('t')
    T.add_column(u['c0'])
    T.add_column(u['c1'])
    U = Table('t')
    U.add_column(u['c3'])
    V = Table('v')
    V.add_column(u['c4'])
    u['T'], u['U'], u['V'] = T, U, V
    u['i0'] = Index([u['c0']])
    u['i1'] = Index([u['c1'], Expression('x*2')], name='ix1')
    u['i2'] = Index([u['c0']])          # equal copy of i0
    u['i3'] = Index([u['c4']])          # over a foreign column
    u['i4'] = Index([u['c2']])          # foreign unless c2 has been added
    u['i5'] = Index(['id'])             # string subject only
    u['i6'] = Index([u['c3']])          # over an equal copy living elsewhere
    T.add_index(u['i0'])
    u['str'] = 'id'
    return u


def table_snapshot(u) -> List[Any]:
    snap: List[Any] = []
    for k in ('T', 'U', 'V'):
        t = u[k]
        snap.append((k, [id(c) for c in t.columns], [id(i) for i in t.indexes]))
    for k in COLS:
        c = u[k]
        snap.append((k, c.name, id(c.table) if c.table is not None else None))
    for k in IDXS:
        i = u[k]
        snap.append((k, id(i.table) if i.table is not None else None, [id(s) for s in i.subjects]))
    return snap


class TblModel:
    def __init__(self):
        self.cols = ['c0', 'c1']
        self.idxs = ['i0']
        self.names = dict(INIT_COLNAMES)
        self.dup = False       # an identical object has been accepted twice

    def expect(self, op):
        verb, arg = op[0], op[1]
        if verb == 'renc':
            return 'ok', ('renc', arg, op[2])
        if verb == 'addc':
            if arg not in COLS:
                return 'reject', None
            if arg in self.cols:
                return 'double', ('appendc', arg)
            return 'ok', ('appendc', arg)
        if verb == 'addi':
            if arg not in IDXS:
                return 'reject', None
            if any(c not in self.cols for c in IDX_COLS[arg]):
                return 'reject-foreign', None
            if arg in self.idxs:
                return 'double', ('appendi', arg)
            return 'ok', ('appendi', arg)
        if verb == 'delc':
            if arg not in COLS:
                return 'unchanged', None       # wrong type: must not change anything; raising not demanded
            if arg in self.cols:
                return 'ok', ('removec', arg)
            if arg == 'c3' and 'c0' in self.cols and self.names['c0'] == self.names['c3']:
                return 'either', ('removec', 'c0')
            return 'reject', None
        if verb == 'deli':
            if arg not in IDXS:
                return 'unchanged', None
            others = [o for o in dict.fromkeys(self.idxs) if o != arg and self.idx_equal(o, arg)]
            if arg in self.idxs:
                if others:      # equal indexes listed next to it: removing any one of them is consistent
                    return 'ok-eq', [('removei', arg)] + [('removei', o) for o in others]
                return 'ok', ('removei', arg)
            if others:
                return 'either', [('removei', o) for o in others]
            return 'reject', None
        if verb == 'delc#':
            return ('ok', ('popc', arg)) if 0 <= arg < len(self.cols) else ('reject', None)
        if verb == 'deli#':
            return ('ok', ('popi', arg)) if 0 <= arg < len(self.idxs) else ('reject', None)
        raise ValueError(op)

    def col_sig(self, k):
        owner = 'public.t' if (k in self.cols or k == 'c3') else ('public.v' if k == 'c4' else None)
        return (owner, self.names[k], COL_TYPES[k])

    def idx_equal(self, a, b) -> bool:
        if IDX_EXTRA[a] != IDX_EXTRA[b] or len(IDX_COLS[a]) != len(IDX_COLS[b]):
            return False
        return all(x == y or self.col_sig(x) == self.col_sig(y) for x, y in zip(IDX_COLS[a], IDX_COLS[b]))

    def apply(self, eff):
        if eff is None:
            return
        w = eff[0]
        if w == 'renc':
            self.names[eff[1]] = eff[2]
        elif w == 'appendc':
            self.cols.append(eff[1])
        elif w == 'appendi':
            self.idxs.append(eff[1])
        elif w == 'removec':
            self.cols.remove(eff[1])
        elif w == 'removei':
            self.idxs.remove(eff[1])
        elif w == 'popc':
            self.cols.pop(eff[1])
        elif w == 'popi':
            self.idxs.pop(eff[1])


def call_table_op(u, op):
    T = u['T']
    verb, arg = op[0], op[1]
    if verb == 'renc':
        u[arg].name = op[2]
        return
    if verb == 'addc':
        return T.add_column(u[arg])
    if verb == 'addi':
        return T.add_index(u[arg])
    if verb == 'delc':
        return T.delete_column(u[arg])
    if verb == 'deli':
        return T.delete_index(u[arg])
    if verb == 'delc#':
        return T.delete_column(arg)
    if verb == 'deli#':
        return T.delete_index(arg)
    raise ValueError(op)


TBL_LABEL = {'addc': 'add_column', 'addi': 'add_index', 'delc': 'delete_column', 'deli': 'delete_index',
             'delc#': 'delete_column(pos)', 'deli#': 'delete_index(pos)', 'renc': 'rename_column'}


def check_table_invariants(u, m: TblModel) -> Optional[Tuple[str, str]]:
    T = u['T']
    want = [u[k] for k in m.cols]
    got = list(T.columns)
    if len(got) != len(want) or any(a is not b for a, b in zip(got, want)):
        return 'contents:columns', f'T.columns is {got!r}, expected {m.cols!r}'
    try:
        it = list(T)
        pos = [T[i] for i in range(len(want))]
    except Exception as e:
        return 'lookup:position', f'iteration / T[i] raised {exc_name(e)}: {e}'
    if any(a is not b for a, b in zip(it, want)) or len(it) != len(want) or any(a is not b for a, b in zip(pos, want)):
        return 'lookup:position', f'iteration {it!r} / positional {pos!r} differ from {m.cols!r}'
    wanti = [u[k] for k in m.idxs]
    goti = list(T.indexes)
    if len(goti) != len(wanti) or any(a is not b for a, b in zip(goti, wanti)):
        return 'contents:indexes', f'T.indexes is {goti!r}, expected {m.idxs!r}'
    for k in COLS:
        c = u[k]
        if k in m.cols:
            if c.table is not T:
                return 'backpointer:column', f'{k} is listed in T.columns but its .table is {c.table!r}'
        elif k in OWNED_ELSEWHERE:
            owner = u[OWNED_ELSEWHERE[k]]
            if c.table is not owner or len(owner.columns) != 1 or owner.columns[0] is not c:
                return 'foreign-table-disturbed', (f'{k} belongs to another table {OWNED_ELSEWHERE[k]} and was only '
                                                   f'passed as an argument; now .table={c.table!r}, owner.columns={owner.columns!r}')
        elif c.table is not None:
            return 'backpointer:column', f'{k} is not in T.columns but its .table is {c.table!r}'
    for k in IDXS:
        i = u[k]
        if k in m.idxs:
            if i.table is not T:
                return 'backpointer:index', f'{k} is listed in T.indexes but its .table is {i.table!r}'
        elif i.table is not None:
            return 'backpointer:index', f'{k} is not in T.indexes but its .table is {i.table!r}'
    for name in ('id', 'x', 'y', 'k', 'nope'):
        holders = [u[k] for k in m.cols if m.names[k] == name]
        try:
            g = T[name]
            obs = f'returned {g!r}'
            ok = any(g is h for h in holders)
        except Exception as e:
            obs = f'raised {exc_name(e)}'
            ok = not holders
        if not ok:
            return 'lookup:name', f'T[{name!r}] {obs}; columns with that current name: {holders!r}'
    return None


def run_table_history(history) -> Optional[Tuple[str, str]]:
    u = make_table_universe()
    m = TblModel()
    done: List[Any] = []

    def fail(key, msg):
        if m.dup:
            kind = 'column' if any(m.cols.count(c) > 1 for c in m.cols) or 'column' in key or 'columns' in key else 'index'
            key = f'double-add:{kind}'
        return key, short(f'{msg}; history: {done!r}', 600)

    for op in history:
        done.append(op)
        label = TBL_LABEL[op[0]]
        exp, eff = m.expect(op)
        eqcopy = exp in ('either', 'ok-eq')
        effs = eff if isinstance(eff, list) else [eff]
        before = table_snapshot(u)
        try:
            call_table_op(u, op)
            exc = None
        except Exception as e:
            exc = e
        after = table_snapshot(u)
        if exc is not None:
            if exp in ('ok', 'ok-eq'):
                return fail(f'accepted-op-raised:{label}:{exc_name(exc)}', f'{op!r} must succeed, raised {exc_name(exc)}: {exc}')
            if after != before:
                if eqcopy:
                    return fail(f'{label}-equal-copy',
                                f'{op!r} (argument equal to, but not identical with, a contained object) raised '
                                f'{exc_name(exc)}: {exc} and changed state: argument back-pointer / lists differ from before '
                                f'(arg.table={getattr(u[op[1]], "table", None)!r})')
                return fail(f'rejected-op-mutated:{label}', f'{op!r} raised {exc_name(exc)} but changed the table/argument')
            continue
        if exp == 'reject':
            return fail(f'rejected-op-accepted:{label}', f'{op!r} must be refused but returned normally')
        if exp == 'reject-foreign':
            return fail('foreign-index-accepted', f'{op!r}: index over a column that is not in the table was accepted')
        if exp == 'unchanged':
            if after != before:
                return fail(f'rejected-op-mutated:{label}', f'{op!r} (wrong argument type) changed the table')
            continue
        if exp == 'double':
            m.dup = True
        bad = None
        for cand in effs:
            trial = TblModel()
            trial.cols, trial.idxs, trial.names, trial.dup = list(m.cols), list(m.idxs), dict(m.names), m.dup
            trial.apply(cand)
            b = check_table_invariants(u, trial)
            if b is None:
                bad = None
                m.apply(cand)
                break
            bad = bad or b
        if bad:
            if eqcopy:
                return fail(f'{label}-equal-copy',
                            f'{op!r} (argument equal to, but not identical with, a contained object) returned normally; then '
                            f'[{bad[0]}] {bad[1]}')
            return fail(bad[0], bad[1])
    return None


TBL_OPS: List[Any] = (
    [['addc', k] for k in ('c2', 'c5', 'str', 'i1')]
    + [['delc', k] for k in COLS] + [['delc', 'str']]
    + [['delc#', p] for p in (0, 1, 2, 7)]
    + [['addi', k] for k in IDXS[1:]] + [['addi', 'c2'], ['addi', 'str']]
    + [['deli', k] for k in IDXS]
    + [['deli#', p] for p in (0, 1, 5)]
    + [['renc', 'c0', 'k'], ['renc', 'c2', 'nope']]
)
TBL_OPS_DOUBLE: List[Any] = [['addc', 'c0'], ['addc', 'c1'], ['addi', 'i0']]


class TableLevel(BObl):
    id = 'C09.B.table-level'
    property = 'C09'
    chunk = 512
    rule = ('histories of add_column/delete_column/add_index/delete_index (by object and by position) and column '
            'renames on one Table that starts with 2 columns and 1 index; universe: a free column, a free column with a '
            'clashing name, an equal copy living in a same-named table, a column of another table, 7 indexes (equal '
            'copy, over a foreign column, over a not-yet-added column, over the equal copy, string subject), wrong '
            'argument types; contract after every call: lists, iteration, t[i], t[name], back-pointers of every '
            'object of the universe (including arguments of refused calls), refused calls change nothing; adding an '
            'object of another table with add_column is outside the domain (statement is silent); re-adding a '
            'contained object is explored separately under key double-add')
    bound = ('quick: exhaustive depth<=3 over a 35-op alphabet (+ depth<=3 with the 3 re-add ops at first position), '
             '20000 seeded histories of depth<=25; thorough: exhaustive depth<=4, 200000 seeded')
    budget = {'quick': 20.0, 'thorough': 240.0}

    def cases(self, tier, seed):
        depth = 3 if tier == 'quick' else 4
        yield from product_upto(TBL_OPS, depth)
        for first in TBL_OPS_DOUBLE:
            yield [first]
            for rest in product_upto(TBL_OPS + TBL_OPS_DOUBLE, 2):
                yield [first] + rest
        rnd = random.Random(f'c09-table-{seed}')
        for _ in range(20000 if tier == 'quick' else 200000):
            yield [rnd.choice(TBL_OPS) for _i in range(rnd.randint(4, 25))]

    def exhaustive(self, tier):
        return False

    def check(self, recipe):
        return run_table_history(recipe)

    def nontrivial(self, recipe):
        m = TblModel()
        for op in recipe:
            exp, eff = m.expect(op)
            if exp in ('ok', 'ok-eq', 'either', 'double') and op[0] != 'renc':
                return True
            if exp in ('ok', 'ok-eq', 'either', 'double'):
                m.apply(eff[0] if isinstance(eff, list) else eff)
        return False


OBLIGATIONS = [DbHistory(), TableLevel()]
