"""Shared helpers for the bounded obligations C09/C10/C11/C12/C16/C17.

Nothing here imports pydbml at module import time (workers import it lazily), and nothing
here is derived from the code under test: documents follow the DBML documentation, models
follow spec/model.py.
"""
from __future__ import annotations

import os
from typing import Any, Callable, Dict, List, Optional, Tuple


# --------------------------------------------------------------------------------------
# calling the code under test
# --------------------------------------------------------------------------------------

def outcome(fn: Callable[[], Any]) -> Tuple[str, Any]:
    """('ok', value) or ('exc', exception).  Never lets an Exception escape."""
    try:
        return 'ok', fn()
    except Exception as e:  # classified by the caller
        return 'exc', e


def exc_name(e: BaseException) -> str:
    return type(e).__name__


def short(x: Any, n: int = 300) -> str:
    s = x if isinstance(x, str) else repr(x)
    return s if len(s) <= n else s[:n] + '...'


def text_or_class(fn: Callable[[], Any]) -> Tuple[str, str]:
    """('ok', text) or ('exc', class name) -- for comparing two renderings."""
    k, v = outcome(fn)
    if k == 'ok':
        return 'ok', v
    return 'exc', exc_name(v)


# --------------------------------------------------------------------------------------
# document pool (valid documents)
# --------------------------------------------------------------------------------------

DOCS: List[str] = [
    # 0
    '''Table users {
  id int [pk]
  name varchar
}
''',
    # 1
    '''Table "orders" [headercolor: #fff] {
  "id" int [pk, increment]
  "user_id" int [unique, not null]
  "created_at" varchar
}

Table "order_items" {
  "order_id" int
  "quantity" int [default: 1]
}

Ref: "orders"."id" < "order_items"."order_id"
''',
    # 2
    '''Enum "orders_status" {
  "created"
  "running"
  "done"
}

Table t1 {
  id int
  status orders_status
}
''',
    # 3
    '''Project "my project" {
    author: 'me'
    reason: 'testing'
    Note: 'project note'
}

Table a {
  id int [pk]
}
''',
    # 4
    '''Table posts as po {
    id integer [primary key]
    user_id integer
    tag char
}

Table reviews as re {
    id integer [primary key]
    post_id integer
    tag char
}

ref refname: posts.(id, tag) > re.(post_id,tag)
''',
    # 5
    '''Table products {
  id int [pk]
  name varchar
  merchant_id int [not null]
  status varchar
  created_at datetime [default: `now()`]

  Indexes {
    (merchant_id, status) [name: "product_status"]
    id [type: hash, unique]
    `lower(name)`
  }
}
''',
    # 6
    '''Table users {
  id int [pk]
  country_code int [ref: > countries.code]
}

Table countries {
  code int [pk]
  name varchar
}
''',
    # 7
    '''Table a {
  id int
}
Table b {
  id int
}
Table c {
  id int
}
TableGroup g1 {
  a
  b
}
TableGroup g2 {
  c
}
''',
    # 8
    '''Table t {
  id int [note: 'column note']
  Note: 'Simple one line note'
}

Note sticky1 {
  'one line sticky'
}
''',
    # 9
    '''Table "myschema"."t" {
  id int
  other int
}

Table "myschema"."u" {
  id int
  t_id int
}

Ref named_ref: myschema.u.t_id > myschema.t.id [delete: cascade, update: no action]
''',
    # 10
    '''// leading comment
Table a { // trailing
  id int // col comment
  // comment line
  name varchar [default: 'x']
}
// final comment
''',
    # 11
    '''Enum level {
    junior [note: 'enum item note']
    middle
    senior
}

Enum myschema.grade {
    a
    b
}

Table staff {
    id int
    l level
    g myschema.grade
}
''',
    # 12
    '''Table d {
  i int [default: 123]
  f float [default: 1.5]
  s varchar [default: 'text']
  b bool [default: true]
  n int [default: null]
  e int [default: `1+1`]
}
''',
    # 13
    '''Table a {
  id int [pk]
}
Table b {
  id int [pk]
  a_id int
}
Table c {
  id int
  b_id int
}
Ref: b.a_id > a.id
Ref: c.b_id > b.id
Ref: a.id - c.id
''',
    # 14
    '''Table authors {
  id int [pk]
}
Table books {
  id int [pk]
}
Ref: authors.id <> books.id
''',
    # 15
    '''Table t {
  id int
  Note {
  \'\'\'
  multi
    line
  note
  \'\'\'
  }
}
''',
    # 16
    '''Table "with space" as ws {
  "col one" int
  "col-two" varchar(255)
}

Ref: ws."col one" - "with space"."col-two"
''',
    # 17
    '''Table a {
  id int [pk, unique, not null, increment, note: 'all settings']
}
''',
    # 18
    '''Project p {
  database_type: 'PostgreSQL'
}
Enum e {
  x
}
Table t {
  id int
  v e [not null]
}
TableGroup g {
  t
}
Note n1 {
  'text'
}
''',
    # 19
    '''Table a {
  id int
  indexes {
    id [pk]
  }
}
Table b {
  x int
  y int
  indexes {
    (x, y) [pk]
    x [unique, note: 'idx note']
  }
}
''',
    # 20
    '''Table users as U {
  id int
}
Table posts {
  id int
  user_id int [ref: > U.id]
}
''',
    # 21
    '''Table e1 {
  id int
}

Table e2 {
  id int
  e1_id int
}

Ref {
  e2.e1_id > e1.id [delete: set null]
}
''',
    # 22
    '''Table t {
  a "character varying"
  b numeric(10,2)
  c int[]
  d "timestamp with time zone"
}
''',
    # 23
    '''Note first {
  'a'
}
Note second {
  \'\'\'
  multi
  line
  \'\'\'
}
Table t {
  id int
}
''',
    # 24
    '''Table s1.a {
  id int
}
Table s2.a {
  id int
  a_id int [ref: > s1.a.id]
}
''',
    # 25
    '''Table big {
  c0 int
  c1 int
  c2 int
  c3 int
  c4 int
  c5 int
  c6 int
  c7 int
  c8 int
  c9 int
}
''',
    # 26
    '''Table a {
  id int
}


Table b {
  id int
}



''',
    # 27
    '''TableGroup "group with note" [color: #aabbcc] {
  a
  Note: 'group note'
}
Table a {
  id int
}
''',
    # 28
    '''Table parent {
  id int [pk]
}
Table child {
  id int [pk]
  p1 int [ref: > parent.id]
  p2 int [ref: - parent.id]
}
Ref: parent.id < child.id
''',
    # 29
    '''Enum "product status" {
  "Out of Stock"
  "In Stock"
}
Table products {
  id int
  status "product status"
}
''',
]

# documents with non-ASCII content (notes, quoted names, defaults, comments)
DOCS_UNICODE: List[str] = [
    '''Table "tävla" {
  "größe" int [note: 'заметка']
  name varchar [default: 'π≈3.14']
  Note: 'naïve café 日本語'
}
''',
    '''// комментарий
Project "проект" {
  author: 'Ünal'
  Note: 'ノート'
}
Enum "статус" {
  "новый"
  "старый"
}
Table t {
  id int
  s "статус"
}
Note n {
  'sticky ✓ €'
}
''',
    '''Table a {
  id int [note: 'emoji \U0001F600 astral']
}
TableGroup "группа" {
  a
}
''',
]

# documents that need allow_properties=True
DOCS_PROPS: List[str] = [
    '''Table t {
  id int [pk, prop1: 'v1']
  name varchar
  tprop: 'table property'
  other: 'x'
}
''',
    '''Table a {
  id int
  color: 'red'
}
Table b {
  id int [meta: 'm']
}
Ref: b.id > a.id
''',
]

# invalid documents, one family per failing phase
BAD_DOCS: Dict[str, List[str]] = {
    # pyparsing syntax error
    'syntax': [
        'Table a {\n  id int\n',
        'Tabel a {\n  id int\n}\n',
        'Table a {\n  id int\n}\nRef: a.id >\n',
        'Table a {\n  id int [pk\n}\n',
    ],
    # SyntaxError raised from a parse action (table without columns)
    'no-columns': [
        'Table a {\n}\n',
        'Table ok {\n  id int\n}\nTable empty {\n  Note: \'n\'\n}\n',
    ],
    # validation error while building the database (duplicate table / enum)
    'duplicate': [
        'Table a {\n  id int\n}\nTable a {\n  id int\n}\n',
        'Table x {\n  id int\n}\nTable y as x1 {\n  id int\n}\nTable z as x1 {\n  id int\n}\n',
        'Enum e {\n  a\n}\nEnum e {\n  b\n}\nTable t {\n  id int\n}\n',
    ],
    # resolution error: unknown table / column in a reference or group
    'resolution': [
        'Table a {\n  id int\n}\nRef: a.id > nosuch.id\n',
        'Table a {\n  id int [ref: > b.id]\n}\n',
        'Table a {\n  id int\n}\nTable b {\n  id int\n}\nRef: a.id > b.nocol\n',
        'Table a {\n  id int\n}\nTableGroup g {\n  a\n  missing\n}\n',
    ],
}

BAD_KINDS = ['syntax', 'no-columns', 'duplicate', 'resolution']


def repo_docs() -> List[str]:
    """Valid documents shipped with the repository's tests (read-only use)."""
    base = '/repo/test/test_data'
    names = ['general.dbml', 'notes.dbml', 'relationships_composite.dbml', 'relationships_aliases.dbml',
             'editing.dbml', 'integration1.dbml']
    out = []
    for n in names:
        p = os.path.join(base, n)
        try:
            with open(p, encoding='utf8') as f:
                out.append(f.read())
        except OSError:
            pass
    return out


def get_doc(ref: Any) -> str:
    """Resolve a document reference used in recipes: ['d', i] | ['u', i] | ['p', i] | ['r', i] |
    ['bad', kind, i] | ['text', s]."""
    k = ref[0]
    if k == 'd':
        return DOCS[ref[1]]
    if k == 'u':
        return DOCS_UNICODE[ref[1]]
    if k == 'p':
        return DOCS_PROPS[ref[1]]
    if k == 'r':
        docs = repo_docs()
        return docs[ref[1] % len(docs)] if docs else DOCS[0]
    if k == 'bad':
        return BAD_DOCS[ref[1]][ref[2]]
    if k == 'text':
        return ref[1]
    raise ValueError(f'bad doc ref {ref!r}')


def valid_refs(with_repo: bool = True) -> List[Any]:
    out: List[Any] = [['d', i] for i in range(len(DOCS))] + [['u', i] for i in range(len(DOCS_UNICODE))]
    if with_repo:
        out += [['r', i] for i in range(len(repo_docs()))]
    return out


def bad_refs() -> List[Any]:
    return [['bad', k, i] for k in BAD_KINDS for i in range(len(BAD_DOCS[k]))]


# --------------------------------------------------------------------------------------
# abstract models for API-built databases (spec/model.py format)
# --------------------------------------------------------------------------------------

def _col(name, type='int', **kw):
    d = {'name': name, 'type': type}
    d.update(kw)
    return d


MODELS: List[Dict[str, Any]] = [
    # 0: two tables, a plain and an inline reference, an index
    {
        'tables': [
            {'name': 'users', 'alias': 'U', 'note': 'users table', 'columns': [
                _col('id', pk=True), _col('name', 'varchar', not_null=True, default={'kind': 'str', 'value': 'x'}),
                _col('country', 'int')],
             'indexes': [{'subjects': [{'col': 'name'}], 'unique': True},
                         {'subjects': [{'col': 'id'}, {'expr': 'lower(name)'}], 'name': 'ix1', 'type': 'btree'}]},
            {'name': 'countries', 'columns': [_col('code', pk=True), _col('title', 'varchar', note='the title')]},
            {'schema': 'arch', 'name': 'logs', 'comment': 'log table', 'columns': [
                _col('id'), _col('user_id'), _col('at', 'datetime', default={'kind': 'expr', 'value': 'now()'})]},
        ],
        'refs': [
            {'type': '>', 't1': ['public', 'users'], 'c1': ['country'], 't2': ['public', 'countries'], 'c2': ['code'],
             'inline': True},
            {'type': '>', 't1': ['arch', 'logs'], 'c1': ['user_id'], 't2': ['public', 'users'], 'c2': ['id'],
             'name': 'fk_logs', 'on_delete': 'cascade', 'comment': 'ref comment'},
        ],
        'table_groups': [{'name': 'g1', 'items': [['public', 'users'], ['arch', 'logs']], 'note': 'group note'}],
    },
    # 1: enums, enum-typed columns, project, sticky notes
    {
        'project': {'name': 'proj', 'items': [['author', 'me']], 'note': 'pnote'},
        'enums': [
            {'name': 'status', 'items': [{'name': 'new', 'note': 'fresh'}, {'name': 'old'}], 'comment': 'enum comment'},
            {'schema': 's', 'name': 'grade', 'items': [{'name': 'a'}, {'name': 'b'}]},
        ],
        'tables': [
            {'name': 't', 'columns': [_col('id', pk=True, autoinc=True), _col('st', {'enum': ['public', 'status']}),
                                      _col('gr', {'enum': ['s', 'grade']}, unique=True)]},
            {'name': 'u', 'columns': [_col('id'), _col('t_id', comment='points to t')]},
        ],
        'refs': [{'type': '<', 't1': ['public', 't'], 'c1': ['id'], 't2': ['public', 'u'], 'c2': ['t_id']}],
        'table_groups': [{'name': 'grp', 'items': [['public', 't']], 'color': '#aaa'}],
        'sticky_notes': [{'name': 'n1', 'text': 'first'}, {'name': 'n2', 'text': 'two\nlines'}],
    },
    # 2: composite and many-to-many references, composite pk
    {
        'tables': [
            {'name': 'a', 'columns': [_col('x', pk=True), _col('y', pk=True), _col('z', 'varchar')],
             'indexes': [{'subjects': [{'col': 'x'}, {'col': 'y'}], 'pk': True}]},
            {'name': 'b', 'columns': [_col('ax'), _col('ay'), _col('id')]},
            {'name': 'c', 'columns': [_col('id'), _col('b_id')]},
        ],
        'refs': [
            {'type': '>', 't1': ['public', 'b'], 'c1': ['ax', 'ay'], 't2': ['public', 'a'], 'c2': ['x', 'y'],
             'name': 'composite'},
            {'type': '<>', 't1': ['public', 'b'], 'c1': ['id'], 't2': ['public', 'c'], 'c2': ['id']},
            {'type': '-', 't1': ['public', 'c'], 'c1': ['b_id'], 't2': ['public', 'b'], 'c2': ['id'], 'inline': True,
             'on_update': 'no action'},
        ],
    },
    # 3: properties
    {
        'allow_properties': True,
        'tables': [
            {'name': 'p', 'properties': [['k', 'v']], 'columns': [_col('id', properties=[['ck', 'cv']]), _col('q', 'text')]},
            {'name': 'r', 'columns': [_col('id'), _col('p_id')]},
        ],
        'refs': [{'type': '>', 't1': ['public', 'r'], 'c1': ['p_id'], 't2': ['public', 'p'], 'c2': ['id']}],
    },
]


# --------------------------------------------------------------------------------------
# walking a database
# --------------------------------------------------------------------------------------

def elements(db) -> List[Tuple[str, str, Any]]:
    """(kind, path, object) of every element of a database, in a fixed order."""
    out: List[Tuple[str, str, Any]] = []
    if db.project is not None:
        out.append(('project', 'project', db.project))
    for i, e in enumerate(db.enums):
        out.append(('enum', f'enums[{i}]', e))
        for j, it in enumerate(e.items):
            out.append(('enum_item', f'enums[{i}].items[{j}]', it))
    for i, t in enumerate(db.tables):
        out.append(('table', f'tables[{i}]', t))
        for j, c in enumerate(t.columns):
            out.append(('column', f'tables[{i}].columns[{j}]', c))
        for j, ix in enumerate(t.indexes):
            out.append(('index', f'tables[{i}].indexes[{j}]', ix))
    for i, r in enumerate(db.refs):
        out.append(('reference', f'refs[{i}]', r))
    for i, g in enumerate(db.table_groups):
        out.append(('table_group', f'table_groups[{i}]', g))
    for i, n in enumerate(db.sticky_notes):
        out.append(('sticky_note', f'sticky_notes[{i}]', n))
    return out


def has_sql(kind: str) -> bool:
    return kind in ('enum', 'enum_item', 'table', 'column', 'index', 'reference')


def pointer_snapshot(db) -> Dict[str, Any]:
    """Identity-level snapshot of the container structure: lists, name index, back-pointers."""
    snap: Dict[str, Any] = {
        'tables': [id(t) for t in db.tables],
        'table_dict': sorted((k, id(v)) for k, v in db.table_dict.items()),
        'refs': [id(r) for r in db.refs],
        'enums': [id(e) for e in db.enums],
        'groups': [id(g) for g in db.table_groups],
        'notes': [id(n) for n in db.sticky_notes],
        'project': id(db.project) if db.project is not None else None,
        'back': [],
    }
    back = snap['back']
    for kind, path, o in elements(db):
        if kind in ('column', 'index'):
            back.append((path, id(o.table) if o.table is not None else None))
        elif kind != 'enum_item':
            d = getattr(o, 'database', 'n/a')
            back.append((path, id(d) if d is not None and d != 'n/a' else d))
    for i, t in enumerate(db.tables):
        back.append((f'tables[{i}].cols', [id(c) for c in t.columns]))
        back.append((f'tables[{i}].idx', [id(x) for x in t.indexes]))
    for i, g in enumerate(db.table_groups):
        back.append((f'groups[{i}].items', [id(x) for x in g.items]))
    for i, r in enumerate(db.refs):
        back.append((f'refs[{i}].cols', [id(c) for c in r.col1] + [None] + [id(c) for c in r.col2]))
    return snap
