"""C13 extra: note normalisation on line-structured texts (indentation x blank / whitespace-only
interior lines), which the character-level exhaustive domain only reaches at length 9+."""
from __future__ import annotations

import itertools

from lib.bounded import BObl


class NormLines(BObl):
    id = 'C13.B.norm-lines'
    property = 'C13'
    rule = ('texts of 1..4 lines, each line = indentation 0..3 spaces (or a tab) + content from {a, ab, empty, whitespace-only}; '
            'contract: no leading/trailing blank line, all lines lost the same prefix, some non-blank line has indentation 0, idempotent')
    bound = 'exhaustive: lines from a pool of 14, up to 3 lines quick / 4 lines thorough'

    def pool(self):
        out = ['', ' ', '  ', '   ', '\t']
        for ind in ('', ' ', '  ', '   ', '\t'):
            out.append(ind + 'a')
        for ind in ('', ' ', '  '):
            out.append(ind + 'ab ')
        return out

    def cases(self, tier, seed):
        n = 3 if tier == 'quick' else 4
        for k in range(1, n + 1):
            for ls in itertools.product(self.pool(), repeat=k):
                yield {'text': '\n'.join(ls)}

    def exhaustive(self, tier):
        return True

    def nontrivial(self, r):
        return bool(r['text'].strip())

    def check(self, r):
        from pydbml.parser.blueprints import NoteBlueprint
        t = r['text']
        try:
            n1 = NoteBlueprint(t)._preformat_text()
            n2 = NoteBlueprint(n1)._preformat_text()
        except Exception as e:
            return ('crash:' + type(e).__name__, f'{t!r}: {type(e).__name__}: {e}')
        if n1 != n2:
            return ('not-idempotent', f'{t!r} -> {n1!r} -> {n2!r}')
        if not t.strip():
            return None
        lines = n1.split('\n')
        if not lines[0].strip() or not lines[-1].strip():
            return ('blank-edge-line', f'{t!r} -> {n1!r}')
        nonblank = [l for l in lines if l.strip()]
        if all(l[:1] in (' ', '\t') for l in nonblank):
            return ('common-indentation-left', f'{t!r} -> {n1!r}: every non-blank line is still indented')
        return None


OBLIGATIONS = [NormLines()]
