"""C10 -- renderings always reflect the current state of the model after edits.

A seeded sequence of the statement's in-place edits is applied to a real database (built
through the public classes or parsed); a second database is then built freshly through the
public classes from the abstract content of the first (`build_api(view(db1))`).  Contract:
`.dbml` and `.sql` of the two databases and of every pair of corresponding elements are
identical (or both raise the same exception class).
"""
from __future__ import annotations

import random
from typing import Any, List, Optional, Tuple

from lib.bounded import BObl
from bounded._api_models import (MODELS, DOCS, DOCS_UNICODE, DOCS_PROPS, get_doc, elements, has_sql,
                                 text_or_class, short, repo_docs)

FLAGS = ['pk', 'unique', 'not_null', 'autoinc']
TYPES = ['int', 'varchar(20)', 'text', 'timestamp', 'numeric(10,2)']
DEFAULTS = [None, {'kind': 'int', 'value': 7}, {'kind': 'int', 'value': 0}, {'kind': 'str', 'value': 'dflt'},
            {'kind': 'str', 'value': ''}, {'kind': 'bool', 'value': True}, {'kind': 'bool', 'value': False},
            {'kind': 'float', 'value': '2.5'}, {'kind': 'expr', 'value': 'now()'}, {'kind': 'str', 'value': 'null'}]
NOTES = [None, 'a note', 'two\nlines', "it's"]
ACTIONS = [None, 'cascade', 'set null', 'no action', 'restrict']
REFTYPES = ['>', '<', '-', '<>']

EDIT_KINDS = ['table.name', 'table.schema', 'table.alias', 'table.note', 'column.name', 'column.type',
              'column.type-enum', 'column.flag', 'column.default', 'column.note', 'enum.name', 'enum.schema',
              'enum.add_item', 'enum_item.name', 'ref.type', 'ref.inline', 'ref.name', 'ref.on_update',
              'ref.on_delete', 'table.add_column', 'table.add_index', 'table.delete_index']


def gen_edit(rnd: random.Random, k: int) -> List[Any]:
    kind = rnd.choice(EDIT_KINDS)
    a, b = rnd.randrange(8), rnd.randrange(8)
    if kind == 'table.name':
        return [kind, a, f'tn{k}']
    if kind == 'table.schema':
        return [kind, a, rnd.choice(['public', f'sch{k}'])]
    if kind == 'table.alias':
        return [kind, a, rnd.choice([None, f'al{k}'])]
    if kind == 'table.note':
        return [kind, a, rnd.choice(NOTES)]
    if kind == 'column.name':
        return [kind, a, b, f'cn{k}']
    if kind == 'column.type':
        return [kind, a, b, rnd.choice(TYPES)]
    if kind == 'column.type-enum':
        return [kind, a, b, rnd.randrange(4)]
    if kind == 'column.flag':
        return [kind, a, b, rnd.choice(FLAGS), rnd.random() < 0.6]
    if kind == 'column.default':
        return [kind, a, b, rnd.choice(DEFAULTS)]
    if kind == 'column.note':
        return [kind, a, b, rnd.choice(NOTES)]
    if kind == 'enum.name':
        return [kind, a, f'en{k}']
    if kind == 'enum.schema':
        return [kind, a, rnd.choice(['public', f'es{k}'])]
    if kind == 'enum.add_item':
        return [kind, a, f'item{k}', rnd.random() < 0.5]
    if kind == 'enum_item.name':
        return [kind, a, b, f'in{k}']
    if kind == 'ref.type':
        return [kind, a, rnd.choice(REFTYPES)]
    if kind == 'ref.inline':
        return [kind, a, rnd.random() < 0.5]
    if kind == 'ref.name':
        return [kind, a, rnd.choice([None, f'rn{k}'])]
    if kind in ('ref.on_update', 'ref.on_delete'):
        return [kind, a, rnd.choice(ACTIONS)]
    if kind == 'table.add_column':
        return [kind, a, f'nc{k}', rnd.choice(TYPES), rnd.random() < 0.3]
    if kind == 'table.add_index':
        return [kind, a, [b, rnd.randrange(8)][:rnd.choice([1, 2])], rnd.random() < 0.5, rnd.choice([None, f'ix{k}'])]
    if kind == 'table.delete_index':
        return [kind, a, b]
    raise ValueError(kind)


def apply_edit(db, e) -> bool:
    """Apply one edit through plain attribute assignment / the public add/delete methods.
    Returns False when the addressed element does not exist (edit skipped)."""
    from pydbml.classes import Column, Index, Note, EnumItem
    from spec.model import default_value
    kind = e[0]
    if kind.startswith('table.') or kind.startswith('column.'):
        if not db.tables:
            return False
        t = db.tables[e[1] % len(db.tables)]
        if kind == 'table.name':
            t.name = e[2]
        elif kind == 'table.schema':
            t.schema = e[2]
        elif kind == 'table.alias':
            t.alias = e[2]
        elif kind == 'table.note':
            t.note = Note(e[2])
        elif kind == 'table.add_column':
            t.add_column(Column(e[2], e[3], not_null=e[4]))
        elif kind == 'table.add_index':
            if not t.columns:
                return False
            cols = []
            for i in e[2]:
                c = t.columns[i % len(t.columns)]
                if not any(c is x for x in cols):
                    cols.append(c)
            t.add_index(Index(cols, unique=e[3], name=e[4]))
        elif kind == 'table.delete_index':
            if not t.indexes:
                return False
            t.delete_index(e[2] % len(t.indexes))
        else:
            if not t.columns:
                return False
            c = t.columns[e[2] % len(t.columns)]
            if kind == 'column.name':
                c.name = e[3]
            elif kind == 'column.type':
                c.type = e[3]
            elif kind == 'column.type-enum':
                if not db.enums:
                    return False
                c.type = db.enums[e[3] % len(db.enums)]
            elif kind == 'column.flag':
                setattr(c, e[3], e[4])
            elif kind == 'column.default':
                c.default = default_value(e[3])
            elif kind == 'column.note':
                c.note = Note(e[3])
            else:
                raise ValueError(kind)
        return True
    if kind.startswith('enum'):
        if not db.enums:
            return False
        en = db.enums[e[1] % len(db.enums)]
        if kind == 'enum.name':
            en.name = e[2]
        elif kind == 'enum.schema':
            en.schema = e[2]
        elif kind == 'enum.add_item':
            en.add_item(EnumItem(e[2]) if e[3] else e[2])
        elif kind == 'enum_item.name':
            if not en.items:
                return False
            en.items[e[2] % len(en.items)].name = e[3]
        else:
            raise ValueError(kind)
        return True
    if kind.startswith('ref.'):
        if not db.refs:
            return False
        r = db.refs[e[1] % len(db.refs)]
        setattr(r, kind.split('.')[1], e[2])
        return True
    raise ValueError(kind)


def build_base(base):
    from spec.model import build_api
    from pydbml import PyDBML
    if base[0] == 'api':
        return build_api(MODELS[base[1]])
    return PyDBML(get_doc(base[1]), allow_properties=(base[1][0] == 'p'))


def with_notes(db) -> List[Tuple[str, str, Any]]:
    out = []
    for kind, path, o in elements(db):
        out.append((kind, path, o))
        if kind in ('table', 'column', 'index', 'enum_item', 'project') and getattr(o, 'note', None) is not None:
            out.append(('note', path + '.note', o.note))
    return out


PRIORITY = ['note', 'enum_item', 'column', 'index', 'reference', 'enum', 'table', 'table_group', 'sticky_note',
            'project']


def evaluate(base, edits) -> Optional[Tuple[str, str]]:
    """None, or (element kind, message) of the first disagreement.  ('__skip__', why) if the case
    cannot be evaluated (the fresh build itself is refused)."""
    from spec.model import view, build_api, diff
    db1 = build_base(base)
    for e in edits:
        apply_edit(db1, e)
    v1 = view(db1)
    try:
        db2 = build_api(v1)
    except Exception as ex:
        return '__skip__', f'fresh build refused: {type(ex).__name__}: {ex}'
    v2 = view(db2)
    if v1 != v2:
        return '__skip__', 'fresh build has different content: ' + '; '.join(diff(v1, v2)[:3])
    e1, e2 = with_notes(db1), with_notes(db2)
    if [(k, p) for k, p, _ in e1] != [(k, p) for k, p, _ in e2]:
        return '__skip__', 'element lists differ'
    pairs = sorted(zip(e1, e2), key=lambda pr: PRIORITY.index(pr[0][0]))     # most specific element first
    for (kind, path, o1), (_, _, o2) in pairs:
        langs = ['dbml'] + (['sql'] if has_sql(kind) or kind == 'note' else [])
        for lang in langs:
            a = text_or_class(lambda: getattr(o1, lang))
            b = text_or_class(lambda: getattr(o2, lang))
            if a != b:
                return kind, f'{path}.{lang} differs: edited {short(a[1], 200)!r} vs fresh {short(b[1], 200)!r}'
    for lang in ('dbml', 'sql'):
        a = text_or_class(lambda: getattr(db1, lang))
        b = text_or_class(lambda: getattr(db2, lang))
        if a != b:
            return 'database', f'db.{lang} differs: edited {short(a[1], 220)!r} vs fresh {short(b[1], 220)!r}'
    return None


class Edits(BObl):
    id = 'C10.B.edits'
    property = 'C10'
    chunk = 16
    rule = ('base database = one of 4 API-built models or one of the ~40 pool documents parsed; a seeded sequence of '
            '1..12 edits out of 22 kinds (rename table/schema/column/enum/enum item, alias, notes, column type '
            '(string or enum object), flags, default, reference type/inline/name/on_update/on_delete, add column, add '
            'index, add enum item, delete index), new names unique per position; oracle = database rebuilt from '
            'view() through the public classes; compared: db.dbml, db.sql, and .dbml/.sql of every element and note '
            'pairwise, both sides must render or raise the same class; a failure is attributed by replaying single '
            'edits; non-trivial = at least one edit applies')
    bound = 'quick: 9000 seeded cases (<=12 edits each); thorough: 150000'
    budget = {'quick': 22.0, 'thorough': 270.0}

    def bases(self):
        out = [['api', i] for i in range(len(MODELS))]
        out += [['doc', ['d', i]] for i in range(len(DOCS))]
        out += [['doc', ['u', i]] for i in range(len(DOCS_UNICODE))]
        out += [['doc', ['p', i]] for i in range(len(DOCS_PROPS))]
        out += [['doc', ['r', i]] for i in range(len(repo_docs()))]
        return out

    def cases(self, tier, seed):
        bases = self.bases()
        for b in bases:
            yield {'base': b, 'edits': []}
        rnd = random.Random(f'c10-{seed}')
        n = 9000 if tier == 'quick' else 150000
        for i in range(n):
            b = bases[i % len(bases)] if rnd.random() < 0.5 else rnd.choice(bases[:8] + [['doc', ['r', 0]], ['doc', ['r', 1]]])
            ln = rnd.randint(1, 12)
            yield {'base': b, 'edits': [gen_edit(rnd, k) for k in range(ln)]}

    def check(self, recipe):
        base, edits = recipe['base'], recipe['edits']
        try:
            r = evaluate(base, edits)
        except Exception as ex:      # the edit itself (plain assignment / add / delete) must not fail
            return f'edit-raised:{type(ex).__name__}', short(f'applying {edits!r} to {base!r} raised {type(ex).__name__}: {ex}', 600)
        if r is None or r[0] == '__skip__':
            return None
        kind, msg = r
        if edits:
            r0 = evaluate(base, [])
            if r0 is not None and r0[0] != '__skip__':
                return f'base-disagrees:{r0[0]}', short(f'without any edit: {r0[1]}; base {base!r}', 600)
        else:
            return f'base-disagrees:{kind}', short(f'without any edit: {msg}; base {base!r}', 600)
        attr = None
        for e in edits:
            try:
                r1 = evaluate(base, [e])
            except Exception:
                continue
            if r1 is not None and r1[0] != '__skip__':
                attr, kind, msg = e[0], r1[0], r1[1] + f' (single edit {e!r})'
                break
        if attr is None:
            for n in range(2, len(edits) + 1):
                try:
                    r1 = evaluate(base, edits[:n])
                except Exception:
                    continue
                if r1 is not None and r1[0] != '__skip__':
                    attr, kind, msg = edits[n - 1][0] + '+combo', r1[0], r1[1] + f' (edits {edits[:n]!r})'
                    break
        return f'stale:{kind}:{attr}', short(f'{msg}; base {base!r}', 600)

    def nontrivial(self, recipe):
        return bool(recipe['edits'])


OBLIGATIONS = [Edits()]
